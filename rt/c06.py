"""C06 bounded run-time tier: Field.integrate / Field.mean / discretisedfield.integrate on the real code.

Oracle: plain numpy sums of the value array times cell lengths computed here from the corners
(cell_d = (pmax_d - pmin_d) / n_d).  Exact variant: integer values, power-of-two cells, corners on
integer multiples of the cell -> every number is exactly representable and the comparison is `==`.
General variant: 64 ulp of (sum of |values| entering the sum) x (measure).

Two kinds of cases:
* "integ":   one fresh mesh, every quantity observed once (plus linearity / per component / translation);
* "history": observe -> mutate -> observe sequences on ONE mesh object.  Between observations the mesh is transformed in
  place (scale / translate / rotate90 through the mesh, through a field's `.mesh`, through the Region object the mesh was
  built from, or by Field.rotate90), its dims/units are renamed, the values are overwritten in place, or a new mesh is
  derived (copy form / deepcopy) from the already observed one.  After every step the oracle is re-evaluated for the CURRENT
  geometry, which is taken from the primitive stored state only (region.pmin / pmax / dims / units read back, n = shape of the
  value array); cell, dV, edges, sums are recomputed here.  Anything the library derived and kept (cell volume, cell, edges,
  index maps, integrals, means) would be stale against it."""
import copy
import itertools
import numpy as np
import discretisedfield as df
from .common import raises, ulp_close

PROPERTY = "C06"
CLAUSES = {
    "C06.volume": "integrate() == (sum of the cell values over all cell axes, per component) * prod(cell); a numpy array of shape (nvdim,); discretisedfield.integrate(f) is the same",
    "C06.fubini": "integrating direction by direction, in every order of the directions, ends in the same numbers as integrate() (64 ulp of sum|v|*dV, == in the exact variant)",
    "C06.directional": "integrate(d).array == sum along axis d * cell_d (plain array of shape (nvdim,) on a 1-d mesh)",
    "C06.axis_removed": "the result of integrate(d) / mean(d) / mean([..]) lives on the mesh with exactly those axes removed: remaining dims, units, n, pmin, pmax, cell in the original order; cumulative integrals keep the full mesh",
    "C06.cumulative": "integrate(d, cumulative=True)[i] == cell_d * (sum_{k<i} v_k + v_i / 2) for every cell, on the unchanged mesh; cumulative without a direction is refused (ValueError)",
    "C06.cumulative_last": "last cumulative entry + cell_d * (last cell value) / 2 == integrate(d)",
    "C06.mean": "mean() == integrate()/prod(edges); mean(d) == integrate(d)/edge_d; mean([d1..dk]) (list or tuple, any order, any non-empty subset) == iterated integral / prod of the integrated edges; all directions -> plain array",
    "C06.mean_duplicates": "a direction list with a repeated direction is rejected (ValueError)",
    "C06.linearity": "integrate / cumulative / mean of a*f+b*g == a*(..f) + b*(..g) within 64 ulp of the operand scale",
    "C06.per_component": "every component of the result equals the result for the scalar field holding that component alone",
    "C06.cell_volume": "read directly at every observation point: mesh.cell == (pmax - pmin)/n, mesh.dV == prod(cell), region.edges == pmax - pmin (4 ulp), mesh.n == shape of the value array",
    "C06.history": "observe/mutate/observe histories: after every in-place step (mesh/region scale, translate, rotate90 through any handle, Field.rotate90, renaming dims/units, overwriting the values) and every derivation of a new mesh from an observed one, all clauses above are stated again for the CURRENT geometry and values (reported under the clause concerned, sig history-after-<op>); this clause itself: the step did not raise and took effect (edges x |factor|, corners + vector, edges of the rotated pair swapped for odd k, new names / values read back; rtol 1e-9 of the coordinate scale) and left the mesh it was derived from untouched",
    "C06.translation": "the same values on a translated mesh give the same numbers (== when the shift is a whole number of power-of-two cells; else within 64 ulp x (1 + |coordinate|/edge), the cell of the shifted mesh being edges/n of rounded corners) on the accordingly shifted result mesh",
}
RULE = ("seeded meshes with 1-4 dims (n <= 6 per axis, anisotropic cells, renamed dims, distinct units), 1-4 components, exact and "
        "general variant; per case: every direction, every order of directions (<= 24), every non-empty subset of directions for the "
        "mean in a seeded order; histories: the same meshes (cells within 3 decades), 2-4 seeded steps out of {scale (scalar / per-axis "
        "factor, either sign, centre or explicit reference point), translate, rotate90 (k in 1,2,3,-1; pairs of axes with equal n, or "
        "Field.rotate90 of scalar fields on any pair), rename dims / units, overwrite values (view write, array setter, "
        "update_field_values), derive (copy-form scale / translate / rotate90, deepcopy + in-place scale)} through every handle (mesh, "
        "field.mesh, another field's mesh, the Region object, field.mesh.region), with a seeded ordered subset of the quantity groups "
        "(cell/dV attributes, volume, iterated, directional, cumulative, single-direction mean, other means) observed before the first "
        "step and all groups in a seeded order after each step; plus fixed histories; "
        "non-trivial = more than one cell; distinct by (kind, params)")
ASSUMPTIONS = ["bounded: <= 6 cells per axis, <= 4 dims, <= 4 components, seeded values and geometry",
               "trusted: numpy.sum on the value array, Field construction from arrays",
               "histories: region.pmin / pmax / dims / units as read back after a step are the primitive state the oracle starts from "
               "(what the transformations do to them is C12/C13's business; here only a loose took-effect check); exact comparison is "
               "kept until the first rotate90 (cos(k pi/2) is not exactly 0), 64 ulp afterwards",
               "histories: <= 4 steps, factors 2^-2..2^3 / 3 / 1.5 (exact) or 10^-2..10^2 (general), either sign"]

NAMES = ["a", "b", "c", "e", "g", "h", "k", "p", "q", "r", "s", "u", "w", "x", "y", "z"]
UNITS = ["m", "s", "kg", "A", "K", "rad"]
VNAMES = ["p", "q", "r", "s", "u", "w", "ma", "mb", "e1", "e2"]
SIG_MEAN1D = "mean-str-direction-on-1d-mesh-raises"


GROUPS = ["attrs", "volume", "fubini", "dir", "cum", "mean1", "means"]
VIAS = ["mesh", "field", "other-field", "region", "field-region"]
EXACT_FACTORS = [0.25, 0.5, 2.0, 4.0, 8.0, 3.0, 1.5, -2.0, -0.5]


def _base(rng, ndim, nvdim, exact, narrow=False):
    hi = {1: 8, 2: 6, 3: 5, 4: 4}[ndim]
    n = rng.integers(1, hi + 1, size=ndim).tolist()
    if max(n) == 1:
        n[int(rng.integers(ndim))] = int(rng.integers(2, hi + 1))
    dims = [str(d) for d in rng.choice(NAMES, size=ndim, replace=False)]
    units = [str(u) for u in rng.choice(UNITS, size=ndim, replace=False)]
    if exact:
        cell = (2.0 ** rng.integers(-4, 5, size=ndim)).tolist()
        p1 = (np.array(cell) * rng.integers(-6, 7, size=ndim)).tolist()
        shift = (np.array(cell) * rng.integers(-9, 10, size=ndim)).tolist()
    else:
        if narrow:      # histories rotate axes into each other: keep the cells within 3 decades
            cell = (10.0 ** (rng.uniform(-8, 1) + rng.uniform(-1.5, 1.5, size=ndim))).tolist()
        else:
            cell = (10.0 ** rng.uniform(-9, 2, size=ndim)).tolist()
        p1 = (np.array(cell) * rng.uniform(-10, 10, size=ndim)).tolist()
        shift = (np.array(cell) * rng.uniform(-10, 10, size=ndim)).tolist()
    vdims = [str(v) for v in rng.choice(VNAMES, size=nvdim, replace=False)] if rng.random() < 0.6 else None
    return {"n": n, "cell": cell, "p1": p1, "flip": rng.integers(0, 2, size=ndim).tolist(), "dims": dims,
            "units": units, "nvdim": nvdim, "vdims": vdims, "exact": exact, "shift": shift,
            "seed": int(rng.integers(1 << 30))}


def cases(ctx):
    rng = ctx.rng
    reps = 6 if ctx.tier == "quick" else 30
    for ndim in (1, 2, 3, 4):
        for nvdim in (1, 2, 3, 4):
            for exact in (True, False):
                for _ in range(reps):
                    yield "integ", _base(rng, ndim, nvdim, exact)
    yield "integ", {"n": [1], "cell": [0.5], "p1": [0.0], "flip": [0], "dims": ["x"], "units": ["m"], "nvdim": 1, "vdims": None,
                    "exact": True, "shift": [1.0], "seed": 1}
    yield "integ", {"n": [2, 1, 3], "cell": [1.0, 4.0, 0.25], "p1": [0.0, 0.0, 0.0], "flip": [0, 1, 0], "dims": ["x", "y", "z"],
                    "units": ["m", "m", "m"], "nvdim": 3, "vdims": None, "exact": True, "shift": [0.0, 8.0, -1.0], "seed": 2}
    # ---------------- observe / mutate / observe histories
    hreps = 4 if ctx.tier == "quick" else 20
    for ndim in (1, 2, 3, 4):
        for nvdim in (1, 2, 3, 4):
            for exact in (True, False):
                for _ in range(hreps):
                    yield "history", _history(rng, ndim, nvdim, exact)
    yield from _fixed_histories()


def _obs(rng, full=False):
    if full or rng.random() < 0.5:
        return [GROUPS[i] for i in rng.permutation(len(GROUPS))]
    k = int(rng.integers(1, len(GROUPS)))
    return [GROUPS[i] for i in rng.permutation(len(GROUPS))[:k]]


def _history(rng, ndim, nvdim, exact):
    pr = _base(rng, ndim, nvdim, exact, narrow=True)
    n = pr["n"]
    if ndim >= 2 and rng.random() < 0.65:       # a pair of axes with equal n: in-place rotations keep the field consistent
        i, j = (int(q) for q in rng.choice(ndim, size=2, replace=False))
        n[j] = n[i]
        if max(n) == 1:
            n[i] = n[j] = 2
    cell0 = np.array(pr["cell"])
    p0 = np.array(pr["p1"])
    ncur = list(n)

    def factor():
        if exact:
            if rng.random() < 0.5:
                return float(rng.choice(EXACT_FACTORS))
            fs = [float(2.0 ** q) for q in rng.integers(-2, 4, size=ndim)]
            if all(q == 1.0 for q in fs):
                fs[int(rng.integers(ndim))] = 4.0
            return fs
        sign = lambda: -1.0 if rng.random() < 0.2 else 1.0
        if rng.random() < 0.5:
            return sign() * float(10.0 ** rng.uniform(-2, 2))
        return [sign() * float(10.0 ** rng.uniform(-2, 2)) for _ in range(ndim)]

    def ref():
        if rng.random() < 0.5:
            return None
        if exact:
            return (cell0 * rng.integers(-8, 9, size=ndim)).tolist()
        return (p0 + cell0 * np.array(n) * rng.uniform(-2, 3, size=ndim)).tolist()

    def vector():
        if exact:
            return (cell0 * rng.integers(-9, 10, size=ndim)).tolist()
        return (cell0 * rng.uniform(-10, 10, size=ndim)).tolist()

    def rot(any_pair):
        pairs = [(i, j) for i in range(ndim) for j in range(ndim) if i != j and (any_pair or ncur[i] == ncur[j])]
        if not pairs:
            return None
        i, j = pairs[int(rng.integers(len(pairs)))]
        return {"ax": [i, j], "k": int(rng.choice([1, 2, 3, -1])), "ref": ref()}

    steps = []
    nsteps = int(rng.integers(2, 5))
    while len(steps) < nsteps:
        op = str(rng.choice(["scale", "translate", "rotate90", "rename", "values", "derive"], p=[0.34, 0.14, 0.2, 0.1, 0.1, 0.12]))
        st = {"op": op}
        if op == "scale":
            st.update(via=str(rng.choice(VIAS)), factor=factor(), ref=ref())
        elif op == "translate":
            st.update(via=str(rng.choice(VIAS)), vector=vector())
        elif op == "rotate90":
            via = str(rng.choice(VIAS + ["field-rotate"] * 3)) if (nvdim == 1 and ndim >= 2) else str(rng.choice(VIAS))
            r = rot(via == "field-rotate")
            if r is None:
                continue
            st.update(via=via, **r)
            if via == "field-rotate" and r["k"] % 2 == 1:
                i, j = r["ax"]
                ncur[i], ncur[j] = ncur[j], ncur[i]
        elif op == "rename":
            if rng.random() < 0.6:
                st.update(what="dims", names=[str(d) for d in rng.choice(NAMES, size=ndim, replace=False)])
            else:
                st.update(what="units", names=[str(u) for u in rng.choice(UNITS, size=ndim, replace=False)])
        elif op == "values":
            st.update(how=str(rng.choice(["view", "setter", "update"])), seed=int(rng.integers(1 << 30)))
        else:
            how = str(rng.choice(["scale", "translate", "rotate90", "deepcopy-scale"]))
            if how == "rotate90":
                r = rot(True) if ndim >= 2 else None
                if r is None:
                    continue
                st.update(how=how, **r)
                if r["k"] % 2 == 1:
                    i, j = r["ax"]
                    ncur[i], ncur[j] = ncur[j], ncur[i]
            elif how == "translate":
                st.update(how=how, vector=vector())
            else:
                st.update(how=how, factor=factor(), ref=ref())
        st["obs"] = _obs(rng, full=True)      # all groups in a seeded order: what went stale shows right after the step that caused it
        steps.append(st)
    pr["obs0"] = _obs(rng)
    pr["steps"] = steps
    del pr["shift"]
    return pr


def _fixed_histories():
    """every op / handle at least once in every run, whatever the seed"""
    b3 = {"n": [4, 3, 2], "cell": [2.0, 2.0, 1.0], "p1": [-3.0, 1.0, 0.0], "flip": [0, 1, 0], "dims": ["x", "y", "z"],
          "units": ["m", "m", "m"], "nvdim": 2, "vdims": None, "exact": True, "seed": 11}
    for g0 in (["volume"], ["attrs"], ["mean1", "dir"], ["fubini", "cum", "means"], list(GROUPS)):
        for via in VIAS:
            yield "history", dict(b3, obs0=g0, steps=[
                {"op": "scale", "via": via, "factor": [2.0, 1.0, 4.0], "ref": None, "obs": list(GROUPS)},
                {"op": "scale", "via": via, "factor": 0.5, "ref": [1.0, 0.0, -2.0], "obs": list(reversed(GROUPS))}])
    b2 = {"n": [3, 3], "cell": [2.0, 0.5], "p1": [0.0, 0.0], "flip": [0, 0], "dims": ["a", "b"], "units": ["m", "s"], "nvdim": 1,
          "vdims": None, "exact": False, "seed": 12}
    for via in VIAS + ["field-rotate"]:
        yield "history", dict(b2, obs0=list(GROUPS), steps=[
            {"op": "rotate90", "via": via, "ax": [0, 1], "k": 1, "ref": None, "obs": list(GROUPS)},
            {"op": "translate", "via": "mesh" if via == "field-rotate" else via, "vector": [0.3, -7.0], "obs": list(GROUPS)},
            {"op": "rename", "what": "dims", "names": ["b", "a"], "obs": list(GROUPS)},
            {"op": "rename", "what": "units", "names": ["K", "A"], "obs": list(GROUPS)},
            {"op": "rotate90", "via": via, "ax": [1, 0], "k": 3, "ref": [1.0, 1.0], "obs": list(reversed(GROUPS))}])
    b1 = {"n": [5], "cell": [0.3], "p1": [-0.7], "flip": [1], "dims": ["t"], "units": ["s"], "nvdim": 3, "vdims": ["p", "q", "r"],
          "exact": False, "seed": 13}
    for how in ("view", "setter", "update"):
        yield "history", dict(b1, obs0=list(GROUPS), steps=[
            {"op": "values", "how": how, "seed": 5, "obs": list(GROUPS)},
            {"op": "scale", "via": "region", "factor": -3.0, "ref": None, "obs": list(GROUPS)},
            {"op": "values", "how": how, "seed": 6, "obs": list(reversed(GROUPS))}])
    b4 = {"n": [2, 3, 2, 2], "cell": [1.0, 0.5, 4.0, 0.25], "p1": [0.0, 1.0, -4.0, 0.5], "flip": [0, 0, 1, 1],
          "dims": ["x", "y", "z", "w"], "units": ["m", "m", "m", "s"], "nvdim": 1, "vdims": None, "exact": True, "seed": 14}
    for how, extra in (("scale", {"factor": [2.0, 0.5, 4.0, 1.0], "ref": None}), ("translate", {"vector": [1.0, -2.0, 8.0, 0.75]}),
                       ("rotate90", {"ax": [1, 3], "k": 1, "ref": None}), ("deepcopy-scale", {"factor": 4.0, "ref": [0.0, 0.0, 0.0, 0.0]})):
        yield "history", dict(b4, obs0=list(GROUPS), steps=[
            dict({"op": "derive", "how": how, "obs": list(GROUPS)}, **extra),
            {"op": "scale", "via": "field", "factor": [0.5, 2.0, 2.0, 8.0], "ref": None, "obs": list(GROUPS)}])


def _mesh(pr, shift=None):
    n = np.array(pr["n"])
    cell = np.array(pr["cell"], dtype=float)
    lo = np.array(pr["p1"], dtype=float)
    if shift is not None:
        lo = lo + np.array(shift, dtype=float)
    hi = lo + cell * n
    flip = np.array(pr["flip"], dtype=bool)
    p1 = np.where(flip, hi, lo)
    p2 = np.where(flip, lo, hi)
    region = df.Region(p1=tuple(p1), p2=tuple(p2), dims=tuple(pr["dims"]), units=tuple(pr["units"]))
    mesh = df.Mesh(region=region, n=tuple(int(k) for k in n))
    return mesh, lo, hi, (hi - lo) / n


class Geo:
    """the oracle's picture of a mesh: names, n and the two corners; everything else is derived here"""

    def __init__(self, dims, units, n, lo, hi):
        self.dims = [str(d) for d in dims]
        self.units = [str(u) for u in units]
        self.n = [int(k) for k in n]
        self.lo = np.array(lo, dtype=float)
        self.hi = np.array(hi, dtype=float)
        self.ndim = len(self.n)
        self.edges = self.hi - self.lo
        self.cell = self.edges / np.array(self.n)

    @classmethod
    def live(cls, mesh, F):
        r = mesh.region
        return cls(r.dims, r.units, F.shape[:-1], r.pmin, r.pmax)

    def coord(self):
        return float(np.max(np.maximum(np.abs(self.lo), np.abs(self.hi)) + self.edges))


def _mesh_ok(m, keep, geo):
    """m is the mesh with only the axes `keep` (sorted original indices) left"""
    try:
        return (tuple(m.region.dims) == tuple(geo.dims[i] for i in keep)
                and tuple(m.region.units) == tuple(geo.units[i] for i in keep)
                and np.array_equal(m.n, [geo.n[i] for i in keep])
                and np.array_equal(m.region.pmin, geo.lo[keep]) and np.array_equal(m.region.pmax, geo.hi[keep])
                and ulp_close(m.cell, geo.cell[keep], 4))
    except Exception:
        return False


class Cmp:
    def __init__(self, exact):
        self.exact = exact

    def __call__(self, got, want, scale, g=1.0):
        got = np.asarray(got)
        want = np.asarray(want)
        if got.shape != want.shape:
            return False
        if self.exact:
            return bool(np.array_equal(got, want))
        return ulp_close(got, want, 64 * g, scale)


def _values(rng, exact, shape):
    if exact:
        return rng.integers(-50, 51, size=shape).astype(float)
    return rng.uniform(-1, 1, size=shape) * 10.0 ** rng.uniform(-6, 6)


def _observe(ctx, f, F, geo, cmp, rng, groups, sig=None, where=None):
    """state the clauses of the listed quantity groups, in the listed order, for field f whose values are F on geometry geo"""
    n, ndim, nv, dims = geo.n, geo.ndim, F.shape[-1], geo.dims
    cell, edges = geo.cell, geo.edges
    shape = F.shape
    cax = tuple(range(ndim))
    dV = float(np.prod(cell))
    absF = np.abs(F)
    want_vol = np.sum(F, axis=cax) * dV
    sc_vol = np.sum(absF, axis=cax) * dV
    st = {"okv": False, "vol": None, "di": {}}

    def rq(cond, clause, what, s=None, **detail):
        if where is not None:
            detail["where"] = where
        return ctx.require(cond, clause, what, sig=s if s is not None else sig, **detail)

    def dir_oracle(ax):
        return np.sum(F, axis=ax) * cell[ax], np.sum(absF, axis=ax) * cell[ax]

    for grp in groups:
        if grp == "attrs":
            m = f.mesh
            r, got = raises(Exception, lambda: (np.array(m.cell), m.dV, np.array(m.region.edges), np.array(m.n)))
            ok = (not r and ulp_close(got[0], cell, 4) and isinstance(got[1], float) and ulp_close(got[1], dV, 4)
                  and ulp_close(got[2], edges, 4) and np.array_equal(got[3], n))
            rq(ok, "C06.cell_volume", "mesh.cell / mesh.dV / region.edges / mesh.n do not describe the current mesh",
               got=repr(got), want=[cell, dV, edges, n])

        elif grp == "volume":
            r, vol = raises(Exception, f.integrate)
            okv = not r and isinstance(vol, np.ndarray) and cmp(vol, want_vol, sc_vol)
            rq(okv, "C06.volume", "integrate() != sum * cell volume", got=None if r else vol, want=want_vol, error=repr(vol) if r else None)
            r2, vol2 = raises(Exception, df.integrate, f)
            rq(not r and not r2 and np.array_equal(vol, vol2), "C06.volume", "discretisedfield.integrate(f) differs from f.integrate()")
            st["okv"], st["vol"] = okv, vol

        elif grp == "fubini":
            okf, bad = True, None
            for perm in itertools.permutations(range(ndim)):
                cur = f
                try:
                    for i in perm:
                        cur = cur.integrate(dims[i])
                except Exception as e:
                    okf, bad = False, (list(perm), repr(e))
                    break
                if not (isinstance(cur, np.ndarray) and cmp(cur, want_vol, sc_vol)):
                    okf, bad = False, (list(perm), np.asarray(cur).tolist() if isinstance(cur, np.ndarray) else repr(cur))
                    break
            rq(okf, "C06.fubini", "iterated directional integrals differ from the volume integral", order_and_result=bad, want=want_vol)

        elif grp == "dir":
            for ax, d in enumerate(dims):
                keep = [i for i in range(ndim) if i != ax]
                want, sc = dir_oracle(ax)
                r, di = raises(Exception, f.integrate, d)
                if r:
                    rq(False, "C06.directional", "integrate(direction) raised", s="raises-" + type(di).__name__, error=repr(di), axis=ax)
                    continue
                if ndim == 1:
                    rq(isinstance(di, np.ndarray) and cmp(di, want, sc), "C06.directional", "1-d: integrate(d) != sum*cell", axis=ax)
                    di_arr = di if isinstance(di, np.ndarray) else None
                else:
                    isf = isinstance(di, df.Field)
                    rq(isf and di.nvdim == nv and cmp(di.array, want, sc), "C06.directional", "integrate(d) != sum along d * cell_d", axis=ax, n=n)
                    rq(isf and _mesh_ok(di.mesh, keep, geo), "C06.axis_removed", "integrate(d): wrong result mesh", axis=ax,
                       got=repr(di.mesh) if isf else None)
                    di_arr = di.array if isf else None
                r3, di3 = raises(Exception, df.integrate, f, d)
                rq(not r3 and di_arr is not None and np.array_equal(di3 if ndim == 1 else di3.array, di_arr), "C06.directional",
                   "discretisedfield.integrate(f, d) differs from the method", axis=ax)
                st["di"][ax] = di_arr

        elif grp == "cum":
            for ax, d in enumerate(dims):
                want, sc = dir_oracle(ax)
                r, cu = raises(Exception, f.integrate, d, cumulative=True)
                if r or not isinstance(cu, df.Field):
                    rq(False, "C06.cumulative", "cumulative integral raised / no field", s="raises-" + type(cu).__name__, error=repr(cu))
                    continue
                wantc = np.zeros(shape)
                scc = np.zeros(shape)
                for i in range(n[ax]):
                    sl = [slice(None)] * (ndim + 1)
                    sl[ax] = i
                    pre = [slice(None)] * (ndim + 1)
                    pre[ax] = slice(0, i)
                    wantc[tuple(sl)] = cell[ax] * (np.sum(F[tuple(pre)], axis=ax) + F[tuple(sl)] / 2)
                    scc[tuple(sl)] = cell[ax] * (np.sum(absF[tuple(pre)], axis=ax) + absF[tuple(sl)] / 2)
                rq(cu.nvdim == nv and cmp(cu.array, wantc, scc), "C06.cumulative", "cumulative[i] != cell*(sum of preceding + half own)",
                   axis=ax, n=n)
                rq(_mesh_ok(cu.mesh, list(range(ndim)), geo), "C06.axis_removed", "cumulative integral changed the mesh", axis=ax)
                last = [slice(None)] * (ndim + 1)
                last[ax] = n[ax] - 1
                # against the directional integral observed in this round if there is one, else against its oracle value
                total = st["di"].get(ax)
                if cu.array.shape == shape:
                    rq(cmp(cu.array[tuple(last)] + cell[ax] * F[tuple(last)] / 2, want if total is None else total, sc), "C06.cumulative_last",
                       "last cumulative entry + half last cell != directional integral", axis=ax)
                r4, cu4 = raises(Exception, df.integrate, f, d, True)
                rq(not r4 and np.array_equal(cu4.array, cu.array), "C06.cumulative", "discretisedfield.integrate(f, d, True) differs", axis=ax)
            r, _ = raises(ValueError, f.integrate, cumulative=True)
            rq(r, "C06.cumulative", "cumulative integral without a direction accepted")

        elif grp == "mean1":        # mean over one direction given as a string
            for ax, d in enumerate(dims):
                keep = [i for i in range(ndim) if i != ax]
                want, sc = dir_oracle(ax)
                wantm = want / edges[ax]
                scm = sc / edges[ax]
                di_arr = st["di"].get(ax)
                r, me = raises(Exception, f.mean, d)
                if r:
                    rq(False, "C06.mean", "mean(direction) raised",
                       s=SIG_MEAN1D if (ndim == 1 and isinstance(me, ValueError) and sig in (None, "history-initial")) else "raises-" + type(me).__name__, error=repr(me), ndim=ndim)
                elif ndim == 1:
                    rq(isinstance(me, np.ndarray) and cmp(me, wantm, scm), "C06.mean", "1-d: mean(d) != integrate(d)/edge")
                else:
                    isf = isinstance(me, df.Field)
                    rq(isf and cmp(me.array, wantm, scm) and (di_arr is None or cmp(me.array, di_arr / edges[ax], scm)), "C06.mean",
                       "mean(d) != integrate(d)/edge_d", axis=ax)
                    rq(isf and _mesh_ok(me.mesh, keep, geo), "C06.axis_removed", "mean(d): wrong result mesh", axis=ax)

        elif grp == "means":        # mean over none / subsets
            vol_ext = float(np.prod(edges))
            wantm = want_vol / vol_ext
            scm = sc_vol / vol_ext
            r, m0 = raises(Exception, f.mean)
            rq(not r and isinstance(m0, np.ndarray) and cmp(m0, wantm, scm) and (not st["okv"] or cmp(m0, st["vol"] / vol_ext, scm)),
               "C06.mean", "mean() != integrate()/volume", got=None if r else m0, want=wantm)
            for k in range(1, ndim + 1):
                for sub in itertools.combinations(range(ndim), k):
                    order = [int(i) for i in rng.permutation(sub)]
                    dirs = [dims[i] for i in order]
                    if rng.random() < 0.5:
                        dirs = tuple(dirs)
                    keep = [i for i in range(ndim) if i not in sub]
                    ext = float(np.prod(edges[list(sub)]))
                    want = np.sum(F, axis=tuple(sub)) * float(np.prod(cell[list(sub)])) / ext
                    sc = np.sum(absF, axis=tuple(sub)) * float(np.prod(cell[list(sub)])) / ext
                    r, me = raises(Exception, f.mean, dirs)
                    if r:
                        rq(False, "C06.mean", "mean(directions) raised", s="raises-" + type(me).__name__, error=repr(me), dirs=list(dirs))
                        continue
                    if k == ndim:
                        rq(isinstance(me, np.ndarray) and cmp(me, want, sc), "C06.mean", "mean over all directions (listed) != integral/volume",
                           dirs=list(dirs))
                        continue
                    isf = isinstance(me, df.Field)
                    ok = isf and cmp(me.array, want, sc)
                    if ok:      # the statement's wording: the iterated integral divided by the integrated extent
                        def chain():
                            cur = f
                            for dn in dirs:
                                cur = cur.integrate(dn)
                            return cur.array
                        rc, cur = raises(Exception, chain)
                        ok = not rc and cmp(me.array, cur / ext, sc)
                    rq(ok, "C06.mean", "mean over several directions != iterated integral / extent", dirs=list(dirs), n=n)
                    rq(isf and _mesh_ok(me.mesh, keep, geo), "C06.axis_removed", "mean([..]): wrong result mesh", dirs=list(dirs))
            dup = [dims[0], dims[0]] if ndim == 1 else [dims[0], dims[-1], dims[0]]
            r, e = raises(ValueError, f.mean, dup)
            rq(r, "C06.mean_duplicates", "duplicate directions accepted", dirs=dup)
            r, e = raises(ValueError, f.mean, tuple(dup))
            rq(r, "C06.mean_duplicates", "duplicate directions (tuple) accepted", dirs=dup)
        else:
            raise ValueError("unknown group %r" % (grp,))


def check(kind, pr, ctx):
    if kind == "history":
        return _check_history(pr, ctx)
    n = list(pr["n"])
    ndim, nv, exact = len(n), pr["nvdim"], pr["exact"]
    dims = pr["dims"]
    if int(np.prod(n)) == 1:
        ctx.trivial()
    mesh, lo, hi, cell = _mesh(pr)
    geo = Geo(dims, pr["units"], n, lo, hi)
    edges = hi - lo
    rng = np.random.default_rng(pr["seed"])
    shape = (*n, nv)
    if exact:
        F = rng.integers(-50, 51, size=shape).astype(float)
        G = rng.integers(-50, 51, size=shape).astype(float)
        a, b = float(rng.integers(-4, 5)), float(rng.integers(1, 5))
    else:
        F = rng.uniform(-1, 1, size=shape) * 10.0 ** rng.uniform(-6, 6)
        G = rng.uniform(-1, 1, size=shape) * 10.0 ** rng.uniform(-6, 6)
        a, b = float(rng.uniform(-3, 3)), float(rng.uniform(-3, 3))
    kw = dict(nvdim=nv, vdims=pr["vdims"])
    f = df.Field(mesh, value=F.copy(), **kw)
    g_ = df.Field(mesh, value=G.copy(), **kw)
    H = a * F + b * G
    h = df.Field(mesh, value=H.copy(), **kw)
    cmp = Cmp(exact)
    dV = float(np.prod(cell))
    absF = np.abs(F)

    # ---------------- every quantity once, on the fresh mesh
    _observe(ctx, f, F, geo, cmp, rng, ["volume", "fubini", "dir", "cum", "mean1", "means", "attrs"])

    # ---------------- linearity, per component
    ax = int(rng.integers(ndim))
    d = dims[ax]
    dirs2 = [dims[i] for i in rng.permutation(ndim)[:max(1, ndim - 1)]]
    modes = [("volume", lambda q: q.integrate(), dV * float(np.prod(n))),
             ("directional", lambda q: _arr(q.integrate(d)), cell[ax] * n[ax]),
             ("cumulative", lambda q: q.integrate(d, cumulative=True).array, cell[ax] * n[ax]),
             ("mean", lambda q: q.mean(), 1.0),
             ("mean-dirs", lambda q: _arr(q.mean(dirs2)), 1.0)]
    sc_lin = abs(a) * float(np.max(absF)) + abs(b) * float(np.max(np.abs(G)))
    for name, op, meas in modes:
        r, res = raises(Exception, lambda: (op(f), op(g_), op(h)))
        if r:
            ctx.require(False, "C06.linearity", "raised", sig="raises-%s-%s" % (name, type(res).__name__), error=repr(res), mode=name)
            continue
        ctx.require(np.shape(res[2]) == np.shape(res[0]) and ulp_close(res[2], a * res[0] + b * res[1], 64, sc_lin * meas), "C06.linearity", "not linear in the field", mode=name)
        okc = True
        for c in range(nv):
            fc = df.Field(mesh, nvdim=1, value=np.ascontiguousarray(F[..., c:c + 1]))
            rc, resc = raises(Exception, op, fc)
            okc &= (not rc) and cmp(np.asarray(resc)[..., 0], np.asarray(res[0])[..., c], float(np.max(absF)) * meas)
        ctx.require(okc, "C06.per_component", "component of the result != result of the component", mode=name)

    # ---------------- translation
    mesh_t, lo_t, hi_t, cell_t = _mesh(pr, pr["shift"])
    geo_t = Geo(dims, pr["units"], n, lo_t, hi_t)
    ft = df.Field(mesh_t, value=F.copy(), **kw)
    coord = np.maximum(np.maximum(np.abs(lo), np.abs(hi)), np.maximum(np.abs(lo_t), np.abs(hi_t)))
    gfac = 1.0 if exact else float(1.0 + np.max(coord / edges))
    okt = True
    why = None
    for name, op, meas in modes:
        r, res = raises(Exception, lambda: (op(f), op(ft)))
        if r or not cmp(res[0], res[1], float(np.max(absF)) * meas, gfac):
            okt, why = False, name
    if ndim > 1:
        r, res = raises(Exception, lambda: ft.integrate(d).mesh)
        keep = [i for i in range(ndim) if i != ax]
        if r or not _mesh_ok(res, keep, geo_t):
            okt, why = False, "result mesh not shifted with the field"
    ctx.require(okt, "C06.translation", "result depends on the position of the mesh", mode=why, shift=pr["shift"])


def _arr(x):
    return x if isinstance(x, np.ndarray) else x.array


# ====================================================================== histories
def _near(a, b, scale):
    a = np.asarray(a, dtype=float)
    b = np.asarray(b, dtype=float)
    return a.shape == b.shape and bool(np.all(np.abs(a - b) <= 1e-9 * scale))


class _Hist:
    """the objects a user would hold: the Region handed to the mesh, the mesh, two fields on it; plus the oracle's F and geo"""

    def __init__(self, pr):
        self.exact = pr["exact"]
        self.nv = pr["nvdim"]
        self.kw = dict(nvdim=pr["nvdim"], vdims=pr["vdims"])
        self.mesh, lo, hi, _ = _mesh(pr)
        self.region = self.mesh.region
        self.geo = Geo(pr["dims"], pr["units"], pr["n"], lo, hi)
        self.rng = np.random.default_rng(pr["seed"])
        shape = (*pr["n"], self.nv)
        self.F = _values(self.rng, self.exact, shape)
        self.f = df.Field(self.mesh, value=self.F.copy(), **self.kw)
        self.g = df.Field(self.mesh, value=_values(self.rng, self.exact, shape), **self.kw)
        self.cmp = Cmp(self.exact)

    def handle(self, via):
        return {"mesh": self.mesh, "field": self.f.mesh, "other-field": self.g.mesh, "region": self.region,
                "field-region": self.f.mesh.region}[via]

    def rebuild(self, mesh, F):
        self.mesh, self.region, self.F = mesh, mesh.region, F
        self.f = df.Field(mesh, value=F.copy(), **self.kw)
        self.g = df.Field(mesh, value=F[::-1].copy(), **self.kw)


def _tup(x):
    return tuple(float(v) for v in x) if isinstance(x, (list, tuple)) else float(x)


def _scaled_ok(old, new, factor):
    fac = np.abs(np.array(factor, dtype=float)) * np.ones(old.ndim)
    return _near(new.edges, old.edges * fac, max(old.coord(), new.coord()))


def _rotated_ok(old, new, ax, k):
    want = old.edges.copy()
    if k % 2 == 1:
        want[ax[0]], want[ax[1]] = old.edges[ax[1]], old.edges[ax[0]]
    rest = [i for i in range(old.ndim) if i not in ax]
    return (_near(new.edges, want, max(old.coord(), new.coord()))
            and np.array_equal(new.lo[rest], old.lo[rest]) and np.array_equal(new.hi[rest], old.hi[rest]))


def _step(H, st):
    """apply one step to the live objects, move the oracle's picture along; returns (took_effect, note)"""
    op = st["op"]
    old = H.geo
    if op == "scale":
        ref = None if st["ref"] is None else _tup(st["ref"])
        H.handle(st["via"]).scale(_tup(st["factor"]), reference_point=ref, inplace=True)
        H.geo = Geo.live(H.mesh, H.F)
        return _scaled_ok(old, H.geo, st["factor"]) and H.geo.dims == old.dims and H.geo.units == old.units, "edges x |factor|"
    if op == "translate":
        H.handle(st["via"]).translate(_tup(st["vector"]), inplace=True)
        H.geo = Geo.live(H.mesh, H.F)
        sc = max(old.coord(), H.geo.coord())
        v = np.array(st["vector"], dtype=float)
        return _near(H.geo.lo, old.lo + v, sc) and _near(H.geo.hi, old.hi + v, sc) and H.geo.dims == old.dims, "corners + vector"
    if op == "rotate90":
        i, j = st["ax"]
        k = st["k"]
        ref = None if st["ref"] is None else _tup(st["ref"])
        ok = True
        if st["via"] == "field-rotate":
            H.f.rotate90(old.dims[i], old.dims[j], k=k, reference_point=ref, inplace=True)
            H.F = np.ascontiguousarray(np.rot90(H.F, k=k, axes=(i, j)))
            ok = np.array_equal(H.f.array, H.F)
        else:
            H.handle(st["via"]).rotate90(old.dims[i], old.dims[j], k=k, reference_point=ref, inplace=True)
        H.cmp.exact = False         # cos(k pi/2) is not exactly 0: corners are only near the exact ones from here on
        H.geo = Geo.live(H.mesh, H.F)
        return ok and _rotated_ok(old, H.geo, [i, j], k) and H.geo.dims == old.dims, "edges of the pair swapped for odd k, values rotated"
    if op == "rename":
        if st["what"] == "dims":
            H.region.dims = list(st["names"])
        else:
            H.region.units = list(st["names"])
        H.geo = Geo.live(H.mesh, H.F)
        want = (st["names"], old.units) if st["what"] == "dims" else (old.dims, st["names"])
        return (H.geo.dims, H.geo.units) == (list(want[0]), list(want[1])) and np.array_equal(H.geo.lo, old.lo), "names read back"
    if op == "values":
        new = _values(np.random.default_rng(st["seed"]), H.exact, H.F.shape)
        if st["how"] == "view":
            H.f.array[...] = new
        elif st["how"] == "setter":
            H.f.array = new.copy()
        else:
            H.f.update_field_values(new.copy())
        H.F = new
        return np.array_equal(H.f.array, new), "values read back"
    if op == "derive":
        how = st["how"]
        F = H.F
        if how == "scale":
            m2 = H.mesh.scale(_tup(st["factor"]), reference_point=None if st["ref"] is None else _tup(st["ref"]))
        elif how == "translate":
            m2 = H.mesh.translate(_tup(st["vector"]))
        elif how == "rotate90":
            i, j = st["ax"]
            m2 = H.mesh.rotate90(old.dims[i], old.dims[j], k=st["k"], reference_point=None if st["ref"] is None else _tup(st["ref"]))
            F = np.ascontiguousarray(np.rot90(F, k=st["k"], axes=(i, j)))
            H.cmp.exact = False
        else:
            m2 = copy.deepcopy(H.mesh)
            m2.scale(_tup(st["factor"]), reference_point=None if st["ref"] is None else _tup(st["ref"]), inplace=True)
        H.old = (H.f, H.F, old)
        untouched = Geo.live(H.mesh, H.F)
        ok = (m2 is not H.mesh and m2.region is not H.region and np.array_equal(untouched.lo, old.lo) and np.array_equal(untouched.hi, old.hi)
              and untouched.dims == old.dims and untouched.units == old.units)
        H.rebuild(m2, F)
        H.geo = Geo.live(m2, F)
        if how in ("scale", "deepcopy-scale"):
            ok = ok and _scaled_ok(old, H.geo, st["factor"])
        elif how == "translate":
            ok = ok and _near(H.geo.lo, old.lo + np.array(st["vector"]), max(old.coord(), H.geo.coord()))
        else:
            ok = ok and _rotated_ok(old, H.geo, st["ax"], st["k"])
        return ok, "new mesh transformed, the observed one untouched"
    raise ValueError("unknown op %r" % (op,))


def _check_history(pr, ctx):
    if int(np.prod(pr["n"])) == 1:
        ctx.trivial()
    H = _Hist(pr)
    _observe(ctx, H.f, H.F, H.geo, H.cmp, H.rng, pr["obs0"], sig="history-initial", where="before the first step")
    for k, st in enumerate(pr["steps"]):
        op = st["op"]
        label = "step %d: %s" % (k, {q: v for q, v in st.items() if q != "obs"})
        sig = "history-after-" + op
        H.old = None
        r, res = raises(Exception, _step, H, st)
        if r:
            ctx.require(False, "C06.history", "the step raised", sig="history-%s-raises-%s" % (op, type(res).__name__), error=repr(res), where=label)
            return
        ctx.require(res[0] and np.array_equal(np.array(H.mesh.n), H.F.shape[:-1]), "C06.history", "the step did not take effect: " + res[1],
                    sig="history-%s-no-effect" % op, where=label, now=[H.geo.lo, H.geo.hi, H.geo.dims, H.geo.units])
        nviol = len(ctx.violations)
        if H.old is not None:       # the field on the mesh the new one was derived from: same numbers as before
            f0, F0, geo0 = H.old
            _observe(ctx, f0, F0, geo0, H.cmp, H.rng, GROUPS, sig=sig + "-original", where=label + " (the original mesh)")
        _observe(ctx, H.f, H.F, H.geo, H.cmp, H.rng, st["obs"], sig=sig, where=label)
        if any(str(v["sig"]).startswith("history-after") for v in ctx.violations[nviol:]):
            return      # whatever went stale stays stale: later steps would only repeat it under a misleading op name
