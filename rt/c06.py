"""C06 bounded run-time tier: Field.integrate / Field.mean / discretisedfield.integrate on the real code.

Oracle: plain numpy sums of the value array times cell lengths computed here from the corners
(cell_d = (pmax_d - pmin_d) / n_d).  Exact variant: integer values, power-of-two cells, corners on
integer multiples of the cell -> every number is exactly representable and the comparison is `==`.
General variant: 64 ulp of (sum of |values| entering the sum) x (measure)."""
import itertools
import numpy as np
import discretisedfield as df
from .common import raises, ulp_close

PROPERTY = "C06"
CLAUSES = {
    "C06.volume": "integrate() == (sum of the cell values over all cell axes, per component) * prod(cell); a numpy array of shape (nvdim,); discretisedfield.integrate(f) is the same",
    "C06.fubini": "integrating direction by direction, in every order of the directions, ends in the same numbers as integrate() (64 ulp of sum|v|*dV, == in the exact variant)",
    "C06.directional": "integrate(d).array == sum along axis d * cell_d (plain array of shape (nvdim,) on a 1-d mesh)",
    "C06.axis_removed": "the result of integrate(d) / mean(d) / mean([..]) lives on the mesh with exactly those axes removed: remaining dims, units, n, pmin, pmax, cell in the original order; cumulative integrals keep the full mesh",
    "C06.cumulative": "integrate(d, cumulative=True)[i] == cell_d * (sum_{k<i} v_k + v_i / 2) for every cell, on the unchanged mesh; cumulative without a direction is refused (ValueError)",
    "C06.cumulative_last": "last cumulative entry + cell_d * (last cell value) / 2 == integrate(d)",
    "C06.mean": "mean() == integrate()/prod(edges); mean(d) == integrate(d)/edge_d; mean([d1..dk]) (list or tuple, any order, any non-empty subset) == iterated integral / prod of the integrated edges; all directions -> plain array",
    "C06.mean_duplicates": "a direction list with a repeated direction is rejected (ValueError)",
    "C06.linearity": "integrate / cumulative / mean of a*f+b*g == a*(..f) + b*(..g) within 64 ulp of the operand scale",
    "C06.per_component": "every component of the result equals the result for the scalar field holding that component alone",
    "C06.translation": "the same values on a translated mesh give the same numbers (== when the shift is a whole number of power-of-two cells; else within 64 ulp x (1 + |coordinate|/edge), the cell of the shifted mesh being edges/n of rounded corners) on the accordingly shifted result mesh",
}
RULE = ("seeded meshes with 1-4 dims (n <= 6 per axis, anisotropic cells, renamed dims, distinct units), 1-4 components, exact and "
        "general variant; per case: every direction, every order of directions (<= 24), every non-empty subset of directions for the "
        "mean in a seeded order; non-trivial = more than one cell; distinct by (kind, params)")
ASSUMPTIONS = ["bounded: <= 6 cells per axis, <= 4 dims, <= 4 components, seeded values and geometry",
               "trusted: numpy.sum on the value array, Field construction from arrays"]

NAMES = ["a", "b", "c", "e", "g", "h", "k", "p", "q", "r", "s", "u", "w", "x", "y", "z"]
UNITS = ["m", "s", "kg", "A", "K", "rad"]
VNAMES = ["p", "q", "r", "s", "u", "w", "ma", "mb", "e1", "e2"]
SIG_MEAN1D = "mean-str-direction-on-1d-mesh-raises"


def cases(ctx):
    rng = ctx.rng
    reps = 6 if ctx.tier == "quick" else 30
    for ndim in (1, 2, 3, 4):
        for nvdim in (1, 2, 3, 4):
            for exact in (True, False):
                for _ in range(reps):
                    hi = {1: 8, 2: 6, 3: 5, 4: 4}[ndim]
                    n = rng.integers(1, hi + 1, size=ndim).tolist()
                    if max(n) == 1:
                        n[int(rng.integers(ndim))] = int(rng.integers(2, hi + 1))
                    dims = [str(d) for d in rng.choice(NAMES, size=ndim, replace=False)]
                    units = [str(u) for u in rng.choice(UNITS, size=ndim, replace=False)]
                    if exact:
                        cell = (2.0 ** rng.integers(-4, 5, size=ndim)).tolist()
                        p1 = (np.array(cell) * rng.integers(-6, 7, size=ndim)).tolist()
                        shift = (np.array(cell) * rng.integers(-9, 10, size=ndim)).tolist()
                    else:
                        cell = (10.0 ** rng.uniform(-9, 2, size=ndim)).tolist()
                        p1 = (np.array(cell) * rng.uniform(-10, 10, size=ndim)).tolist()
                        shift = (np.array(cell) * rng.uniform(-10, 10, size=ndim)).tolist()
                    vdims = [str(v) for v in rng.choice(VNAMES, size=nvdim, replace=False)] if rng.random() < 0.6 else None
                    yield "integ", {"n": n, "cell": cell, "p1": p1, "flip": rng.integers(0, 2, size=ndim).tolist(), "dims": dims,
                                    "units": units, "nvdim": nvdim, "vdims": vdims, "exact": exact, "shift": shift,
                                    "seed": int(rng.integers(1 << 30))}
    yield "integ", {"n": [1], "cell": [0.5], "p1": [0.0], "flip": [0], "dims": ["x"], "units": ["m"], "nvdim": 1, "vdims": None,
                    "exact": True, "shift": [1.0], "seed": 1}
    yield "integ", {"n": [2, 1, 3], "cell": [1.0, 4.0, 0.25], "p1": [0.0, 0.0, 0.0], "flip": [0, 1, 0], "dims": ["x", "y", "z"],
                    "units": ["m", "m", "m"], "nvdim": 3, "vdims": None, "exact": True, "shift": [0.0, 8.0, -1.0], "seed": 2}


def _mesh(pr, shift=None):
    n = np.array(pr["n"])
    cell = np.array(pr["cell"], dtype=float)
    lo = np.array(pr["p1"], dtype=float)
    if shift is not None:
        lo = lo + np.array(shift, dtype=float)
    hi = lo + cell * n
    flip = np.array(pr["flip"], dtype=bool)
    p1 = np.where(flip, hi, lo)
    p2 = np.where(flip, lo, hi)
    region = df.Region(p1=tuple(p1), p2=tuple(p2), dims=tuple(pr["dims"]), units=tuple(pr["units"]))
    mesh = df.Mesh(region=region, n=tuple(int(k) for k in n))
    return mesh, lo, hi, (hi - lo) / n


def _mesh_ok(m, keep, pr, lo, hi, n):
    """m is the mesh with only the axes `keep` (sorted original indices) left"""
    try:
        return (tuple(m.region.dims) == tuple(pr["dims"][i] for i in keep)
                and tuple(m.region.units) == tuple(pr["units"][i] for i in keep)
                and np.array_equal(m.n, [n[i] for i in keep])
                and np.array_equal(m.region.pmin, lo[keep]) and np.array_equal(m.region.pmax, hi[keep])
                and ulp_close(m.cell, ((hi - lo) / np.array(n))[keep], 4))
    except Exception:
        return False


class Cmp:
    def __init__(self, exact):
        self.exact = exact

    def __call__(self, got, want, scale, g=1.0):
        got = np.asarray(got)
        want = np.asarray(want)
        if got.shape != want.shape:
            return False
        if self.exact:
            return bool(np.array_equal(got, want))
        return ulp_close(got, want, 64 * g, scale)


def check(kind, pr, ctx):
    n = list(pr["n"])
    ndim, nv, exact = len(n), pr["nvdim"], pr["exact"]
    dims = pr["dims"]
    if int(np.prod(n)) == 1:
        ctx.trivial()
    mesh, lo, hi, cell = _mesh(pr)
    edges = hi - lo
    rng = np.random.default_rng(pr["seed"])
    shape = (*n, nv)
    if exact:
        F = rng.integers(-50, 51, size=shape).astype(float)
        G = rng.integers(-50, 51, size=shape).astype(float)
        a, b = float(rng.integers(-4, 5)), float(rng.integers(1, 5))
    else:
        F = rng.uniform(-1, 1, size=shape) * 10.0 ** rng.uniform(-6, 6)
        G = rng.uniform(-1, 1, size=shape) * 10.0 ** rng.uniform(-6, 6)
        a, b = float(rng.uniform(-3, 3)), float(rng.uniform(-3, 3))
    kw = dict(nvdim=nv, vdims=pr["vdims"])
    f = df.Field(mesh, value=F.copy(), **kw)
    g_ = df.Field(mesh, value=G.copy(), **kw)
    H = a * F + b * G
    h = df.Field(mesh, value=H.copy(), **kw)
    cmp = Cmp(exact)
    cax = tuple(range(ndim))
    dV = float(np.prod(cell))
    absF = np.abs(F)

    # ---------------- volume integral
    want_vol = np.sum(F, axis=cax) * dV
    sc_vol = np.sum(absF, axis=cax) * dV
    r, vol = raises(Exception, f.integrate)
    okv = not r and isinstance(vol, np.ndarray) and cmp(vol, want_vol, sc_vol)
    ctx.require(okv, "C06.volume", "integrate() != sum * cell volume", got=None if r else vol, want=want_vol, error=repr(vol) if r else None)
    r2, vol2 = raises(Exception, df.integrate, f)
    ctx.require(not r and not r2 and np.array_equal(vol, vol2), "C06.volume", "discretisedfield.integrate(f) differs from f.integrate()")

    # ---------------- direction by direction, every order
    orders = list(itertools.permutations(range(ndim)))
    okf, bad = True, None
    for perm in orders:
        cur = f
        try:
            for i in perm:
                cur = cur.integrate(dims[i])
        except Exception as e:
            okf, bad = False, (list(perm), repr(e))
            break
        if not (isinstance(cur, np.ndarray) and cmp(cur, want_vol, sc_vol)):
            okf, bad = False, (list(perm), np.asarray(cur).tolist() if isinstance(cur, np.ndarray) else repr(cur))
            break
    ctx.require(okf, "C06.fubini", "iterated directional integrals differ from the volume integral", order_and_result=bad, want=want_vol)

    # ---------------- directional, cumulative, single-direction mean
    for ax, d in enumerate(dims):
        keep = [i for i in range(ndim) if i != ax]
        want = np.sum(F, axis=ax) * cell[ax]
        sc = np.sum(absF, axis=ax) * cell[ax]
        r, di = raises(Exception, f.integrate, d)
        if r:
            ctx.require(False, "C06.directional", "integrate(direction) raised", sig="raises-" + type(di).__name__, error=repr(di), axis=ax)
            continue
        if ndim == 1:
            ctx.require(isinstance(di, np.ndarray) and cmp(di, want, sc), "C06.directional", "1-d: integrate(d) != sum*cell", axis=ax)
            di_arr = di if isinstance(di, np.ndarray) else None
        else:
            isf = isinstance(di, df.Field)
            ctx.require(isf and di.nvdim == nv and cmp(di.array, want, sc), "C06.directional", "integrate(d) != sum along d * cell_d", axis=ax,
                        n=n)
            ctx.require(isf and _mesh_ok(di.mesh, keep, pr, lo, hi, n), "C06.axis_removed", "integrate(d): wrong result mesh", axis=ax,
                        got=repr(di.mesh) if isf else None)
            di_arr = di.array if isf else None
        r3, di3 = raises(Exception, df.integrate, f, d)
        ctx.require(not r3 and di_arr is not None and np.array_equal(di3 if ndim == 1 else di3.array, di_arr), "C06.directional",
                    "discretisedfield.integrate(f, d) differs from the method", axis=ax)
        # cumulative
        r, cu = raises(Exception, f.integrate, d, cumulative=True)
        if r or not isinstance(cu, df.Field):
            ctx.require(False, "C06.cumulative", "cumulative integral raised / no field", sig="raises-" + type(cu).__name__, error=repr(cu))
        else:
            wantc = np.zeros(shape)
            scc = np.zeros(shape)
            for i in range(n[ax]):
                sl = [slice(None)] * (ndim + 1)
                sl[ax] = i
                pre = [slice(None)] * (ndim + 1)
                pre[ax] = slice(0, i)
                wantc[tuple(sl)] = cell[ax] * (np.sum(F[tuple(pre)], axis=ax) + F[tuple(sl)] / 2)
                scc[tuple(sl)] = cell[ax] * (np.sum(absF[tuple(pre)], axis=ax) + absF[tuple(sl)] / 2)
            ctx.require(cu.nvdim == nv and cmp(cu.array, wantc, scc), "C06.cumulative", "cumulative[i] != cell*(sum of preceding + half own)",
                        axis=ax, n=n)
            ctx.require(_mesh_ok(cu.mesh, list(range(ndim)), pr, lo, hi, n), "C06.axis_removed", "cumulative integral changed the mesh", axis=ax)
            last = [slice(None)] * (ndim + 1)
            last[ax] = n[ax] - 1
            if di_arr is not None:
                ctx.require(cmp(cu.array[tuple(last)] + cell[ax] * F[tuple(last)] / 2, di_arr, sc), "C06.cumulative_last",
                            "last cumulative entry + half last cell != directional integral", axis=ax)
            r4, cu4 = raises(Exception, df.integrate, f, d, True)
            ctx.require(not r4 and np.array_equal(cu4.array, cu.array), "C06.cumulative", "discretisedfield.integrate(f, d, True) differs", axis=ax)
        # mean over one direction given as a string
        wantm = want / edges[ax]
        scm = sc / edges[ax]
        r, me = raises(Exception, f.mean, d)
        if r:
            ctx.require(False, "C06.mean", "mean(direction) raised",
                        sig=SIG_MEAN1D if (ndim == 1 and isinstance(me, ValueError)) else "raises-" + type(me).__name__, error=repr(me), ndim=ndim)
        elif ndim == 1:
            ctx.require(isinstance(me, np.ndarray) and cmp(me, wantm, scm), "C06.mean", "1-d: mean(d) != integrate(d)/edge")
        else:
            isf = isinstance(me, df.Field)
            ctx.require(isf and cmp(me.array, wantm, scm) and (di_arr is None or cmp(me.array, di_arr / edges[ax], scm)), "C06.mean",
                        "mean(d) != integrate(d)/edge_d", axis=ax)
            ctx.require(isf and _mesh_ok(me.mesh, keep, pr, lo, hi, n), "C06.axis_removed", "mean(d): wrong result mesh", axis=ax)
    r, _ = raises(ValueError, f.integrate, cumulative=True)
    ctx.require(r, "C06.cumulative", "cumulative integral without a direction accepted")

    # ---------------- mean over none / subsets
    wantm = want_vol / float(np.prod(edges))
    scm = sc_vol / float(np.prod(edges))
    r, m0 = raises(Exception, f.mean)
    ctx.require(not r and isinstance(m0, np.ndarray) and cmp(m0, wantm, scm) and (not okv or cmp(m0, vol / float(np.prod(edges)), scm)),
                "C06.mean", "mean() != integrate()/volume", got=None if r else m0, want=wantm)
    for k in range(1, ndim + 1):
        for sub in itertools.combinations(range(ndim), k):
            order = [int(i) for i in rng.permutation(sub)]
            dirs = [dims[i] for i in order]
            if rng.random() < 0.5:
                dirs = tuple(dirs)
            keep = [i for i in range(ndim) if i not in sub]
            ext = float(np.prod(edges[list(sub)]))
            want = np.sum(F, axis=tuple(sub)) * float(np.prod(cell[list(sub)])) / ext
            sc = np.sum(absF, axis=tuple(sub)) * float(np.prod(cell[list(sub)])) / ext
            r, me = raises(Exception, f.mean, dirs)
            if r:
                ctx.require(False, "C06.mean", "mean(directions) raised", sig="raises-" + type(me).__name__, error=repr(me), dirs=list(dirs))
                continue
            if k == ndim:
                ctx.require(isinstance(me, np.ndarray) and cmp(me, want, sc), "C06.mean", "mean over all directions (listed) != integral/volume",
                            dirs=list(dirs))
                continue
            isf = isinstance(me, df.Field)
            ok = isf and cmp(me.array, want, sc)
            if ok:      # the statement's wording: the iterated integral divided by the integrated extent
                def chain():
                    cur = f
                    for dn in dirs:
                        cur = cur.integrate(dn)
                    return cur.array
                rc, cur = raises(Exception, chain)
                ok = not rc and cmp(me.array, cur / ext, sc)
            ctx.require(ok, "C06.mean", "mean over several directions != iterated integral / extent", dirs=list(dirs), n=n)
            ctx.require(isf and _mesh_ok(me.mesh, keep, pr, lo, hi, n), "C06.axis_removed", "mean([..]): wrong result mesh", dirs=list(dirs))
    dup = [dims[0], dims[0]] if ndim == 1 else [dims[0], dims[-1], dims[0]]
    r, e = raises(ValueError, f.mean, dup)
    ctx.require(r, "C06.mean_duplicates", "duplicate directions accepted", dirs=dup)
    r, e = raises(ValueError, f.mean, tuple(dup))
    ctx.require(r, "C06.mean_duplicates", "duplicate directions (tuple) accepted", dirs=dup)

    # ---------------- linearity, per component
    ax = int(rng.integers(ndim))
    d = dims[ax]
    dirs2 = [dims[i] for i in rng.permutation(ndim)[:max(1, ndim - 1)]]
    modes = [("volume", lambda q: q.integrate(), dV * float(np.prod(n))),
             ("directional", lambda q: _arr(q.integrate(d)), cell[ax] * n[ax]),
             ("cumulative", lambda q: q.integrate(d, cumulative=True).array, cell[ax] * n[ax]),
             ("mean", lambda q: q.mean(), 1.0),
             ("mean-dirs", lambda q: _arr(q.mean(dirs2)), 1.0)]
    sc_lin = abs(a) * float(np.max(absF)) + abs(b) * float(np.max(np.abs(G)))
    for name, op, meas in modes:
        r, res = raises(Exception, lambda: (op(f), op(g_), op(h)))
        if r:
            ctx.require(False, "C06.linearity", "raised", sig="raises-%s-%s" % (name, type(res).__name__), error=repr(res), mode=name)
            continue
        ctx.require(np.shape(res[2]) == np.shape(res[0]) and ulp_close(res[2], a * res[0] + b * res[1], 64, sc_lin * meas), "C06.linearity", "not linear in the field", mode=name)
        okc = True
        for c in range(nv):
            fc = df.Field(mesh, nvdim=1, value=np.ascontiguousarray(F[..., c:c + 1]))
            rc, resc = raises(Exception, op, fc)
            okc &= (not rc) and cmp(np.asarray(resc)[..., 0], np.asarray(res[0])[..., c], float(np.max(absF)) * meas)
        ctx.require(okc, "C06.per_component", "component of the result != result of the component", mode=name)

    # ---------------- translation
    mesh_t, lo_t, hi_t, cell_t = _mesh(pr, pr["shift"])
    ft = df.Field(mesh_t, value=F.copy(), **kw)
    coord = np.maximum(np.maximum(np.abs(lo), np.abs(hi)), np.maximum(np.abs(lo_t), np.abs(hi_t)))
    gfac = 1.0 if exact else float(1.0 + np.max(coord / edges))
    okt = True
    why = None
    for name, op, meas in modes:
        r, res = raises(Exception, lambda: (op(f), op(ft)))
        if r or not cmp(res[0], res[1], float(np.max(absF)) * meas, gfac):
            okt, why = False, name
    if ndim > 1:
        r, res = raises(Exception, lambda: ft.integrate(d).mesh)
        keep = [i for i in range(ndim) if i != ax]
        if r or not _mesh_ok(res, keep, pr, lo_t, hi_t, n):
            okt, why = False, "result mesh not shifted with the field"
    ctx.require(okt, "C06.translation", "result depends on the position of the mesh", mode=why, shift=pr["shift"])


def _arr(x):
    return x if isinstance(x, np.ndarray) else x.array
