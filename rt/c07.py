"""C07 bounded run-time tier: sub-selection, padding and resampling keep every value at its physical position.

Every case builds a field whose value is a unique function of the global cell index (so a result cell can be
traced back to the source cell it was taken from), a seeded validity mask and (optionally) cell-aligned
subregions, runs the real selection / extraction / padding / resampling code and compares with an own
numpy lookup (containing cell / nearest cell of the physical cell-centre of the result in the source lattice).
The geometry is visited in both number types the library keeps for corner points: doubles (non-representable corners) and
integers (Python int / numpy int64 / int32 corners, regions below, across and above zero, integral and fractional cell sizes,
cells smaller than 1), always combined with fractional requested coordinates; coordinates are handed over as Python and NumPy
scalars of float and integer type and ranges as tuple / list / array; the field data is float64, float32, int64, int32,
complex128 or complex64.  The oracle always works on the exact double values of the same numbers.
The source is also visited AFTER A HISTORY: read-only uses that look at derived geometry (cells / vertices / to_xarray / coordinate_field / an earlier
resample, sel, pad, [] / point lookups), then changes in place - the mesh or the very Region object it holds translated / scaled / quarter-turned
(also through another field holding the same Region), dims / units renamed, subregions replaced, array / validity replaced or overwritten,
Field.rotate90 in place - in several orders, or the source is itself the library's result of a selection / padding / resampling (then read and moved).
"The source's value at that same point" always means the source as it is at the time of the call: current corner points, current data; the effect of
every history step is computed here from its documented meaning and the case is only used when the source really is in that state.
EXACT TIES: a further block works on exactly representable (dyadic / integer) geometry, where a requested coordinate, a box corner or the centre of a
resampled cell lies EXACTLY on a face between two source cells (or on the region boundary) and every number the library derives from the corners is exact
in floating point.  There nothing may be attributed "to either neighbour": the statement's "cell containing the point" is the half-open cell
(lower face inclusive, the last cell includes the upper region face - the convention of the library's own point2index / field(point)), and the oracle is
floor((p - pmin) / cell), clipped at the upper boundary, in exact rational arithmetic (fractions.Fraction of the corner doubles).
Bounded: meshes of 1-4 dimensions with at most 8 cells per axis, seeded geometry."""
import itertools
from fractions import Fraction as Fr
import numpy as np
import discretisedfield as df
from .common import raises, ulp_close

PROPERTY = "C07"
CLAUSES = {
    "C07.sel_plane": "plane selection (coordinate given as any real scalar - Python/NumPy float or integer -, or none = region centre; double or integer corner points) "
                     "succeeds inside the region and takes value and validity "
                     "from the cell containing the coordinate (either neighbour when the coordinate is within 8 ulp of a face); a 1-d field returns the cell value",
    "C07.sel_plane_mesh": "plane selection removes exactly the chosen axis: dims/units/n/corners of the other axes are kept, Mesh.sel and Field.sel agree",
    "C07.sel_range": "range selection (either order of the bounds, tuple / list / array of any real scalars, bounds on cell faces / subregion faces included; "
                     "double or integer corner points) succeeds inside the region and "
                     "keeps exactly the cells from the one containing the lower to the one containing the upper bound (either neighbour within 8 ulp of a face), values and validity unchanged",
    "C07.sel_range_mesh": "the range-selected mesh is cell-aligned with the source (same cell to 16 ulp of the coordinate scale, corners on the source lattice), other axes untouched, Mesh.sel == Field.sel mesh",
    "C07.getitem_named": "field['name'] has exactly the subregion as region, the parent's cell, and the source's values/validity of the subregion's cells",
    "C07.getitem_region": "field[region] / mesh[region] return the smallest block of whole cells containing the region (aligned boxes: exactly the box; arbitrary boxes: floor / ceil-1), values/validity of those cells",
    "C07.region2slices": "region2slices of a cell-aligned region gives exactly the index box of its cells; array[slices] equals the extracted field",
    "C07.pad_mesh": "padding adds exactly the requested number of cells per side: n+lo+hi, pmin-lo*cell, pmax+hi*cell (16 ulp), cell unchanged, untouched axes identical",
    "C07.pad_values": "padded field: source cells keep value and validity at their physical position; cells outside follow the padding mode "
                      "(constant, edge, wrap, symmetric, reflect, maximum, minimum; own per-axis reimplementation), for data and validity",
    "C07.resample": "resampling keeps the region (==, the source's current one) and returns the requested n; every new cell takes value and validity of the nearest "
                    "source cell of the source's current geometry and data (either neighbour at an exact tie), both from the same cell",
    "C07.same_point": "own lookup: every cell centre of the result (computed from the result's region and n) lies at a cell centre of the source lattice "
                      "(fraction 1/2 to rounding) and the result holds the source's value and validity of the cell containing that point",
    "C07.metadata": "results keep nvdim, vdims, unit and vdim_mapping; dims/units follow the kept axes",
    "C07.resample_point": "exact (dyadic / integer) geometry, no tolerance: every cell of field.resample(n') - all n' <= 8 per axis whose lattice is exact, "
                          "also Field(mesh over an exact sub-box of the region, value=field), the same lookup onto part of the region - holds value AND validity of the "
                          "source cell containing its centre p: index floor((p - pmin)/cell) in exact rational arithmetic (half-open cells: a centre exactly on a "
                          "face belongs to the upper cell; the last cell includes the upper region face)",
    "C07.point_convention": "exact geometry: the library's own point lookup (Mesh.point2index, field(point)) puts a point exactly on a cell face into the upper cell, "
                            "pmin into the first and pmax into the last cell, and agrees with the exact rational floor on faces, centres and resampled-cell centres "
                            "(the convention the statement's 'cell containing the point' refers to)",
    "C07.sel_exact": "exact geometry, no tolerance: plane selection at a coordinate exactly on a face takes the upper cell (pmax: the last cell), a range selection with "
                     "bounds exactly on faces / centres / quarter points / the region boundary keeps exactly the cells floor(lo) .. min(floor(hi), n-1) in either order "
                     "of the bounds; values and validity are those cells', the selected region is exactly [pmin + klo*cell, pmin + (khi+1)*cell], other axes "
                     "untouched, Mesh.sel agrees, subregions do not make it raise",
    "C07.getitem_exact": "exact geometry, no tolerance: field[region] / mesh[region] with every bound independently exactly on a cell face, on the region boundary or "
                         "at a quarter / half point of a cell return exactly the cells floor(lower) .. ceil(upper)-1 per axis (a bound on a face adds no cell layer), "
                         "region exactly those cells' corners, values and validity theirs; region2slices of a box with all bounds on faces is exactly its index box "
                         "and array[slices] is the extracted field",
    "C07.reject_outside": "coordinates / ranges / regions outside the mesh region, unknown axes and unknown subregion names are rejected (ValueError / KeyError)",
}
RULE = ("seeded fields on 1-4-d anisotropic meshes (scales 1e-9, 1e-3, 1 with subregions; 10^U(-12,6) without), non-default dims/units, "
        "value = 1 + nvdim*global_index + component, seeded validity; per field and axis: plane selection at none / every centre / every vertex / "
        "pmin / pmax / random; all index ranges (klo<=khi) with bounds at centres, faces and random points in both orders; every subregion by name; "
        "aligned boxes (all in 1-d, sampled otherwise) and arbitrary boxes; pad widths from {0,1,2,n,n+1} per side x 7 modes; all target resolutions <= 8 "
        "(sampled in 3-4 d). Second block: the same five kinds on meshes with INTEGER corner points (Python int, int64 / int32 arrays, integer-valued doubles as "
        "control; region below / across / above zero / mixed per axis; per axis integral cell 1..3 or edge/n fractional from 1/n to ~3; scalar corners in 1-d; "
        "integer subregion corners where integral), coordinates passed as float / np.float64 / np.float32 / int / np.int64 and ranges as tuple / list / array, "
        "aligned boxes with integer corners. Third block: float32 / int64 / int32 / complex128 / complex64 field data on double and integer geometry. "
        "Fourth block (histories): per dimension and per kind of in-place change (Mesh.translate / scale / rotate90, the same on the Region object and its "
        "subregion objects, translate through a resampled field sharing the Region, Field.rotate90, renaming dims / units, replacing subregions, replacing data "
        "by setter / update_field_values / in-place write, source = result of sel / pad / resample) a seeded history read -> change [-> read -> change ...] in five "
        "orders, reads = all of cells, vertices, to_xarray, coordinate_field, resample, sel, pad, [], point lookup (or one of them), vectors / factors / reference "
        "points as tuple / list / array / ints, double and integer geometry, all field dtypes; then each of sel plane, sel range, [name] / [region] / "
        "region2slices, pad, resample (also resample a second time) with the same clauses and oracles on the source's CURRENT geometry and data. "
        "Fifth block (exact ties): per dimension 1-4 and per sign class (region below zero with pmax == 0 or a face / centre distance from it, across zero with "
        "zero on a face / at a centre / at a quarter point / at pmin, above zero, offsets of 2^16..2^30 cells of either sign) seeded dyadic geometry: extent = "
        "M * m * 2^k (M from 840, 24, 12, 2n, lcm(n, t); m odd; k in -6..4), integer corners handed over as int / int64 where integral, either corner order; "
        "values unique per cell, checkerboard-like validity (differs across nearly every face), all field dtypes; resample to ALL exact target resolutions "
        "<= 8 per axis (1-d; sampled products, targets with centres on faces preferred, in 2-4 d: n -> n/2, n/4, 3n/2, 4 -> 6, 6 -> 4 ... whatever is exact), "
        "sub-box meshes with corners on the half-cell lattice; plane selection at every face / centre / quarter point and pmin / pmax, range selection for all "
        "pairs of faces and sampled face / centre / quarter pairs (float, np.float64, int, np.int64 scalars; tuple / list / array), with and without subregions; "
        "boxes on the quarter-cell lattice (1-d: all with a bound on a face, else sampled with faces and the region boundary preferred). "
        "non-trivial = field with more than one cell; distinct by (kind, params)")
ASSUMPTIONS = [
    "bounded: 1-4 dimensions, <= 8 cells per axis, seeded geometry; subregion layouts of up to 3 index boxes",
    "pad modes with a positional or order-statistic definition only (constant, edge, wrap, symmetric, reflect, maximum, minimum); "
    "numpy's mean/median/linear_ramp/empty modes are not given a meaning for the Boolean validity by the property and are not checked",
    "region2slices is only specified (docstring: 'cells contained in the region') for cell-aligned regions; arbitrary regions are not checked",
    "a coordinate within 8 ulp (of the coordinate scale) of a cell face may be attributed to either neighbouring cell",
    "integer corner points are small (|p| <= ~40) so that they and all derived coordinates are exact doubles for the oracle; "
    "a coordinate handed over as np.float32 means the double value of that float32 number (only used when that value lies in the region)",
    "histories: the effect of an in-place translate / scale / rotate90 / rename / subregion or data replacement on the source is taken from its documented "
    "meaning (p+v; ref-(ref-p)*factor; k quarter turns about the reference, cell counts and units of the two axes exchanged for odd k, data moving with the cells "
    "for Field.rotate90) and must be confirmed by the source's stored corner points (64 ulp of the operand scale), n, units, dims, subregion corners and data; "
    "then the stored doubles are the current geometry.  A history that cannot be established (the transformation itself misbehaves: C12/C13) makes the case "
    "trivial, nothing is claimed.  Mesh.rotate90 in place under a field only with an even number of turns or equal cell counts on the two axes (else field "
    "data and mesh no longer fit); with subregions only moves that do not cancel the coordinate scale (region and subregions are rounded separately); "
    "renaming renames region and subregion objects alike; chained sources (sel / pad / resample results) and the shared-Region and Field.rotate90 histories "
    "on meshes without subregions, padded / resampled sources get distinct values written in place before use",
    "exact ties: only geometry whose corner points, half / quarter cells and all lattice points (source, targets, sub-boxes) are doubles with a common binary "
    "quantum and less than 2^46 quanta from zero, so that every sum / difference / integer multiple the library forms is exact and floor of a correctly "
    "rounded quotient is the exact floor; target resolutions or quarter lattices that are not exact for a geometry are left to the tolerant clauses above; "
    "np.float32 coordinates are not used in this block",
    "values are compared by numerical equality (==) across dtypes: the property does not say that the result keeps the data type of the source "
    "(the library returns float64 from sel / [] / pad of int and float32 fields); complex 'maximum'/'minimum' padding uses numpy's lexicographic order",
]

MODES = ["constant", "edge", "wrap", "symmetric", "reflect", "maximum", "minimum"]
DIMS = ["u", "w", "q", "t"]
UNITS = ["nm", "s", "T", "kg"]


GEO_INT = {"int": None, "npint64": np.int64, "npint32": np.int32}        # corner points kept by the library as integer arrays
FDTYPES = {"float64": np.float64, "float32": np.float32, "int64": np.int64, "int32": np.int32, "complex128": np.complex128, "complex64": np.complex64}
CTYPES = ["float", "np64", "np32", "int", "npint64"]                      # scalar type in which a coordinate is handed over
CONTAINERS = ["tuple", "list", "array"]
TRUNC_F32 = "np.float32-coordinate-truncated-on-integer-cornered-mesh"


# ------------------------------------------------------------------------------------------ helpers
def as_ctype(x, ctype, ok=lambda v: True):
    """(the coordinate as handed to the library in the scalar type under test, its exact value as a double)"""
    x = float(x)
    if ctype in ("int", "npint64") and x.is_integer():
        return (int(x) if ctype == "int" else np.int64(int(x))), x
    if ctype in ("np64", "npint64"):
        return np.float64(x), x
    if ctype == "np32":
        x32 = np.float32(x)
        if np.isfinite(x32) and ok(float(x32)):
            return x32, float(x32)
    return x, x


def int_geometry(rng, ndim, nmax, sign):
    """integer corner points: region below / across / above zero, per axis an integral cell (1..3) or an arbitrary integer edge
    (cell = edge/n from 1/n to ~3, mostly fractional); either corner order"""
    n = rng.integers(2 if ndim == 1 else 1, nmax + 1, size=ndim)
    if ndim > 1 and len(set(n.tolist())) == 1:
        n[0] = n[0] % nmax + 1
    edge, pmin = [], []
    for j, k in enumerate(int(v) for v in n):
        how = int(rng.integers(3))
        if how == 0:
            e = k * int(rng.integers(1, 4))
        elif how == 1:
            e = int(rng.integers(1, 2 * k + 1))
        else:
            e = k * int(rng.integers(1, 3)) + int(rng.integers(1, max(k, 2)))
        sg = sign if sign != "mixed" else ["neg", "span", "pos"][int(rng.integers(3))]
        if sg == "neg":
            lo = -e - int(rng.integers(0, 6))
        elif sg == "span":
            lo = -int(rng.integers(1, e)) if e > 1 else -1
        else:
            lo = int(rng.integers(0, 7))
        edge.append(e)
        pmin.append(lo)
    pmax = [l + e for l, e in zip(pmin, edge)]
    flip = rng.integers(0, 2, size=ndim).astype(bool)
    a = [h if f else l for l, h, f in zip(pmin, pmax, flip)]
    b = [l if f else h for l, h, f in zip(pmin, pmax, flip)]
    return a, b, n.tolist()


class Agg:
    """collect clause evaluations inside loops; one ctx.require per (clause, sig) and case"""

    def __init__(self, ctx):
        self.ctx, self.ok, self.bad = ctx, {}, {}

    def req(self, cond, clause, what="", sig=None, **detail):
        try:
            cond = bool(cond)
        except Exception:
            cond = False
        if cond:
            self.ok[clause] = self.ok.get(clause, 0) + 1
        else:
            key = (clause, sig)
            if key in self.bad:
                self.bad[key][2] += 1
            else:
                self.bad[key] = [what, detail, 1]
        return cond

    def flush(self):
        badc = {k[0] for k in self.bad}
        for clause in self.ok:
            if clause not in badc:
                self.ctx.require(True, clause)
        for (clause, sig), (what, detail, cnt) in self.bad.items():
            self.ctx.require(False, clause, what, sig=sig, failures_in_case=cnt, **detail)


def err(raised, value):
    """text of the exception a call raised (None when it returned: the repr of a Field renders an html template, ~20 ms each)"""
    return repr(value)[:200] if raised else None


def rej(fn, types=(ValueError,)):
    """fn() is refused with one of the documented exception types (any other exception, or success, is not a refusal)"""
    try:
        fn()
    except types:
        return True
    except Exception:
        return False
    return False


def geometry(rng, ndim, with_sub, nmax):
    if with_sub:
        s = float(rng.choice([1e-9, 1e-3, 1.0]))
        off = rng.uniform(-3, 3, size=ndim) * s * float(rng.choice([1.0, 10.0]))
    else:
        s = 10.0 ** rng.uniform(-12, 6)
        off = rng.uniform(-3, 3, size=ndim) * s * (10.0 ** rng.integers(0, 3))
    e = rng.uniform(0.3, 1.7, size=ndim) * s
    flip = rng.integers(0, 2, size=ndim).astype(bool)
    a, b = np.where(flip, off + e, off), np.where(flip, off, off + e)
    n = rng.integers(1, nmax + 1, size=ndim)
    if ndim > 1 and len(set(n.tolist())) == 1:      # anisotropic cell counts
        n[0] = n[0] % nmax + 1
    return a.tolist(), b.tolist(), n.tolist()


def index_boxes(rng, n, count):
    out = []
    for _ in range(count):
        lo = [int(rng.integers(0, k)) for k in n]
        hi = [int(rng.integers(l + 1, k + 1)) for l, k in zip(lo, n)]
        out.append([lo, hi])
    return out


# ------------------------------------------------------------------------------------------ histories of the source
READS = ["cells", "to_xarray", "coordinate_field", "resample", "sel", "pad", "getitem", "call"]


def vec_arg(vals, how=None):
    """a vector argument in the container / number type under test"""
    if how == "int" and all(float(v).is_integer() for v in vals):
        return tuple(int(v) for v in vals)
    if how == "list":
        return [float(v) for v in vals]
    if how == "array":
        return np.array(vals, float)
    return tuple(float(v) for v in vals)


def move_geometry(state, st):
    """own effect of an in-place move on (pmin, pmax, n, units, index boxes of the subregions), from the documented meaning of translate (p + v),
    scale (ref - (ref - p) * factor; reference = centre if none) and rotate90 (k quarter turns from ax1 to ax2 about the reference = centre if none; cell
    counts and units of the two axes change places for odd k).  Also returns the scale of the operands per axis (for rounding budgets)."""
    pmin, pmax, n, units, boxes = state
    pmin, pmax, n = np.array(pmin, float), np.array(pmax, float), np.array(n, int)
    units, boxes = list(units), [[list(lo), list(hi)] for lo, hi in boxes]
    hs = np.maximum(np.abs(pmin), np.abs(pmax))
    op = st["op"]
    if op == "translate":
        v = np.array(st["v"], float)
        return (pmin + v, pmax + v, n, units, boxes), np.maximum(hs, np.abs(v))
    if op == "scale":
        fac = np.array(st["factor"], float) * np.ones(len(n))
        ref = 0.5 * (pmin + pmax) if st.get("ref") is None else np.array(st["ref"], float)
        lo = ref - (ref - pmin) * fac
        return (lo, lo + (pmax - pmin) * fac, n, units, boxes), np.maximum(hs, np.abs(ref)) * np.maximum(fac, 1.0)
    if op == "rotate":
        i, j = st["ax"]
        k = int(st["k"]) % 4
        ref = 0.5 * (pmin + pmax) if st.get("ref") is None else np.array(st["ref"], float)
        h = max(hs[i], hs[j], abs(ref[i]), abs(ref[j]))
        hs = hs.copy()
        hs[i] = hs[j] = 2 * h
        ai, bi, aj, bj = pmin[i] - ref[i], pmax[i] - ref[i], pmin[j] - ref[j], pmax[j] - ref[j]      # relative to the reference point
        ni, nj = int(n[i]), int(n[j])
        if k == 1:          # (x, y) -> (-y, x)
            ri, rj = (-bj, -aj), (ai, bi)
            n[i], n[j] = nj, ni
            for lo, hi in boxes:
                lo[i], hi[i], lo[j], hi[j] = nj - hi[j], nj - lo[j], lo[i], hi[i]
        elif k == 2:        # (x, y) -> (-x, -y)
            ri, rj = (-bi, -ai), (-bj, -aj)
            for lo, hi in boxes:
                lo[i], hi[i], lo[j], hi[j] = ni - hi[i], ni - lo[i], nj - hi[j], nj - lo[j]
        elif k == 3:        # (x, y) -> (y, -x)
            ri, rj = (aj, bj), (-bi, -ai)
            n[i], n[j] = nj, ni
            for lo, hi in boxes:
                lo[i], hi[i], lo[j], hi[j] = lo[j], hi[j], ni - hi[i], ni - lo[i]
        else:
            ri, rj = (ai, bi), (aj, bj)
        if k % 2:
            units[i], units[j] = units[j], units[i]
        pmin[i], pmax[i], pmin[j], pmax[j] = ref[i] + ri[0], ref[i] + ri[1], ref[j] + rj[0], ref[j] + rj[1]
        return (pmin, pmax, n, units, boxes), hs
    raise KeyError(op)


def chain_geometry(state, st):
    """lattice of the library's own result that becomes the new source: cells klo..khi of an axis / lo, hi more cells on an axis / q times the cells"""
    pmin, pmax, n, units, boxes = state
    pmin, pmax, n = np.array(pmin, float), np.array(pmax, float), np.array(n, int)
    cell = (pmax - pmin) / n
    op = st["op"]
    if op == "chain_sel":
        a, klo, khi = st["axis"], st["klo"], st["khi"]
        top = pmax[a] if khi + 1 == n[a] else pmin[a] + (khi + 1) * cell[a]
        pmin[a], pmax[a], n[a] = pmin[a] + klo * cell[a], top, khi + 1 - klo
    elif op == "chain_pad":
        a, lo, hi = st["axis"], st["lo"], st["hi"]
        pmin[a], pmax[a], n[a] = pmin[a] - lo * cell[a], pmax[a] + hi * cell[a], n[a] + lo + hi
    elif op == "chain_resample":
        n = n * np.array(st["mult"], int)
    else:
        raise KeyError(op)
    return (pmin, pmax, n, list(units), [])


def turn(arr, i, j, k):
    """cell data after k quarter turns from axis i to axis j: the value of cell (a, b) moves with the cell (k=1: to (n_j-1-b, a))"""
    k = k % 4
    if k == 0:
        return arr.copy()
    if k == 2:
        return np.flip(np.flip(arr, axis=i), axis=j).copy()
    sw = np.swapaxes(arr, i, j)
    return np.flip(sw, axis=i if k == 1 else j).copy()


class Src:
    """the source field rebuilt from params, with own description of its lattice"""

    def __init__(self, pr):
        self.p1, self.p2 = np.array(pr["p1"], float), np.array(pr["p2"], float)
        self.n = np.array(pr["n"], int)
        self.ndim = len(self.n)
        self.dims = tuple(pr.get("dims") or DIMS[: self.ndim])
        self.units = tuple(pr.get("units") or UNITS[: self.ndim])
        self.nvdim = int(pr.get("nvdim", 1))
        self.pmin, self.pmax = np.minimum(self.p1, self.p2), np.maximum(self.p1, self.p2)
        self.cell = (self.pmax - self.pmin) / self.n
        self.scale = np.maximum(np.abs(self.pmin), np.abs(self.pmax))
        self.boxes = pr.get("subs") or []
        self.geo = pr.get("geo", "float")               # number type of the corner points as handed to the library
        self.geo_int = self.geo in GEO_INT
        if self.geo_int and pr.get("scalar1d") and self.ndim == 1:
            c1, c2 = int(self.p1[0]), int(self.p2[0])   # 1-d regions accept plain numbers
        else:
            c1, c2 = self.corner(self.p1), self.corner(self.p2)
        region = df.Region(p1=c1, p2=c2, dims=self.dims, units=self.units)
        subs = {"r%d" % i: df.Region(p1=self.corner(self.pmin + np.array(lo) * self.cell), p2=self.corner(self.pmin + np.array(hi) * self.cell))
                for i, (lo, hi) in enumerate(self.boxes)}
        self.mesh = df.Mesh(region=region, n=tuple(int(k) for k in self.n), subregions=subs)
        self.fdtype = pr.get("fdtype", "float64")
        self.array = self.unique_values()
        vr = np.random.default_rng(pr.get("vseed", 0))
        self.valid = vr.random(tuple(self.n)) < 0.65
        if pr.get("vpattern") == "checker":             # validity that differs across (nearly) every cell face: index parity, a few seeded exceptions
            par = np.indices(tuple(int(k) for k in self.n)).sum(axis=0) % 2 == int(pr.get("vseed", 0)) % 2
            self.valid = par ^ (vr.random(tuple(self.n)) < 0.15)
        self.vdims = ["va", "vb", "vc", "vd"][: self.nvdim] if self.nvdim > 1 else None
        kw = {}
        if self.nvdim > 1:
            kw["vdims"] = self.vdims
            kw["vdim_mapping"] = {v: (self.dims[i] if i < self.ndim and i != 1 else None) for i, v in enumerate(self.vdims)}
        if self.fdtype != "float64":
            kw["dtype"] = FDTYPES[self.fdtype]
        self.field = df.Field(self.mesh, nvdim=self.nvdim, value=self.array.copy(), valid=self.valid.copy(), unit="A/m", **kw)
        self.vdim_mapping = dict(self.field.vdim_mapping)
        # ---- history of the source before the operation under test (reads of derived geometry, in-place moves, in-place updates, chaining)
        self.hist_ok, self.hist_note = True, None
        for st in pr.get("hist") or []:
            try:
                self.step(st)
            except Exception as e:                      # a history step that cannot be carried out is not a statement about C07
                self.hist_ok, self.hist_note = False, "%s: %r" % (st.get("op"), e)
            if not self.hist_ok:
                break

    # ------------------------------------------------------------------ history steps
    def warm(self, what):
        """read-only uses of the source that look at derived geometry (none of them may change what the source is)"""
        f, m = self.field, self.field.mesh
        reg, nd = m.region, self.ndim

        def quiet(fn):
            try:
                return fn()
            except Exception:       # (the operations themselves are judged elsewhere; here they only have to have been used)
                return None
        for w in (READS if what == "all" else [what]):
            if w == "cells":
                quiet(lambda: (m.cells, m.vertices, m.cell, m.dV, len(m), reg.edges, reg.center, reg.centre, reg.volume, reg.pmin, reg.pmax,
                               list(m.indices)[:2], list(m)[:2], m == m, reg == reg, m.allclose(m)))
                quiet(lambda: [(sr.edges, sr.center, sr in reg) for sr in m.subregions.values()])
            elif w == "to_xarray":
                quiet(lambda: f.to_xarray())
                quiet(lambda: f.to_xarray(name="again"))
            elif w == "coordinate_field":
                quiet(lambda: m.coordinate_field())
            elif w == "resample":
                quiet(lambda: f.resample(tuple(int(k) for k in m.n)))
                quiet(lambda: f.resample(tuple(int(min(8, k + 1)) for k in m.n)))
            elif w == "sel":
                d0, d1 = reg.dims[0], reg.dims[-1]
                c = m.cells
                quiet(lambda: f.sel(d0))
                quiet(lambda: m.sel(d1))
                quiet(lambda: f.sel(**{d1: float(c[-1][0])}))
                quiet(lambda: f.sel(**{d0: (float(c[0][0]), float(c[0][-1]))}))
                quiet(lambda: m.sel(**{d1: (float(c[-1][-1]), float(c[-1][-1]))}))
            elif w == "pad":
                quiet(lambda: f.pad({reg.dims[0]: (1, 2)}, mode="edge"))
                quiet(lambda: m.pad({reg.dims[-1]: (2, 0)}))
            elif w == "getitem":
                for name, sr in list(m.subregions.items()):
                    quiet(lambda: f[name])
                    quiet(lambda: m[name])
                    quiet(lambda: m.region2slices(sr))
                e = np.asarray(reg.edges, float)
                box = quiet(lambda: df.Region(p1=tuple(np.asarray(reg.pmin, float) + 0.25 * e), p2=tuple(np.asarray(reg.pmin, float) + 0.8 * e)))
                if box is not None:
                    quiet(lambda: f[box])
                    quiet(lambda: m[box])
                    quiet(lambda: m.region2slices(m[box].region))
            elif w == "call":
                quiet(lambda: f(reg.center))
                quiet(lambda: f(m.index2point(tuple([0] * nd))))
                quiet(lambda: m.point2index(reg.center))
                quiet(lambda: m.index2point(tuple(int(k) - 1 for k in m.n)))
                quiet(lambda: f.mean())

    def adopt(self, state, hs):
        """own effect of a move (state = pmin, pmax, n, units, boxes computed from the documented meaning) against what the source now holds: when
        they agree (64 ulp of the operand scale hs; transformations themselves are not C07's subject) the doubles the source holds are the current geometry"""
        pmin, pmax, n, units, boxes = state
        m = self.field.mesh
        lp, lq = np.array(m.region.pmin, float), np.array(m.region.pmax, float)
        ok = (np.array_equal(m.n, n) and ulp_close(lp, pmin, 64, hs) and ulp_close(lq, pmax, 64, hs) and bool(np.all(lq > lp))
              and tuple(m.region.units) == tuple(units) and tuple(m.region.dims) == tuple(self.dims) and len(m.subregions) == len(boxes))
        cell = (lq - lp) / np.array(n)
        for i, (lo, hi) in enumerate(boxes if ok else []):
            sr = m.subregions.get("r%d" % i)
            ok = ok and sr is not None and ulp_close(sr.pmin, lp + np.array(lo) * cell, 64, hs) and ulp_close(sr.pmax, lp + np.array(hi) * cell, 64, hs)
        if not ok:
            self.hist_ok, self.hist_note = False, "the source after the history step is not what the step documents"
            return
        self.pmin, self.pmax, self.n, self.units, self.boxes = lp, lq, np.array(n, int), tuple(units), [[list(lo), list(hi)] for lo, hi in boxes]
        self.cell = cell
        self.scale = np.maximum(np.abs(lp), np.abs(lq))
        self.mesh = m
        # the integer-corner input class (exact integer arithmetic for faces, integer corners handed over) only while the source still keeps integer arrays
        self.geo_int = self.geo_int and bool(np.issubdtype(m.region.pmin.dtype, np.integer) and np.issubdtype(m.region.pmax.dtype, np.integer))

    def data_is(self, array, valid):
        f = self.field
        if not (f.array.shape == array.shape and np.array_equal(f.array, array) and np.array_equal(f.valid, valid)):
            self.hist_ok, self.hist_note = False, "the source's data after the history step are not what the step documents"
            return
        self.array, self.valid = array, valid

    def revalue(self):
        """the new source (a result with repeated values) gets distinct values per cell again, written into its array in place"""
        if self.hist_ok:
            arr = self.unique_values()
            self.field.array[...] = arr
            self.data_is(arr, self.valid)

    def step(self, st):
        op = st["op"]
        f, m = self.field, self.field.mesh
        reg = m.region
        state = (self.pmin, self.pmax, self.n, self.units, self.boxes)
        if op == "read":
            self.warm(st["what"])
        elif op in ("mesh_translate", "region_translate", "alias_translate"):
            new, hs = move_geometry(state, dict(st, op="translate"))
            v = vec_arg(st["v"], st.get("as"))
            if op == "mesh_translate":
                m.translate(v, inplace=True)
            elif op == "region_translate":              # through the Region object itself (and the subregion objects, as Mesh.translate would)
                reg.translate(v, inplace=True)
                for sr in m.subregions.values():
                    sr.translate(v, inplace=True)
            else:                                       # through another field that holds the same Region object (resample keeps the region)
                g = f.resample(tuple(int(k) for k in st["n"]))
                if g.mesh.region is not reg:
                    g.mesh.translate(v, inplace=True)   # (no alias: the move does not concern the source)
                    new = state
                else:
                    g.mesh.translate(v, inplace=True)
            self.adopt(new, hs)
        elif op in ("mesh_scale", "region_scale"):
            new, hs = move_geometry(state, dict(st, op="scale"))
            fac = vec_arg(np.atleast_1d(st["factor"]), st.get("as"))
            fac = fac[0] if np.ndim(st["factor"]) == 0 else fac
            ref = None if st.get("ref") is None else vec_arg(st["ref"], st.get("as"))
            if op == "mesh_scale":
                m.scale(fac, reference_point=ref, inplace=True)
            else:
                sref = reg.center if ref is None else ref
                reg.scale(fac, reference_point=ref, inplace=True)
                for sr in m.subregions.values():
                    sr.scale(fac, reference_point=sref, inplace=True)
            self.adopt(new, hs)
        elif op in ("mesh_rotate90", "region_rotate90", "field_rotate90"):
            new, hs = move_geometry(state, dict(st, op="rotate"))
            i, j = st["ax"]
            ref = None if st.get("ref") is None else vec_arg(st["ref"], st.get("as"))
            kw = dict(ax1=self.dims[i], ax2=self.dims[j], k=int(st["k"]), reference_point=ref, inplace=True)
            if op == "mesh_rotate90":
                m.rotate90(**kw)
            elif op == "region_rotate90":
                kw["reference_point"] = tuple(reg.centre) if ref is None else ref
                reg.rotate90(**kw)
                for sr in m.subregions.values():
                    sr.rotate90(**kw)
            else:
                f.rotate90(**kw)
            self.adopt(new, hs)
            if op == "field_rotate90" and self.hist_ok:
                self.data_is(turn(self.array, i, j, int(st["k"])), turn(self.valid, i, j, int(st["k"])))
        elif op == "rename":
            dims, units = st.get("dims"), st.get("units")
            for r_ in [reg] + list(m.subregions.values()):      # the whole mesh is renamed consistently
                if dims is not None:
                    r_.dims = list(dims)
                if units is not None:
                    r_.units = list(units)
            if dims is not None:
                self.dims = tuple(dims)
            self.adopt((self.pmin, self.pmax, self.n, tuple(units) if units is not None else self.units, self.boxes), self.scale)
        elif op == "set_subregions":
            boxes = st["boxes"]
            m.subregions = {"r%d" % i: df.Region(p1=self.corner(self.pmin + np.array(lo) * self.cell), p2=self.corner(self.pmin + np.array(hi) * self.cell))
                            for i, (lo, hi) in enumerate(boxes)}
            self.adopt((self.pmin, self.pmax, self.n, self.units, boxes), self.scale)
        elif op == "data":
            arr = (self.array * st["mul"] + st["add"]).astype(self.array.dtype)
            val = np.random.default_rng(st["vseed"]).random(tuple(self.n)) < 0.6
            how = st["how"]
            if how == "setter":
                f.array = arr.copy()
                f.valid = val.copy()
            elif how == "inplace":
                f.array[...] = arr
                f.valid[...] = val
            else:
                f.update_field_values(arr.copy())
                f.valid = val.copy()
            self.data_is(arr, val)
        elif op == "chain_sel":         # the source becomes the library's own range selection of it (cells klo..khi of axis a, bounds at their centres)
            a, klo, khi = st["axis"], st["klo"], st["khi"]
            g = f.sel(**{self.dims[a]: (self.centre(a, klo), self.centre(a, khi))})
            self.field = g
            self.adopt(chain_geometry(state, st), self.scale)
            if self.hist_ok:
                sl = tuple(slice(klo, khi + 1) if j == a else slice(None) for j in range(self.ndim))
                self.data_is(self.array[sl], self.valid[sl])
        elif op == "chain_pad":         # ... the library's own padding of it (mode 'edge' or 'wrap', one axis)
            a, lo, hi, mode = st["axis"], st["lo"], st["hi"], st["mode"]
            g = f.pad({self.dims[a]: (lo, hi)}, mode=mode)
            new = chain_geometry(state, st)
            self.field = g
            self.adopt(new, np.maximum(self.scale, np.maximum(np.abs(new[0]), np.abs(new[1]))))
            if self.hist_ok:
                k = int(self.array.shape[a])
                idx = [(q % k) if mode == "wrap" else min(max(q, 0), k - 1) for q in range(-lo, k + hi)]
                self.data_is(np.take(self.array, idx, axis=a), np.take(self.valid, idx, axis=a))
                self.revalue()
        elif op == "chain_resample":    # ... the library's own resampling of it to an integer multiple of its cells (every new cell inside one old cell)
            mult = [int(q) for q in st["mult"]]
            g = f.resample(tuple(int(k * q) for k, q in zip(self.n, mult)))
            self.field = g
            self.adopt(chain_geometry(state, st), self.scale)
            if self.hist_ok:
                arr, val = self.array, self.valid
                for a, q in enumerate(mult):
                    arr, val = np.repeat(arr, q, axis=a), np.repeat(val, q, axis=a)
                self.data_is(arr, val)
                self.revalue()
        else:
            raise KeyError(op)

    def locate(self, first):
        """source cell (multi-index) holding each given value of the first component (the values are unique per cell); None if some value is not the source's"""
        flat = np.real(self.array[..., 0]).ravel()
        order = np.argsort(flat, kind="stable")
        v = np.real(np.asarray(first)).ravel()
        pos = np.clip(np.searchsorted(flat[order], v), 0, len(flat) - 1)
        lin = order[pos]
        if not np.array_equal(flat[lin], v):
            return None
        return tuple(ix.reshape(np.shape(first)) for ix in np.unravel_index(lin, tuple(int(k) for k in self.n)))

    def unique_values(self):
        """data in which every cell holds its own values: 1 + nvdim * (C-order number of the cell) + component"""
        dt = FDTYPES[self.fdtype]
        lin = np.arange(int(np.prod(self.n))).reshape(tuple(int(k) for k in self.n))
        base = 1 + self.nvdim * lin[..., None] + np.arange(self.nvdim)
        if np.issubdtype(dt, np.complexfloating):
            base = base + 1j * (0.25 - 2.0 * base)        # distinct, non-zero imaginary parts (exact in complex64)
        return base.astype(dt)

    def corner(self, vals):
        """corner point in the number type of this geometry: integers (where the values are integral) for integer geometries, doubles otherwise"""
        vals = np.asarray(vals, float)
        if self.geo_int and all(float(v).is_integer() for v in vals):
            if self.geo == "int":
                return tuple(int(v) for v in vals)
            return np.array([int(v) for v in vals], dtype=GEO_INT[self.geo])
        return tuple(vals)

    def inside(self, a):
        return lambda v: bool(self.pmin[a] <= v <= self.pmax[a])

    def qtol(self, a, q):
        return 8 * np.spacing(self.scale[a]) / self.cell[a] + 8 * np.spacing(max(abs(q), 1.0))

    def cands(self, a, x):
        """cells of axis a that contain coordinate x (lower face inclusive, last cell closed); both neighbours near a face"""
        q = (x - self.pmin[a]) / self.cell[a]
        n = int(self.n[a])
        out = {int(np.clip(np.floor(q), 0, n - 1))}
        r = np.round(q)
        if abs(q - r) <= self.qtol(a, q):
            out |= {int(np.clip(r, 0, n - 1)), int(np.clip(r - 1, 0, n - 1))}
        return out

    def vertex(self, a, k):
        return float(self.pmin[a] + k * self.cell[a])

    def centre(self, a, k):
        return float(self.pmin[a] + (k + 0.5) * self.cell[a])


def lattice_maps(src, rpmin, rpmax, rn, axes):
    """for a result lattice given by (corners, n) on the source axes `axes`: per axis the source cell index containing each
    result cell centre (own floor lookup; may be out of range for padding) and whether all centres sit at fraction 1/2"""
    maps, aligned = [], True
    for j, a in enumerate(axes):
        c = rpmin[j] + (np.arange(rn[j]) + 0.5) * ((rpmax[j] - rpmin[j]) / rn[j])
        q = (c - src.pmin[a]) / src.cell[a]
        k = np.floor(q)
        sc = max(src.scale[a], abs(rpmin[j]), abs(rpmax[j]))
        tol = 16 * np.spacing(sc) / src.cell[a] + 16 * np.spacing(np.maximum(np.abs(q), 1.0))
        aligned &= bool(np.all(np.abs(q - k - 0.5) <= tol))
        maps.append(k.astype(int))
    return maps, aligned


def meta_ok(src, f, dims, units):
    return (isinstance(f, df.Field) and f.nvdim == src.nvdim and f.vdims == src.field.vdims and f.unit == "A/m"
            and dict(f.vdim_mapping) == src.vdim_mapping and tuple(f.mesh.region.dims) == tuple(dims)
            and tuple(f.mesh.region.units) == tuple(units))


def same_cell(src, m, axes):
    """result mesh m has the source's cell size on the kept axes (16 ulp of the coordinate scale: cell sizes are corner differences)"""
    return all(ulp_close(m.cell[j], src.cell[a], 16, max(src.scale[a], abs(m.region.pmin[j]), abs(m.region.pmax[j]))) for j, a in enumerate(axes))


# ------------------------------------------------------------------------------------------ generation of histories
GEO_MOVES = ["mesh_translate", "mesh_scale", "mesh_rotate90", "region_translate", "region_scale", "region_rotate90"]
PRIMARY = GEO_MOVES + ["alias_translate", "field_rotate90", "rename", "set_subregions", "data", "chain_sel", "chain_pad", "chain_resample"]
NO_SUBS = {"alias_translate", "field_rotate90", "chain_sel", "chain_pad", "chain_resample"}       # histories stated for meshes without subregions only
ONE_D = {"mesh_rotate90": "mesh_scale", "region_rotate90": "region_translate", "field_rotate90": "data"}


def gen_move(rng, state, op, integral, keep_scale, wide):
    """one in-place move (step dict) and the own state after it.  integral: integer vector / factor / reference point (integer corner points stay integers);
    keep_scale: the coordinates after the move are not smaller than half the operands' (with subregions: region and subregions are moved separately, each
    with its own rounding, so a move that cancels the coordinate scale would leave them apart by more than the few ulp the clauses allow)"""
    pmin, pmax, n = np.array(state[0], float), np.array(state[1], float), np.array(state[2], int)
    nd = len(n)
    ext = pmax - pmin
    how = "int" if integral else ["tuple", "list", "array"][int(rng.integers(3))]
    kind = "translate" if op.endswith("translate") else "scale" if op.endswith("scale") else "rotate"
    for attempt in range(40):
        st = {"op": op, "as": how}
        if kind == "translate":
            if integral:
                v = rng.integers(-6, 7, nd).astype(float)
            else:
                v = rng.uniform(-2, 2, nd) * ext * float(rng.choice([1.0, 5.0]))
                v[rng.random(nd) < 0.2] = 0.0
            if not np.any(v):
                v[int(rng.integers(nd))] = 1.0 if integral else float(ext[0])
            st["v"] = v.tolist()
        elif kind == "scale":
            if integral:
                fac = rng.integers(2, 4, nd).astype(float)
            elif wide and rng.random() < 0.3:
                fac = 10.0 ** rng.uniform(-3, 3, nd)
            else:
                fac = rng.uniform(0.4, 2.5, nd)
            st["factor"] = float(fac[0]) if rng.random() < 0.5 else fac.tolist()
            rk = int(rng.integers(1, 4)) if integral else int(rng.integers(5))
            if rk == 0:
                st["ref"] = None
            elif rk == 1:
                st["ref"] = pmin.tolist()
            elif rk == 2:
                st["ref"] = pmax.tolist()
            elif rk == 3:
                r = pmin + ext * rng.uniform(0, 1, nd)
                st["ref"] = (np.floor(r) if integral else r).tolist()
            else:
                st["ref"] = (pmin + ext * rng.uniform(-2, 3, nd)).tolist()
        else:
            i, j = (int(q) for q in rng.permutation(nd)[:2])
            st["ax"] = [i, j]
            st["k"] = int(rng.choice([1, 2, 3, -1, 5, 6, -2] if n[i] == n[j] else [2, -2, 6]))
            rk = int(rng.integers(3))
            if rk == 0 and not integral:
                st["ref"] = None
            else:
                r = pmin + ext * rng.uniform(-0.5 if rk == 2 else 0, 1.5 if rk == 2 else 1, nd)
                st["ref"] = (np.floor(r) if integral else r).tolist()
        new, hs = move_geometry(state, dict(st, op=kind))
        if integral or not keep_scale or bool(np.all(np.maximum(np.abs(new[0]), np.abs(new[1])) >= 0.5 * hs)):
            return st, new
    sg = np.where(pmin + pmax >= 0, 1.0, -1.0)          # away from the origin: never cancels
    st = {"op": op if kind == "translate" else ("mesh_translate" if op.startswith("mesh") else "region_translate"), "as": how,
          "v": (sg * (np.ceil(ext) if integral else ext)).tolist()}
    return st, move_geometry(state, dict(st, op="translate"))[0]


def gen_history(rng, base, primary, template, integral):
    """a history (list of steps) for the source described by base: reads of derived geometry and in-place changes in the order given by the template,
    the primary step being of the requested kind"""
    p1, p2 = np.array(base["p1"], float), np.array(base["p2"], float)
    n = list(base["n"])
    nd = len(n)
    state = (np.minimum(p1, p2), np.maximum(p1, p2), np.array(n, int), list(UNITS[:nd]), [[list(lo), list(hi)] for lo, hi in base["subs"]])
    dims = list(base.get("dims") or DIMS[:nd])
    wide = not base["subs"]

    def read():
        return {"op": "read", "what": "all" if rng.random() < 0.75 else READS[int(rng.integers(len(READS)))]}

    def data():
        return {"op": "data", "mul": int(rng.integers(2, 5)), "add": int(rng.integers(1, 9)), "vseed": int(rng.integers(1 << 30)),
                "how": ["setter", "update", "inplace"][int(rng.integers(5)) % 3]}

    def geo(op=None):
        nonlocal state
        if op is None:
            op = GEO_MOVES[int(rng.integers(len(GEO_MOVES)))]
        if nd == 1:
            op = ONE_D.get(op, op)
        st, state = gen_move(rng, state, op, integral, bool(state[4]), wide)
        return st

    def prim():
        nonlocal state, dims
        pmin, pmax, nn, units, boxes = state
        if primary in GEO_MOVES:
            return geo(primary)
        if primary == "alias_translate":
            st, state = gen_move(rng, state, "alias_translate", integral, False, wide)
            st["n"] = [int(q) for q in rng.integers(1, 7, nd)]
            return st
        if primary == "field_rotate90":
            st, state = gen_move(rng, state, "field_rotate90", integral, False, wide)
            return st
        if primary == "rename":
            st = {"op": "rename", "dims": None, "units": None}
            what = int(rng.integers(3))
            if what != 1:
                if nd >= 2 and rng.random() < 0.5:
                    new = dims[1:] + dims[:1]               # the same names on other axes
                else:
                    pool = ["a", "b", "c", "d"] if dims[0] != "a" else ["x", "y", "z", "x3"]
                    new = pool[:nd]
                st["dims"], dims = new, new
            if what != 0:
                new = ["m", "um", "ms", "K"][:nd] if units[0] != "m" else ["nm", "s", "T", "kg"][:nd][::-1]
                st["units"] = new
                state = (pmin, pmax, nn, list(new), boxes)
            return st
        if primary == "set_subregions":
            new = index_boxes(rng, [int(k) for k in nn], int(rng.integers(1, 4)))
            state = (pmin, pmax, nn, units, new)
            return {"op": "set_subregions", "boxes": new}
        if primary == "data":
            return dict(data(), how=["setter", "update", "inplace", "setter"][template % 4])
        if primary == "chain_sel":
            a = int(rng.integers(nd))
            klo = int(rng.integers(0, nn[a]))
            st = {"op": "chain_sel", "axis": a, "klo": klo, "khi": int(rng.integers(klo, nn[a]))}
        elif primary == "chain_pad":
            a = int(rng.integers(nd))
            lo = int(rng.integers(0, 3))
            st = {"op": "chain_pad", "axis": a, "lo": lo, "hi": int(rng.integers(0 if lo else 1, 3)), "mode": ["edge", "wrap"][int(rng.integers(2))]}
        else:
            mult = [1] * nd
            for a in rng.permutation(nd).tolist() * 2:        # more cells on some axes, bounded size
                if (mult[a] + 1) * nn[a] <= 8 and int(np.prod(nn)) * int(np.prod(mult)) // mult[a] * (mult[a] + 1) <= 300 and rng.random() < 0.8:
                    mult[a] += 1
            st = {"op": "chain_resample", "mult": mult}
        state = chain_geometry(state, st)
        return st

    chain = primary.startswith("chain")
    if chain or primary in ("rename", "set_subregions"):        # the changed / derived source is then read and moved (or used as it is)
        plans = [["R", "P"], ["P", "R", "G"], ["R", "P", "R", "G"], ["R", "P", "G"], ["R", "G", "P", "R"]]
    elif primary == "data":
        plans = [["A", "P"], ["A", "G", "A", "P"], ["A", "P", "R"], ["G", "A", "P"], ["A", "P", "G", "R"]]
    else:
        plans = [["R", "P"], ["R", "P", "R", "G"], ["G", "R", "P"], ["R", "G", "P"], ["R", "P", "R"]]
    plan = plans[template % len(plans)]
    if primary != "data" and rng.random() < 0.35:      # ... and the data of the (moved, read) source are replaced last
        plan = plan + ["A", "D"]
    return [read() if c == "R" else {"op": "read", "what": "all"} if c == "A" else geo() if c == "G" else data() if c == "D" else prim() for c in plan]


# ------------------------------------------------------------------------------------------ exact (dyadic / integer) geometry: ties
TIE_CLASSES = ["neg", "span", "pos", "far"]


def exact_div(pmin, pmax, n):
    """the lattice pmin + i * (pmax - pmin) / (2 n), i = 0 .. 2n (faces and centres of n cells between the two doubles pmin, pmax) consists of doubles
    with a common binary quantum and fewer than 2^46 quanta from zero: every sum, difference and small integer multiple formed from them is exact in
    floating point, and the floor of a correctly rounded quotient of two of them is the exact floor"""
    pmin, pmax = Fr(pmin), Fr(pmax)
    h = (pmax - pmin) / (2 * int(n))
    if h <= 0 or h.denominator & (h.denominator - 1):
        return False
    den = max(h.denominator, pmin.denominator, pmax.denominator)
    return (max(abs(pmin), abs(pmax)) + (pmax - pmin)) * den < 2 ** 46


def exact_src(src):
    """(pmin, pmax, cell) per axis as exact rationals of the corner doubles the source holds; None unless the source's lattice of faces and centres is exact"""
    lo, hi = [Fr(float(v)) for v in src.pmin], [Fr(float(v)) for v in src.pmax]
    if not all(exact_div(a, b, n) for a, b, n in zip(lo, hi, src.n)):
        return None
    return lo, hi, [(b - a) / int(n) for a, b, n in zip(lo, hi, src.n)]


def cell_of(p, pmin, cell, n):
    """index of the half-open cell [pmin + i cell, pmin + (i+1) cell) containing p, the last cell including the upper region face (exact rational floor)"""
    return min(int((p - pmin) // cell), int(n) - 1)


def tie_geometry(rng, ndim, nmax, cls):
    """dyadic corner points: extent = M * m * 2^k with M a multiple of n (840 = lcm(1..8): every target resolution <= 8 exact; 24, 12, 2n, lcm(n, t): some),
    pmin on the quarter-cell lattice: region below zero (pmax == 0 or a few half cells below), across zero (zero on a face / quarter point / centre / at pmin),
    above zero, or 2^16 .. 2^30 quarter cells away from zero; the quarter-cell lattice of the source is exact (exact_div)"""
    p1, p2, ns = [], [], []
    for j in range(ndim):
        for attempt in range(60):
            n = int(rng.choice([k for k in (2, 4, 6, 8, 4, 8, 2, 3, 5, 7, 1) if k <= nmax and (k > 1 or (ndim > 1 and j > 0))]))
            t = int(rng.integers(1, 9))
            M = int(rng.choice([840, 840, 24, 12, 2 * n, int(np.lcm(n, t)), int(np.lcm(n, t))]))
            if M % n:
                M *= n
            ext = Fr(M * int(rng.choice([1, 1, 3, 5]))) * Fr(2) ** int(rng.integers(-6, 5))
            cell = ext / n
            c = cls if cls != "mixed" else TIE_CLASSES[int(rng.integers(len(TIE_CLASSES)))]
            if c == "neg":
                pmin = -cell * Fr(int(rng.choice([0, 0, 1, 2, 3, 10])), 2) - ext
            elif c == "span":
                pmin = -(cell * int(rng.integers(0, n)) + cell * Fr(int(rng.choice([0, 0, 1, 2, 3])), 4))
            elif c == "pos":
                pmin = cell * Fr(int(rng.choice([0, 1, 2, 3, 7, 20])), 2)
            else:
                pmin = int(rng.choice([-1, 1])) * (2 ** int(rng.integers(16, 31)) + int(rng.integers(0, 64))) * cell / 4
            if exact_div(pmin, pmin + ext, 2 * n):
                break
        else:
            n, pmin, ext = min(4, nmax), Fr(0), Fr(12)
        a, b = float(pmin), float(pmin + ext)
        if rng.random() < 0.4:
            a, b = b, a
        p1.append(a)
        p2.append(b)
        ns.append(n)
    if ndim > 1 and len(set(ns)) == 1 and ns[0] > 2:       # anisotropic cell counts (the extent stays a multiple: halving keeps the lattice dyadic)
        ns[0] = ns[0] // 2 if ns[0] % 2 == 0 else ns[0]
    return p1, p2, ns


# ------------------------------------------------------------------------------------------ cases
def cases(ctx):
    rng = ctx.rng
    quick = ctx.tier == "quick"
    reps = 6 if quick else 40
    for ndim in (1, 2, 3, 4):
        nmax = {1: 8, 2: 6, 3: 4, 4: 3}[ndim] if quick else {1: 8, 2: 8, 3: 5, 4: 4}[ndim]
        for rep in range(reps):
            with_sub = rep % 3 != 2
            p1, p2, n = geometry(rng, ndim, with_sub, nmax)
            base = {"p1": p1, "p2": p2, "n": n, "nvdim": int(rng.choice([1, 2, 3])), "vseed": int(rng.integers(1 << 30)),
                    "subs": index_boxes(rng, n, int(rng.integers(1, 4))) if with_sub else []}
            if rep % 2:
                # library-default names x,y,z / x0.. are exercised too
                base["dims"] = ["x", "y", "z"][:ndim] if ndim <= 3 else ["x0", "x1", "x2", "x3"]
            for a in range(ndim):
                yield "sel_plane", dict(base, axis=a, seed=int(rng.integers(1 << 30)))
                yield "sel_range", dict(base, axis=a, seed=int(rng.integers(1 << 30)))
            yield "getitem", dict(base, seed=int(rng.integers(1 << 30)), nboxes=12 if quick else 40)
            for mode in MODES:
                yield "pad", dict(base, mode=mode, seed=int(rng.integers(1 << 30)), nwidths=3 if quick else 8)
            yield "resample", dict(base, seed=int(rng.integers(1 << 30)), ntargets=64 if quick else 100)
    # ---- integer corner points (the library keeps pmin/pmax as integer arrays), fractional coordinates, all scalar / container types
    geos = ["int", "npint64", "int", "npint32", "int", "floatint"]
    signs = ["neg", "span", "mixed", "pos"]
    fdts = ["float64", "int64", "float64", "float32", "float64", "complex128", "float64", "int32", "float64", "complex64"]
    cnt = 0
    reps_i = 6 if quick else 32
    for ndim in (1, 2, 3, 4):
        nmax = {1: 8, 2: 6, 3: 4, 4: 3}[ndim] if quick else {1: 8, 2: 8, 3: 5, 4: 4}[ndim]
        for rep in range(reps_i):
            geo, sign = geos[rep % len(geos)], signs[(rep + ndim) % len(signs)]
            p1, p2, n = int_geometry(rng, ndim, nmax, sign)
            with_sub = rep % 3 != 1
            base = {"p1": p1, "p2": p2, "n": n, "nvdim": int(rng.choice([1, 2, 3])), "vseed": int(rng.integers(1 << 30)), "geo": geo,
                    "subs": index_boxes(rng, n, int(rng.integers(1, 4))) if with_sub else [], "fdtype": fdts[cnt % len(fdts)]}
            if ndim == 1 and rep % 2:
                base["scalar1d"] = True
            if rep % 2 == 0:
                base["dims"] = ["x", "y", "z"][:ndim] if ndim <= 3 else ["x0", "x1", "x2", "x3"]
            for a in range(ndim):
                cnt += 1
                yield "sel_plane", dict(base, axis=a, seed=int(rng.integers(1 << 30)), ctype=CTYPES[cnt % len(CTYPES)])
                yield "sel_range", dict(base, axis=a, seed=int(rng.integers(1 << 30)), ctype=CTYPES[(cnt // 2) % len(CTYPES)], cont=CONTAINERS[cnt % len(CONTAINERS)])
            yield "getitem", dict(base, seed=int(rng.integers(1 << 30)), nboxes=12 if quick else 40)
            for mode in (MODES if not quick else [MODES[(cnt + i) % len(MODES)] for i in range(3)]):
                yield "pad", dict(base, mode=mode, seed=int(rng.integers(1 << 30)), nwidths=3 if quick else 8)
            yield "resample", dict(base, seed=int(rng.integers(1 << 30)), ntargets=24 if quick else 100)
    # ---- field data types on double geometry (float32 / integer / complex data must stay at their positions just the same)
    for ndim in (1, 2, 3, 4):
        nmax = {1: 8, 2: 6, 3: 4, 4: 3}[ndim]
        for fdt in ["float32", "int64", "int32", "complex128", "complex64"] * (1 if quick else 4):
            cnt += 1
            p1, p2, n = geometry(rng, ndim, True, nmax)
            base = {"p1": p1, "p2": p2, "n": n, "nvdim": int(rng.choice([1, 2, 3])), "vseed": int(rng.integers(1 << 30)),
                    "subs": index_boxes(rng, n, int(rng.integers(1, 3))), "fdtype": fdt}
            a = int(rng.integers(ndim))
            yield "sel_plane", dict(base, axis=a, seed=int(rng.integers(1 << 30)), ctype=CTYPES[cnt % len(CTYPES)])
            yield "sel_range", dict(base, axis=a, seed=int(rng.integers(1 << 30)), ctype=CTYPES[(cnt + 2) % len(CTYPES)], cont=CONTAINERS[cnt % len(CONTAINERS)])
            yield "getitem", dict(base, seed=int(rng.integers(1 << 30)), nboxes=8 if quick else 30)
            for i in range(2 if quick else 7):
                yield "pad", dict(base, mode=MODES[(cnt + 3 * i) % len(MODES)], seed=int(rng.integers(1 << 30)), nwidths=3 if quick else 6)
            yield "resample", dict(base, seed=int(rng.integers(1 << 30)), ntargets=16 if quick else 64)
    # ---- histories: the source is read (derived geometry), changed in place (moved / renamed / re-divided / new data) or is itself a result, then used
    reps_h = len(PRIMARY) * (1 if quick else 4)
    for ndim in (1, 2, 3, 4):
        nmax = {1: 8, 2: 6, 3: 4, 4: 3}[ndim]
        for rep in range(reps_h):
            cnt += 1
            primary = PRIMARY[rep % len(PRIMARY)]
            if ndim == 1:
                primary = ONE_D.get(primary, primary)
            template = rep // len(PRIMARY) + ndim + rep % len(PRIMARY)
            geo = [None, None, "int", None, "npint64", None, "int"][cnt % 7]
            integral = geo is not None and cnt % 2 == 0
            with_sub = primary not in NO_SUBS and rep % 3 != 2
            if geo is None:
                p1, p2, n = geometry(rng, ndim, with_sub or rep % 2 == 0, nmax)
            else:
                p1, p2, n = int_geometry(rng, ndim, nmax, signs[cnt % len(signs)])
            if primary in ("mesh_rotate90", "region_rotate90", "field_rotate90") and ndim > 1 and rep % 2:
                n[1] = n[0]                      # equal cell counts on two axes: odd numbers of quarter turns are possible for them
            base = {"p1": p1, "p2": p2, "n": n, "nvdim": 1 if primary == "field_rotate90" else int(rng.choice([1, 2, 3])), "vseed": int(rng.integers(1 << 30)),
                    "subs": index_boxes(rng, n, int(rng.integers(1, 4))) if with_sub else []}
            if geo is not None:
                base["geo"] = geo
            if rep % 2:
                base["dims"] = ["x", "y", "z"][:ndim] if ndim <= 3 else ["x0", "x1", "x2", "x3"]
            if cnt % 5 == 0:
                base["fdtype"] = ["float32", "int64", "complex128", "int32", "complex64"][(cnt // 5) % 5]
            base["hist"] = gen_history(rng, base, primary, template, integral)
            yield "sel_plane", dict(base, axis=int(rng.integers(ndim)), seed=int(rng.integers(1 << 30)), ctype=CTYPES[cnt % len(CTYPES)])
            yield "sel_range", dict(base, axis=int(rng.integers(ndim)), seed=int(rng.integers(1 << 30)), ctype=CTYPES[(cnt + 1) % len(CTYPES)], cont=CONTAINERS[cnt % len(CONTAINERS)])
            yield "getitem", dict(base, seed=int(rng.integers(1 << 30)), nboxes=8 if quick else 24)
            yield "pad", dict(base, mode=MODES[cnt % len(MODES)], seed=int(rng.integers(1 << 30)), nwidths=2 if quick else 4)
            yield "resample", dict(base, seed=int(rng.integers(1 << 30)), ntargets=16 if quick else 48)
            yield "resample", dict(base, hist=base["hist"] + [{"op": "read", "what": "resample"}], seed=int(rng.integers(1 << 30)), ntargets=8 if quick else 24)
    # fixed integer-corner configurations: unit cells on a region across zero; fractional cell 1.25; cells smaller than 1; scalar 1-d corners
    for ct in CTYPES:
        fx = {"p1": [-4, -3, -2], "p2": [4, 3, 2], "n": [8, 6, 4], "nvdim": 1, "vseed": 5, "subs": [], "geo": "int", "dims": ["x", "y", "z"]}
        yield "sel_plane", dict(fx, axis=0, seed=5, ctype=ct)
        yield "sel_range", dict(fx, p2=[4, 3, -1], n=[8, 3, 1], axis=0, seed=5, ctype=ct, cont="tuple")
        fy = {"p1": [10, 0], "p2": [0, 3], "n": [8, 8], "nvdim": 2, "vseed": 6, "subs": [[[0, 0], [4, 8]]], "geo": "npint64"}
        yield "sel_plane", dict(fy, axis=1, seed=6, ctype=ct)
        yield "sel_range", dict(fy, axis=0, seed=6, ctype=ct, cont="list")
        yield "sel_range", {"p1": [-7], "p2": [-2], "n": [4], "nvdim": 3, "vseed": 7, "subs": [], "geo": "int", "scalar1d": True, "axis": 0, "seed": 7,
                            "ctype": ct, "cont": "array"}
    # fixed cases: the documented shape of the sel-at-subregion-face and aligned-box problems, integer corners
    yield "sel_range", {"p1": [0.0], "p2": [0.6], "n": [6], "nvdim": 1, "vseed": 1, "subs": [[[1], [2]]], "axis": 0, "seed": 1, "dims": ["x"]}
    yield "getitem", {"p1": [0.1, 0.0], "p2": [0.7, 1.0], "n": [6, 2], "nvdim": 1, "vseed": 1, "subs": [[[0, 0], [1, 1]]], "seed": 1, "nboxes": 30, "dims": ["x", "y"]}
    yield "sel_range", {"p1": [0.0, 0.0, 0.0], "p2": [10.0, 6.0, 4.0], "n": [5, 3, 4], "nvdim": 3, "vseed": 2,
                        "subs": [[[0, 0, 0], [2, 3, 4]], [[2, 0, 1], [5, 2, 3]]], "axis": 0, "seed": 2, "dims": ["x", "y", "z"]}
    yield "pad", {"p1": [0.0, 0.0], "p2": [3.0, 2.0], "n": [3, 2], "nvdim": 2, "vseed": 3, "subs": [], "mode": "constant", "seed": 3, "nwidths": 6, "const": 7.5}
    # ---- exact ties: dyadic / integer geometry in which requested coordinates, box corners and centres of resampled cells lie exactly on cell faces
    tfd = ["float64", "float64", "int64", "float32", "complex128", "float64", "int32", "complex64"]
    for ndim in (1, 2, 3, 4):
        nmax = {1: 8, 2: 8, 3: 6, 4: 4}[ndim]
        for rep in range(len(TIE_CLASSES) * (3 if quick else 10)):
            cnt += 1
            cls = TIE_CLASSES[rep % len(TIE_CLASSES)] if rep < 2 * len(TIE_CLASSES) or ndim == 1 else "mixed"
            p1, p2, n = tie_geometry(rng, ndim, nmax, cls)
            base = {"p1": p1, "p2": p2, "n": n, "nvdim": int(rng.choice([1, 2, 3])), "vseed": int(rng.integers(1 << 30)), "vpattern": "checker",
                    "subs": [], "fdtype": tfd[cnt % len(tfd)]}
            if all(float(v).is_integer() and abs(v) < 2 ** 31 for v in p1 + p2):      # integer corner points are also handed over as integers
                base["geo"] = ["int", "npint64", "floatint", "int"][cnt % 4]
            if rep % 2:
                base["dims"] = ["x", "y", "z"][:ndim] if ndim <= 3 else ["x0", "x1", "x2", "x3"]
            yield "tie_resample", dict(base, seed=int(rng.integers(1 << 30)), ntargets={1: 64, 2: 48, 3: 32, 4: 20}[ndim] if quick else 96, nsub=4 if quick else 12)
            withsub = dict(base, subs=index_boxes(rng, n, int(rng.integers(1, 4)))) if rep % 2 == 0 else base
            for a in range(ndim):
                yield "tie_sel", dict(withsub, axis=a, seed=int(rng.integers(1 << 30)), cont=CONTAINERS[(cnt + a) % len(CONTAINERS)], npairs=24 if quick else 60)
            yield "tie_getitem", dict(withsub, seed=int(rng.integers(1 << 30)), nboxes=40 if quick else 120)
    # fixed exact configurations: thirds of 12 (4 -> 6, 4 -> 2), unit cells across zero halved, 6 -> 3 / 6 -> 4 below zero, a large offset, four dimensions
    fixed = [{"p1": [0, 0], "p2": [12, 4], "n": [4, 2], "geo": "int"}, {"p1": [-8, -4, -2], "p2": [8, 4, 2], "n": [8, 4, 2], "geo": "npint64"},
             {"p1": [-6.0], "p2": [0.0], "n": [6]}, {"p1": [-0.75], "p2": [0.75], "n": [6]}, {"p1": [1048576.5, -3.0], "p2": [1048582.5, 3.0], "n": [8, 6]},
             {"p1": [3.0, 1.0, 0.0, -1.0], "p2": [-3.0, -1.0, 4.0, 1.0], "n": [4, 2, 4, 2]}, {"p1": [-1073741824.0], "p2": [-1073741816.0], "n": [4]}]
    for i, fx in enumerate(fixed):
        base = dict({"nvdim": 1 + i % 3, "vseed": 11 + i, "vpattern": "checker", "subs": []}, **fx)
        yield "tie_resample", dict(base, seed=i, ntargets=40, nsub=4)
        for a in range(len(fx["n"])):
            yield "tie_sel", dict(base, axis=a, seed=i, cont=CONTAINERS[i % 3], npairs=24)
        yield "tie_getitem", dict(base, seed=i, nboxes=40)


# ------------------------------------------------------------------------------------------ checks
def check(kind, pr, ctx):
    src = Src(pr)
    if not src.hist_ok:         # the history could not be established as documented (the transformations are other properties' subject): nothing is claimed
        ctx.trivial()
        return
    if int(np.prod(src.n)) == 1:
        ctx.trivial()
    ag = Agg(ctx)
    {"sel_plane": check_sel_plane, "sel_range": check_sel_range, "getitem": check_getitem,
     "pad": check_pad, "resample": check_resample, "tie_resample": check_tie_resample, "tie_sel": check_tie_sel,
     "tie_getitem": check_tie_getitem}[kind](src, pr, ag)
    ag.flush()


def check_sel_plane(src, pr, ag):
    a = pr["axis"]
    rng = np.random.default_rng(pr["seed"])
    f, n, dim = src.field, int(src.n[a]), src.dims[a]
    coords = [None, float(src.pmin[a]), float(src.pmax[a])]
    coords += [src.centre(a, k) for k in range(n)] + [src.vertex(a, k) for k in range(1, n)]
    coords += [float(src.pmin[a] + u * (src.pmax[a] - src.pmin[a])) for u in rng.uniform(0, 1, 4)]
    others = [j for j in range(src.ndim) if j != a]
    ctype = pr.get("ctype", "float")
    for x0 in coords:
        if x0 is None:
            x, xx = None, float(0.5 * (src.pmin[a] + src.pmax[a]))
        else:
            x, xx = as_ctype(x0, ctype, src.inside(a))      # x: what the library gets; xx: the same number as a double
        cand = src.cands(a, xx)
        call = (lambda: f.sel(dim)) if x is None else (lambda: f.sel(**{dim: x}))
        r, res = raises(Exception, call)
        if not ag.req(not r, "C07.sel_plane", "plane selection inside the region raised", coord=x, coord_type=type(x).__name__, axis=a, error=err(r, res)):
            continue

        def sig_for(got):
            # an np.float32 coordinate on integer corner points is cut to an integer before the cell lookup (reported separately)
            if isinstance(x, np.float32) and src.geo_int and got and set(got) <= src.cands(a, float(np.trunc(xx))):
                return TRUNC_F32
            return None
        if src.ndim == 1:
            got = [k for k in range(n) if isinstance(res, np.ndarray) and np.array_equal(res, src.array[k])]
            ok = bool(got) and set(got) <= cand
            ag.req(ok, "C07.sel_plane", "1-d plane selection does not return the value of the containing cell", sig=None if ok else sig_for(got),
                   coord=x, coord_type=type(x).__name__, got=res, taken_from_cells=got, cells=sorted(cand))
            continue
        got = [k for k in range(n) if np.array_equal(res.array, np.take(src.array, k, axis=a)) and np.array_equal(res.valid, np.take(src.valid, k, axis=a))]
        ok = bool(got) and set(got) <= cand and res.valid.dtype == bool
        ag.req(ok, "C07.sel_plane", "value/validity not those of the cell containing the coordinate", sig=None if ok else sig_for(got),
               coord=x, coord_type=type(x).__name__, axis=a, taken_from_cells=got, cells=sorted(cand), pmin=src.pmin[a], cell=src.cell[a])
        m = res.mesh
        rm, mm = raises(Exception, (lambda: src.mesh.sel(dim)) if x is None else (lambda: src.mesh.sel(**{dim: x})))
        geo = (m.region.ndim == src.ndim - 1 and np.array_equal(m.n, src.n[others])
               and ulp_close(m.region.pmin, src.pmin[others], 16, src.scale[others]) and ulp_close(m.region.pmax, src.pmax[others], 16, src.scale[others])
               and tuple(m.region.dims) == tuple(src.dims[j] for j in others) and tuple(m.region.units) == tuple(src.units[j] for j in others))
        ag.req(geo, "C07.sel_plane_mesh", "plane selection changed the other axes", coord=x, axis=a, n=m.n, dims=m.region.dims, units=m.region.units)
        ag.req(not rm and mm == m and mm.region.units == m.region.units, "C07.sel_plane_mesh", "Mesh.sel and Field.sel disagree", coord=x, axis=a)
        ag.req(meta_ok(src, res, [src.dims[j] for j in others], [src.units[j] for j in others]), "C07.metadata", "metadata lost in plane selection", axis=a)
        maps, al = lattice_maps(src, m.region.pmin, m.region.pmax, m.n, others)
        want = [np.arange(src.n[j]) for j in others]
        okp = al and all(np.array_equal(x_, y_) for x_, y_ in zip(maps, want))
        ag.req(okp, "C07.same_point", "cell centres of the plane do not coincide with the source's cell centres", axis=a, coord=x)
    # outside
    ext = src.pmax[a] - src.pmin[a]
    outs = [float(src.pmin[a] - 0.01 * ext - 4 * np.spacing(src.scale[a])), float(src.pmax[a] + 0.01 * ext + 4 * np.spacing(src.scale[a])), float(src.pmax[a] + 3 * ext)]
    if src.geo_int:     # less than one unit outside integer corner points (a cut-off coordinate would be inside), and whole units outside
        outs += [float(src.pmin[a] - 0.5), float(src.pmax[a] + 0.25), float(src.pmin[a] - 1), float(src.pmax[a] + 2)]
    for x0 in outs:
        x, _ = as_ctype(x0, ctype, lambda v: not src.inside(a)(v))
        ag.req(rej(lambda: f.sel(**{dim: x})) and rej(lambda: src.mesh.sel(**{dim: x})),
               "C07.reject_outside", "plane coordinate outside the region accepted", coord=x, coord_type=type(x).__name__, axis=a)
    ag.req(rej(lambda: f.sel("nope")) and rej(lambda: f.sel(nope=float(src.pmin[a]))),
           "C07.reject_outside", "unknown axis accepted")


def touching_subregion(src, a, klo, khi):
    return any(hi[a] == klo or lo[a] == khi + 1 for lo, hi in src.boxes)


def check_sel_range(src, pr, ag):
    a = pr["axis"]
    rng = np.random.default_rng(pr["seed"])
    f, n, dim = src.field, int(src.n[a]), src.dims[a]
    others = [j for j in range(src.ndim) if j != a]
    reqs = []
    for klo in range(n):
        for khi in range(klo, n):
            reqs.append((src.centre(a, klo), src.centre(a, khi), "centres"))
            reqs.append((src.vertex(a, klo), src.vertex(a, khi + 1) if khi + 1 < n else float(src.pmax[a]), "faces"))
            reqs.append((src.vertex(a, klo) if klo else float(src.pmin[a]), src.centre(a, khi), "face-centre"))
            u, v = rng.uniform(0.1, 0.9, 2)
            reqs.append((float(src.pmin[a] + (klo + u) * src.cell[a]), float(src.pmin[a] + (khi + v) * src.cell[a]), "inside"))
    ctype, cont = pr.get("ctype", "float"), pr.get("cont", "tuple")
    for lo0, hi0, how in reqs:
        lo0, hi0 = min(lo0, hi0), max(lo0, hi0)
        (plo, lo), (phi, hi) = as_ctype(lo0, ctype, src.inside(a)), as_ctype(hi0, ctype, src.inside(a))   # p..: what the library gets; lo/hi the same numbers as doubles
        if lo > hi:         # (float32 rounding of two nearly equal bounds)
            (plo, lo), (phi, hi) = (lo0, lo0), (hi0, hi0)
        clo, chi = src.cands(a, lo), src.cands(a, hi)
        for order in ((plo, phi), (phi, plo)):
            order = {"tuple": tuple, "list": list, "array": np.array}[cont](order)
            types = "%s of %s" % (type(order).__name__, "/".join(sorted({type(v).__name__ for v in order})))
            r, res = raises(Exception, lambda: f.sel(**{dim: order}))
            if r:
                # which index range was requested (for the signature): any candidate pair touching a subregion from outside?
                touch = any(touching_subregion(src, a, i, j) for i in clo for j in chi if i <= j)
                divided = isinstance(res, ValueError) and "cannot be divided" in str(res)
                sig = "sel-range-raises-when-subregion-touches-the-range" if (touch and divided) else None
                if sig is None and divided and src.geo_int and any(isinstance(v, np.float32) for v in order):
                    # np.float32 bounds cut to integers select other cells (reported separately); those may touch a subregion where the requested ones do not
                    tlo, thi = src.cands(a, float(np.trunc(lo))), src.cands(a, float(np.trunc(hi)))
                    if (tlo, thi) != (clo, chi) and any(touching_subregion(src, a, i, j) for i in tlo for j in thi if i <= j):
                        sig = TRUNC_F32
                ag.req(False, "C07.sel_range", "range selection inside the region raised", sig=sig, bounds=list(order), how=how, axis=a, error=repr(res)[:160],
                       subregion_boxes=src.boxes, types=types)
                continue
            ag.req(True, "C07.sel_range")
            m = res.mesh
            full = (m.region.ndim == src.ndim and tuple(m.region.dims) == src.dims)
            if not ag.req(full and meta_ok(src, res, src.dims, src.units), "C07.metadata", "metadata lost in range selection", axis=a):
                continue
            maps, al = lattice_maps(src, m.region.pmin, m.region.pmax, m.n, list(range(src.ndim)))
            ka = maps[a]
            contiguous = len(ka) >= 1 and np.array_equal(ka, np.arange(ka[0], ka[0] + len(ka)))
            okk = contiguous and int(ka[0]) in clo and int(ka[-1]) in chi
            sig = None
            if not okk and contiguous and src.geo_int and any(isinstance(v, np.float32) for v in order) \
                    and int(ka[0]) in src.cands(a, float(np.trunc(lo))) and int(ka[-1]) in src.cands(a, float(np.trunc(hi))):
                sig = TRUNC_F32     # np.float32 bounds on integer corner points are cut to integers before the cell lookup (reported separately)
            ag.req(okk, "C07.sel_range", "kept cells are not those from the cell containing the lower to the cell containing the upper bound", sig=sig,
                   bounds=list(order), types=types, how=how, axis=a, kept=[int(ka[0]), int(ka[-1])] if len(ka) else [], want_lo=sorted(clo), want_hi=sorted(chi),
                   pmin=src.pmin[a], cell=src.cell[a])
            oth = all(np.array_equal(maps[j], np.arange(src.n[j])) for j in others) and np.array_equal(m.n[others], src.n[others])
            ag.req(al and oth and same_cell(src, m, range(src.ndim)), "C07.sel_range_mesh", "selected mesh not cell-aligned with the source / other axes changed",
                   bounds=list(order), axis=a, cell=m.cell, want_cell=src.cell)
            rm, mm = raises(Exception, lambda: src.mesh.sel(**{dim: order}))
            ag.req(not rm and mm == m, "C07.sel_range_mesh", "Mesh.sel and Field.sel disagree", bounds=list(order), axis=a)
            inr = all(np.all((mp >= 0) & (mp < src.n[j])) for j, mp in enumerate(maps))
            okv = inr and res.array.shape == (*[len(mp) for mp in maps], src.nvdim) and np.array_equal(res.array, src.array[np.ix_(*maps)]) \
                and np.array_equal(res.valid, src.valid[np.ix_(*maps)]) and res.valid.dtype == bool
            ag.req(okv, "C07.same_point", "value/validity differ from the source's at the same cell centre", bounds=list(order), axis=a)
    ext = src.pmax[a] - src.pmin[a]
    inside = src.centre(a, 0)
    bads = [(float(src.pmin[a] - 0.01 * ext - 4 * np.spacing(src.scale[a])), inside), (inside, float(src.pmax[a] + 0.01 * ext + 4 * np.spacing(src.scale[a]))),
            (float(src.pmax[a] + 2 * ext), float(src.pmax[a] + 3 * ext))]
    if src.geo_int:     # less than one unit outside integer corner points
        bads += [(float(src.pmin[a] - 0.5), inside), (inside, float(src.pmax[a] + 0.25)), (float(src.pmin[a] - 1), float(src.pmax[a]))]
    for bad in bads:
        bad = tuple(as_ctype(v, ctype, (lambda w: src.inside(a)(w) == src.inside(a)(v)))[0] for v in bad)
        ag.req(rej(lambda: f.sel(**{dim: bad})) and rej(lambda: src.mesh.sel(**{dim: bad[::-1]})),
               "C07.reject_outside", "range reaching outside the region accepted", bounds=list(bad), axis=a)


def check_getitem(src, pr, ag):
    rng = np.random.default_rng(pr["seed"])
    f, nd = src.field, src.ndim
    allax = list(range(nd))

    def data_ok(res, lo, hi):
        sl = tuple(slice(int(l), int(h)) for l, h in zip(lo, hi))
        return res.array.shape == (*(np.array(hi) - np.array(lo)), src.nvdim) and np.array_equal(res.array, src.array[sl]) \
            and np.array_equal(res.valid, src.valid[sl]) and res.valid.dtype == bool

    # ---- by name
    for i, (lo, hi) in enumerate(src.boxes):
        name = "r%d" % i
        r, res = raises(Exception, lambda: f[name])
        if not ag.req(not r, "C07.getitem_named", "field['name'] raised", name=name, error=err(r, res)):
            continue
        sub = src.mesh.subregions[name]
        ag.req(res.mesh.region == sub and np.array_equal(res.mesh.n, np.array(hi) - np.array(lo)) and same_cell(src, res.mesh, allax),
               "C07.getitem_named", "mesh of the named extraction is not the subregion with the parent's cells", name=name, n=res.mesh.n, box=[lo, hi])
        ag.req(data_ok(res, lo, hi), "C07.getitem_named", "values/validity of the named extraction differ from the source's cells", name=name)
        ag.req(meta_ok(src, res, src.dims, src.units), "C07.metadata", "metadata lost in named extraction", name=name)
        maps, al = lattice_maps(src, res.mesh.region.pmin, res.mesh.region.pmax, res.mesh.n, allax)
        ag.req(al and all(np.array_equal(mp, np.arange(l, h)) for mp, l, h in zip(maps, lo, hi)), "C07.same_point",
               "cell centres of the named extraction do not map to the subregion's source cells", name=name)
        rs, sl = raises(Exception, lambda: src.mesh.region2slices(sub))
        ag.req(not rs and tuple(sl) == tuple(slice(int(l), int(h)) for l, h in zip(lo, hi)), "C07.region2slices", "slices of a subregion are not its index box",
               name=name, got=repr(sl), box=[lo, hi])
    ag.req(rej(lambda: f["no_such_subregion"], (KeyError,)), "C07.reject_outside", "unknown subregion name accepted")

    # ---- aligned boxes
    if nd == 1:
        boxes = [[[l], [h]] for l in range(src.n[0]) for h in range(l + 1, src.n[0] + 1)]
    else:
        boxes = [[[0] * nd, src.n.tolist()]]
        for _ in range(pr["nboxes"]):
            lo = [int(rng.integers(0, k)) for k in src.n]
            boxes.append([lo, [int(rng.integers(l + 1, k + 1)) for l, k in zip(lo, src.n)]])
    for lo, hi in boxes:
        a_ = src.pmin + np.array(lo) * src.cell
        b_ = np.where(np.array(hi) == src.n, src.pmax, src.pmin + np.array(hi) * src.cell)
        flip = rng.integers(0, 2, nd).astype(bool)
        reg = df.Region(p1=src.corner(np.where(flip, b_, a_)), p2=src.corner(np.where(flip, a_, b_)))      # integer corners on integer geometries where integral
        r, res = raises(Exception, lambda: f[reg])
        if r:
            # the same unrounded ceil() that adds a cell layer inside the mesh runs out of range for a box ending on the upper boundary
            sig = "aligned-box-on-upper-boundary-raises-IndexError" if (isinstance(res, IndexError) and bool(np.any(np.array(hi) == src.n))) else None
            ag.req(False, "C07.getitem_region", "field[aligned box] raised", sig=sig, box=[lo, hi], error=repr(res)[:160], mesh_pmin=src.pmin, mesh_pmax=src.pmax, n=src.n)
            continue
        ag.req(True, "C07.getitem_region")
        maps, al = lattice_maps(src, res.mesh.region.pmin, res.mesh.region.pmax, res.mesh.n, allax)
        glo, ghi = [int(mp[0]) for mp in maps], [int(mp[-1]) + 1 for mp in maps]
        exact = glo == list(lo) and ghi == list(hi)
        near = all(l - 1 <= g <= l for g, l in zip(glo, lo)) and all(h <= g <= h + 1 for g, h in zip(ghi, hi))
        ag.req(exact, "C07.getitem_region", "block extracted for a cell-aligned box is not the box itself",
               sig="aligned-box-gets-extra-cell-layer" if near else None, box=[lo, hi], got=[glo, ghi], p1=a_, p2=b_, mesh_pmin=src.pmin, cell=src.cell)
        rm, mm = raises(Exception, lambda: src.mesh[reg])
        ag.req(not rm and mm == res.mesh, "C07.getitem_region", "mesh[region] differs from field[region].mesh", box=[lo, hi])
        inr = all(0 <= g and h <= k for g, h, k in zip(glo, ghi, src.n))
        ag.req(al and inr and same_cell(src, res.mesh, allax) and data_ok(res, glo, ghi), "C07.same_point",
               "values/validity of field[region] differ from the source's at the same cell centres", box=[lo, hi], got=[glo, ghi])
        ag.req(meta_ok(src, res, src.dims, src.units), "C07.metadata", "metadata lost in field[region]")
        rs, sl = raises(Exception, lambda: src.mesh.region2slices(reg))
        oks = not rs and tuple(sl) == tuple(slice(int(l), int(h)) for l, h in zip(lo, hi))
        ag.req(oks, "C07.region2slices", "slices of a cell-aligned region are not its index box", box=[lo, hi], got=repr(sl))
        if oks and exact:
            ag.req(np.array_equal(src.field.array[tuple(sl)], res.array) and np.array_equal(src.field.valid[tuple(sl)], res.valid), "C07.region2slices",
                   "array[region2slices(region)] differs from field[region]", box=[lo, hi])

    # ---- arbitrary boxes: corners clearly inside cells
    def check_box(reg, lo, hi, a_, b_):
        r, res = raises(Exception, lambda: f[reg])
        if not ag.req(not r, "C07.getitem_region", "field[arbitrary box] raised", lo=lo, hi=hi, p1=a_, p2=b_, error=err(r, res)):
            return
        maps, al = lattice_maps(src, res.mesh.region.pmin, res.mesh.region.pmax, res.mesh.n, allax)
        glo, ghi = [int(mp[0]) for mp in maps], [int(mp[-1]) for mp in maps]
        ag.req(glo == lo.tolist() and ghi == hi.tolist(), "C07.getitem_region", "not the smallest block of whole cells containing the box",
               want=[lo, hi], got=[glo, ghi], p1=a_, p2=b_, corner_dtype=str(reg.pmin.dtype))
        ag.req(al and same_cell(src, res.mesh, allax) and data_ok(res, glo, np.array(ghi) + 1), "C07.same_point",
               "values/validity of field[box] differ from the source's at the same cell centres", want=[lo, hi], got=[glo, ghi])
        rm, mm = raises(Exception, lambda: src.mesh[reg])
        ag.req(not rm and mm == res.mesh, "C07.getitem_region", "mesh[region] differs from field[region].mesh")

    for _ in range(pr["nboxes"]):
        lo = np.array([int(rng.integers(0, k)) for k in src.n])
        hi = np.array([int(rng.integers(l, k)) for l, k in zip(lo, src.n)])     # index of the last cell (inclusive)
        a_ = src.pmin + (lo + rng.uniform(0.05, 0.95, nd)) * src.cell
        b_ = src.pmin + (hi + rng.uniform(0.05, 0.95, nd)) * src.cell
        same = (lo == hi) & (b_ <= a_)
        b_ = np.where(same, a_ + 0.01 * src.cell, b_)
        check_box(df.Region(p1=tuple(b_), p2=tuple(a_), dims=src.dims), lo, hi, a_, b_)

    # ---- integer geometries: boxes with INTEGER corners that are not cell-aligned (axes with a fractional cell: integers clearly inside the
    #      first / last cell; axes with an integral cell: the faces, exact in integer arithmetic)
    for _ in range(pr["nboxes"] if src.geo_int else 0):
        lo = np.array([int(rng.integers(0, k)) for k in src.n])
        hi = np.array([int(rng.integers(l, k)) for l, k in zip(lo, src.n)])
        a_, b_ = [], []
        for j in range(nd):
            c, p0 = float(src.cell[j]), float(src.pmin[j])
            if c.is_integer():
                a_.append(p0 + lo[j] * c)
                b_.append(p0 + (hi[j] + 1) * c)
                continue
            inner = lambda k: [v for v in range(int(np.ceil(p0 + k * c)), int(np.floor(p0 + (k + 1) * c)) + 1) if 0.02 < (v - p0) / c - k < 0.98]
            ca, cb = inner(int(lo[j])), inner(int(hi[j]))
            pairs = [(u, v) for u in ca for v in cb if u < v]
            if not pairs:
                break
            u, v = pairs[int(rng.integers(len(pairs)))]
            a_.append(float(u))
            b_.append(float(v))
        if len(a_) < nd:
            continue
        check_box(df.Region(p1=src.corner(b_), p2=src.corner(a_), dims=src.dims), lo, hi, np.array(a_), np.array(b_))

    # ---- outside
    ext = src.pmax - src.pmin
    for a in range(nd):
        for side in (-1, 1):
            p1, p2 = src.pmin + 0.25 * ext, src.pmin + 0.75 * ext
            if side < 0:
                p1[a] = src.pmin[a] - 0.3 * ext[a]
            else:
                p2[a] = src.pmax[a] + 0.3 * ext[a]
            reg = df.Region(p1=tuple(p1), p2=tuple(p2))
            ag.req(rej(lambda: f[reg]) and rej(lambda: src.mesh[reg]), "C07.reject_outside",
                   "region sticking out of the mesh accepted by [region]", axis=a, side=side)
            # region2slices: a cell-aligned box sticking out by one whole cell
            q1, q2 = src.pmin.copy(), src.pmax.copy()
            if side < 0:
                q1[a], q2[a] = src.pmin[a] - src.cell[a], src.pmin[a] + src.cell[a]
            else:
                q1[a], q2[a] = src.pmax[a] - src.cell[a], src.pmax[a] + src.cell[a]
            reg2 = df.Region(p1=src.corner(q1), p2=src.corner(q2))
            ag.req(rej(lambda: src.mesh.region2slices(reg2)), "C07.reject_outside", "aligned box sticking out by one cell accepted by region2slices", axis=a, side=side)
    far = df.Region(p1=tuple(src.pmax + 2 * ext), p2=tuple(src.pmax + 3 * ext))
    ag.req(rej(lambda: f[far]), "C07.reject_outside", "far-away region accepted")


# ---- own 1-d padding semantics
def lexkey(z):
    return (z.real, z.imag) if isinstance(z, (complex, np.complexfloating)) else z


def pad1d(vec, lo, hi, mode, const):
    n = len(vec)
    out = []
    for i in range(-lo, n + hi):
        if 0 <= i < n:
            out.append(vec[i])
        elif mode == "constant":
            out.append(const)
        elif mode == "edge":
            out.append(vec[0] if i < 0 else vec[n - 1])
        elif mode == "wrap":
            out.append(vec[i % n])
        elif mode == "symmetric":
            m = i % (2 * n)
            out.append(vec[m] if m < n else vec[2 * n - 1 - m])
        elif mode == "reflect":
            if n == 1:
                out.append(vec[0])
            else:
                m = i % (2 * n - 2)
                out.append(vec[m] if m < n else vec[2 * n - 2 - m])
        elif mode == "maximum":
            out.append(max(vec, key=lexkey))
        elif mode == "minimum":
            out.append(min(vec, key=lexkey))
        else:
            raise KeyError(mode)
    return np.array(out, dtype=np.asarray(vec).dtype)


def pad_oracle(arr, widths, mode, const):
    for ax, (lo, hi) in enumerate(widths):
        if lo or hi:
            arr = np.apply_along_axis(pad1d, ax, arr, lo, hi, mode, const)
    return arr


def check_pad(src, pr, ag):
    rng = np.random.default_rng(pr["seed"])
    f, nd, mode = src.field, src.ndim, pr["mode"]
    const = pr.get("const")
    for it in range(pr["nwidths"]):
        widths = []
        for a in range(nd):
            n = int(src.n[a])
            pool = [0, 1, 2, n, n + 1]
            widths.append((int(rng.choice(pool)), int(rng.choice(pool))) if (it == 0 or rng.random() < 0.7) else None)
        if all(w is None for w in widths):
            widths[int(rng.integers(nd))] = (1, 2)
        pw = {src.dims[a]: w for a, w in enumerate(widths) if w is not None}
        full = [w if w is not None else (0, 0) for w in widths]
        kw = {} if const is None else {"constant_values": const}
        r, res = raises(Exception, lambda: f.pad(pw, mode=mode, **kw))
        if not ag.req(not r, "C07.pad_values", "pad raised", pad_width=pw, mode=mode, error=err(r, res)):
            continue
        m = res.mesh
        lo, hi = np.array([w[0] for w in full]), np.array([w[1] for w in full])
        sc = np.maximum(src.scale, np.maximum(np.abs(src.pmin - lo * src.cell), np.abs(src.pmax + hi * src.cell)))
        geo = (np.array_equal(m.n, src.n + lo + hi) and ulp_close(m.region.pmin, src.pmin - lo * src.cell, 16, sc)
               and ulp_close(m.region.pmax, src.pmax + hi * src.cell, 16, sc) and same_cell(src, m, range(nd)))
        same_untouched = all(m.region.pmin[a] == src.pmin[a] and m.region.pmax[a] == src.pmax[a] for a in range(nd) if full[a] == (0, 0))
        ag.req(geo and same_untouched, "C07.pad_mesh", "padded mesh does not have the requested cells per side", pad_width=pw, n=m.n, pmin=m.region.pmin, pmax=m.region.pmax)
        rm, mm = raises(Exception, lambda: src.mesh.pad(pw))
        ag.req(not rm and mm == m, "C07.pad_mesh", "Mesh.pad and Field.pad meshes differ", pad_width=pw)
        ag.req(meta_ok(src, res, src.dims, src.units), "C07.metadata", "metadata lost in pad")
        maps, al = lattice_maps(src, m.region.pmin, m.region.pmax, m.n, list(range(nd)))
        okm = al and all(np.array_equal(mp, np.arange(-l, k + h)) for mp, l, h, k in zip(maps, lo, hi, src.n))
        ag.req(okm, "C07.same_point", "cell centres of the padded mesh are not on the source lattice at offset -lo", pad_width=pw)
        cval = 0.0 if const is None else const
        want = pad_oracle(src.array, full + [(0, 0)], mode, cval)
        wantv = pad_oracle(src.valid, full, mode, bool(cval))
        inner = tuple(slice(int(l), int(l + k)) for l, k in zip(lo, src.n))
        ag.req(res.array.shape == want.shape and np.array_equal(res.array[inner], src.array) and np.array_equal(res.valid[inner], src.valid),
               "C07.pad_values", "source cells moved or changed by padding", pad_width=pw, mode=mode)
        ag.req(res.array.shape == want.shape and np.array_equal(res.array, want), "C07.pad_values", "padding cells do not follow the mode (values)", pad_width=pw, mode=mode,
               got=res.array[..., 0], want=want[..., 0])
        ag.req(res.valid.shape == wantv.shape and res.valid.dtype == bool and np.array_equal(res.valid, wantv), "C07.pad_values",
               "padding cells do not follow the mode (validity)", pad_width=pw, mode=mode, got=res.valid, want=wantv)
    ag.req(rej(lambda: f.pad({"nope": (1, 1)}, mode=mode)), "C07.reject_outside", "unknown axis accepted by pad")


def check_resample(src, pr, ag):
    rng = np.random.default_rng(pr["seed"])
    f, nd = src.field, src.ndim
    if 8 ** nd <= pr["ntargets"]:
        targets = list(itertools.product(range(1, 9), repeat=nd))
    else:
        targets = {tuple(int(k) for k in rng.integers(1, 9, nd)) for _ in range(pr["ntargets"])}
        targets |= {tuple(src.n.tolist()), tuple([1] * nd), tuple([8] * nd), tuple(int(2 * k) if 2 * k <= 8 else int(k) for k in src.n),
                    tuple(max(1, int(k) // 2) for k in src.n)}
        targets = sorted(targets)
    for tn in targets:
        r, res = raises(Exception, lambda: f.resample(tn))
        if not ag.req(not r, "C07.resample", "resample raised", n=tn, error=err(r, res)):
            continue
        ag.req(res.mesh.region == src.mesh.region and np.array_equal(res.mesh.region.pmin, src.pmin) and np.array_equal(res.mesh.region.pmax, src.pmax)
               and np.array_equal(res.mesh.n, tn) and res.array.shape == (*tn, src.nvdim) and res.valid.shape == tuple(tn) and res.valid.dtype == bool,
               "C07.resample", "resampled field does not keep the region / requested n", n=tn, got_n=res.mesh.n)
        ag.req(meta_ok(src, res, src.dims, src.units), "C07.metadata", "metadata lost in resample", n=tn)
        # nearest source cell(s) of every new centre, per axis
        cand = []
        for a in range(nd):
            c = src.pmin[a] + (np.arange(tn[a]) + 0.5) * ((src.pmax[a] - src.pmin[a]) / tn[a])
            q = (c - src.pmin[a]) / src.cell[a] - 0.5          # in units of source cells, relative to the centre of cell 0
            near = np.clip(np.round(q), 0, src.n[a] - 1).astype(int)
            fl = np.floor(q)
            tie = np.abs(q - fl - 0.5) <= 16 * np.spacing(src.scale[a]) / src.cell[a] + 16 * np.spacing(np.maximum(np.abs(q), 1.0))
            cand.append([({int(np.clip(fl[j], 0, src.n[a] - 1)), int(np.clip(fl[j] + 1, 0, src.n[a] - 1))} if tie[j] else {int(near[j])}) for j in range(tn[a])])
        # find the source cell from the (unique) value
        sidx = src.locate(res.array[..., 0])
        okr = sidx is not None
        bad = None if okr else "a value that no source cell holds"
        if okr:
            okr = np.array_equal(res.array, src.array[sidx]) and np.array_equal(res.valid, src.valid[sidx])
            if not okr:
                bad = "value and validity not from one source cell"
            for a in range(nd):
                for j in range(tn[a]):
                    got = set(np.unique(np.take(sidx[a], j, axis=a)).tolist())
                    if not (len(got) == 1 and got <= cand[a][j]):
                        okr = False
                        bad = {"axis": a, "new_cell": j, "source_cells": sorted(got), "nearest": sorted(cand[a][j])}
        ag.req(okr, "C07.resample", "a resampled cell does not hold value and validity of the nearest source cell", n=tn, src_n=src.n, detail=bad)
    ag.req(rej(lambda: f.resample(tuple([2] * (nd + 1))), (ValueError, TypeError)), "C07.reject_outside", "resample with wrong number of axes accepted")


# ------------------------------------------------------------------------------------------ exact ties (dyadic / integer geometry, no tolerance anywhere)
def pick(rng, lst, k):
    return list(lst) if len(lst) <= k else [lst[i] for i in sorted(rng.choice(len(lst), int(k), replace=False).tolist())]


def as_given(src, x, how):
    """an exact coordinate (a double) in the scalar type under test: Python float, np.float64, or - where integral - int / np.int64"""
    x = float(x)
    if how in ("int", "npint64") and x.is_integer() and abs(x) < 2 ** 62:
        return int(x) if how == "int" else np.int64(int(x))
    return np.float64(x) if how in ("np64", "npint64") else x


def first_difference(src, res_array, res_valid, want, wantv):
    """first result cell whose value or validity is not the expected one, with the source cell its value really comes from"""
    d = np.argwhere(np.any(res_array != want, axis=-1) | (res_valid != wantv))
    j = tuple(int(v) for v in d[0])
    origin = src.locate(np.array([res_array[j][0]]))
    return j, (None if origin is None else [int(ix[0]) for ix in origin]), len(d)


def check_tie_resample(src, pr, ag):
    ex = exact_src(src)
    if ex is None:              # (not an exact geometry: nothing is claimed here)
        ag.ctx.trivial()
        return
    lo, hi, cell = ex
    rng = np.random.default_rng(pr["seed"])
    f, nd = src.field, src.ndim
    # per axis and exact target resolution t: source cell of every new centre, whether the centre lies exactly on a source face, the centre as a double
    per = []
    for a in range(nd):
        d = {}
        for t in range(1, 9):
            if not exact_div(lo[a], hi[a], t):
                continue
            pts = [lo[a] + (hi[a] - lo[a]) * Fr(2 * j + 1, 2 * t) for j in range(t)]
            d[t] = (np.array([cell_of(p, lo[a], cell[a], src.n[a]) for p in pts]), [((p - lo[a]) / cell[a]).denominator == 1 for p in pts], [float(p) for p in pts])
        per.append(d)
    combos = list(itertools.product(*[sorted(d) for d in per]))
    tied = [c for c in combos if any(any(per[a][t][1]) for a, t in enumerate(c))]
    tset = set(tied)
    plain = [c for c in combos if c not in tset]
    nt = int(pr["ntargets"])
    targets = pick(rng, tied, max(1, (3 * nt) // 4)) + pick(rng, plain, max(1, nt // 4))
    nties = 0
    for tn in targets:
        r, res = raises(Exception, lambda: f.resample(tn))
        if not ag.req(not r, "C07.resample_point", "resample raised", n=tn, error=err(r, res)):
            continue
        maps = [per[a][t][0] for a, t in enumerate(tn)]
        nties += sum(sum(per[a][t][1]) for a, t in enumerate(tn))
        want, wantv = src.array[np.ix_(*maps)], src.valid[np.ix_(*maps)]
        shape_ok = res.array.shape == want.shape and res.valid.shape == wantv.shape and res.valid.dtype == bool \
            and np.array_equal(res.mesh.region.pmin, src.pmin) and np.array_equal(res.mesh.region.pmax, src.pmax) and np.array_equal(res.mesh.n, tn)
        if not ag.req(shape_ok, "C07.resample_point", "resampled field does not keep the region / requested n", n=tn, got_n=res.mesh.n):
            continue
        ok = np.array_equal(res.array, want) and np.array_equal(res.valid, wantv)
        if ok:
            ag.req(True, "C07.resample_point")
            continue
        j, origin, cnt = first_difference(src, res.array, res.valid, want, wantv)
        ag.req(False, "C07.resample_point", "a resampled cell does not hold value and validity of the source cell containing its centre",
               n=tn, src_n=src.n, new_cell=list(j), centre=[per[a][t][2][j[a]] for a, t in enumerate(tn)],
               centre_on_source_face=[bool(per[a][t][1][j[a]]) for a, t in enumerate(tn)], containing_cell=[int(maps[a][j[a]]) for a in range(nd)],
               value_taken_from_cell=origin, value=res.array[j], want_value=want[j], valid=bool(res.valid[j]), want_valid=bool(wantv[j]), cells_wrong=cnt,
               pmin=src.pmin, cell=[float(c) for c in cell])
    if nd == 1 and len(per[0]) > 1 and src.n[0] % 2 == 0 and nties == 0:
        ag.req(False, "C07.resample_point", "checker: an even cell count with exact targets must have produced centres on faces")
    # ---- the same lookup onto a mesh over part of the region: sub-boxes with corners on the source's half-cell lattice, exact cell counts (values; a new
    #      field's validity is its own)
    for _ in range(int(pr.get("nsub", 0))):
        c1, c2, n2, maps, onface, ctr = [], [], [], [], [], []
        for a in range(nd):
            u = int(rng.integers(0, 2 * src.n[a]))
            v = int(rng.integers(u + 1, 2 * src.n[a] + 1))
            a_, b_ = lo[a] + u * cell[a] / 2, lo[a] + v * cell[a] / 2
            ts = [t for t in range(1, 9) if exact_div(a_, b_, t)]
            good = [t for t in ts if any((((a_ + (b_ - a_) * Fr(2 * j + 1, 2 * t)) - lo[a]) / cell[a]).denominator == 1 for j in range(t))]
            t = int(rng.choice(good if good and rng.random() < 0.8 else ts))
            pts = [a_ + (b_ - a_) * Fr(2 * j + 1, 2 * t) for j in range(t)]
            c1.append(float(a_))
            c2.append(float(b_))
            n2.append(t)
            maps.append(np.array([cell_of(p, lo[a], cell[a], src.n[a]) for p in pts]))
            onface.append([((p - lo[a]) / cell[a]).denominator == 1 for p in pts])
            ctr.append([float(p) for p in pts])
        r, g = raises(Exception, lambda: df.Field(df.Mesh(region=df.Region(p1=src.corner(c1), p2=src.corner(c2), dims=src.dims, units=src.units), n=tuple(n2)),
                                                  nvdim=src.nvdim, value=f, dtype=f.array.dtype))
        if not ag.req(not r, "C07.resample_point", "Field(mesh over a sub-box of the region, value=field) raised", p1=c1, p2=c2, n=n2, error=err(r, g)):
            continue
        want = src.array[np.ix_(*maps)]
        if g.array.shape == want.shape and np.array_equal(g.array, want):
            ag.req(True, "C07.resample_point")
            continue
        if g.array.shape != want.shape:
            ag.req(False, "C07.resample_point", "field on a sub-box mesh has the wrong shape", p1=c1, p2=c2, n=n2, shape=g.array.shape)
            continue
        j, origin, cnt = first_difference(src, g.array, np.ones(want.shape[:-1], bool), want, np.ones(want.shape[:-1], bool))
        ag.req(False, "C07.resample_point", "Field(mesh over a sub-box, value=field): a cell does not hold the value of the source cell containing its centre",
               p1=c1, p2=c2, n=n2, new_cell=list(j), centre=[ctr[a][j[a]] for a in range(nd)], centre_on_source_face=[bool(onface[a][j[a]]) for a in range(nd)],
               containing_cell=[int(maps[a][j[a]]) for a in range(nd)], value_taken_from_cell=origin, cells_wrong=cnt, pmin=src.pmin, cell=[float(c) for c in cell])
    # ---- the library's own point lookup on the same points (faces, region boundary, centres of source and resampled cells), one axis at a time
    first = [float(lo[b] + cell[b] / 2) for b in range(nd)]
    hows = ["float", "int", "np64", "npint64"]
    for a in range(nd):
        pts = {lo[a] + k * cell[a] / 2 for k in range(2 * int(src.n[a]) + 1)}
        for t in per[a]:
            pts |= {lo[a] + (hi[a] - lo[a]) * Fr(2 * j + 1, 2 * t) for j in range(t)}
        for i, p in enumerate(sorted(pts)):
            k = cell_of(p, lo[a], cell[a], src.n[a])
            point = [as_given(src, v, "float") for v in first]
            point[a] = as_given(src, float(p), hows[i % 4] if src.geo_int else hows[2 * (i % 2)])
            idx = tuple(k if b == a else 0 for b in range(nd))
            r1, got = raises(Exception, lambda: src.mesh.point2index(tuple(point)))
            r2, val = raises(Exception, lambda: f(tuple(point)))
            ag.req(not r1 and tuple(got) == idx and not r2 and np.array_equal(np.asarray(val), src.array[idx]), "C07.point_convention",
                   "point2index / field(point) do not give the half-open cell containing the point", axis=a, coordinate=float(p), point=[float(v) for v in point],
                   on_face=((p - lo[a]) / cell[a]).denominator == 1, want_cell=list(idx), got=repr(got)[:80], value=repr(val)[:80], want_value=src.array[idx])


def check_tie_sel(src, pr, ag):
    ex = exact_src(src)
    if ex is None:
        ag.ctx.trivial()
        return
    lo, hi, cell = ex
    a = pr["axis"]
    rng = np.random.default_rng(pr["seed"])
    f, nd, n, dim = src.field, src.ndim, int(src.n[a]), src.dims[a]
    others = [j for j in range(nd) if j != a]
    step = 4 if exact_div(lo[a], hi[a], 2 * n) else 2           # quarter points of the cells where they are exact, else faces and centres
    pos = list(range(0, step * n + 1))                         # positions in units of cell/step from pmin; position % step == 0: a face
    coord = lambda u: float(lo[a] + u * cell[a] / step)
    cellof = lambda u: min(u // step, n - 1)
    hows = ["float", "np64", "int", "npint64"]
    cont = {"tuple": tuple, "list": list, "array": np.array}[pr.get("cont", "tuple")]
    # ---- planes
    for i, u in enumerate(pos):
        x = as_given(src, coord(u), hows[i % 4])
        k = cellof(u)
        r, res = raises(Exception, lambda: f.sel(**{dim: x}))
        info = dict(coord=float(x), coord_type=type(x).__name__, axis=a, on_face=u % step == 0, want_cell=k, pmin=src.pmin[a], cell=float(cell[a]))
        if not ag.req(not r, "C07.sel_exact", "plane selection inside the region raised", error=err(r, res), **info):
            continue
        if nd == 1:
            got = [q for q in range(n) if isinstance(res, np.ndarray) and np.array_equal(res, src.array[q])]
            ag.req(got == [k], "C07.sel_exact", "1-d plane selection does not return the value of the cell containing the coordinate", taken_from_cells=got, **info)
            continue
        got = [q for q in range(n) if np.array_equal(res.array, np.take(src.array, q, axis=a)) and np.array_equal(res.valid, np.take(src.valid, q, axis=a))]
        ag.req(got == [k] and res.valid.dtype == bool, "C07.sel_exact", "plane: value / validity not those of the cell containing the coordinate", taken_from_cells=got, **info)
        m = res.mesh
        rm, mm = raises(Exception, lambda: src.mesh.sel(**{dim: x})) if u % step == 0 else (False, m)
        ag.req(np.array_equal(m.n, src.n[others]) and np.array_equal(m.region.pmin, src.pmin[others]) and np.array_equal(m.region.pmax, src.pmax[others])
               and tuple(m.region.dims) == tuple(src.dims[j] for j in others) and not rm and mm == m, "C07.sel_exact",
               "plane: the other axes are not exactly the source's / Mesh.sel differs", **info)
    # ---- ranges: all pairs of faces, sampled pairs with centres / quarter points
    faces = [u for u in pos if u % step == 0]
    npairs = int(pr.get("npairs", 16))
    pairs = [(u, v) for u in faces for v in faces if u <= v]
    keep = [(faces[0], faces[0]), (faces[0], faces[-1]), (faces[-1], faces[-1]), (faces[len(faces) // 2], faces[-1])]      # region boundary as a bound
    pairs = keep + pick(rng, [q for q in pairs if q not in keep], npairs)
    rest = [(u, v) for u in pos for v in pos if u <= v and (u % step or v % step)]
    pairs += pick(rng, rest, npairs // 2)
    for i, (u, v) in enumerate(pairs):
        klo, khi = cellof(u), cellof(v)
        b = [as_given(src, coord(u), hows[i % 4]), as_given(src, coord(v), hows[(i // 4) % 4])]
        order = cont(b if i % 2 == 0 else b[::-1])
        info = dict(bounds=[float(q) for q in order], types="%s of %s" % (type(order).__name__, "/".join(sorted({type(q).__name__ for q in order}))), axis=a,
                    lower_on_face=u % step == 0, upper_on_face=v % step == 0, want_cells=[klo, khi], pmin=src.pmin[a], cell=float(cell[a]), subregion_boxes=src.boxes)
        r, res = raises(Exception, lambda: f.sel(**{dim: order}))
        if not ag.req(not r, "C07.sel_exact", "range selection inside the region raised", error=err(r, res), **info):
            continue
        m = res.mesh
        sl = tuple(slice(klo, khi + 1) if j == a else slice(None) for j in range(nd))
        want_min, want_max = src.pmin.astype(float).copy(), src.pmax.astype(float).copy()
        want_min[a], want_max[a] = float(lo[a] + klo * cell[a]), float(lo[a] + (khi + 1) * cell[a])
        okm = m.region.ndim == nd and np.array_equal(m.n, [khi + 1 - klo if j == a else src.n[j] for j in range(nd)]) \
            and np.array_equal(m.region.pmin, want_min) and np.array_equal(m.region.pmax, want_max) and tuple(m.region.dims) == tuple(src.dims)
        ag.req(okm, "C07.sel_exact", "range: kept cells are not exactly those from the cell containing the lower to the cell containing the upper bound",
               got_n=m.n, got_pmin=m.region.pmin, got_pmax=m.region.pmax, want_pmin=want_min, want_pmax=want_max, **info)
        okv = res.array.shape == src.array[sl].shape and np.array_equal(res.array, src.array[sl]) and np.array_equal(res.valid, src.valid[sl]) and res.valid.dtype == bool
        ag.req(okv, "C07.sel_exact", "range: values / validity are not those of the cells containing the bounds and the cells between them", **info)
        rm, mm = raises(Exception, lambda: src.mesh.sel(**{dim: order}))
        ag.req(not rm and mm == m, "C07.sel_exact", "range: Mesh.sel and Field.sel disagree", **info)
    # ---- a quarter of a cell outside (exact)
    for x in (float(lo[a] - cell[a] / 4), float(hi[a] + cell[a] / 4)):
        if Fr(x) in (lo[a] - cell[a] / 4, hi[a] + cell[a] / 4):
            ag.req(rej(lambda: f.sel(**{dim: x})) and rej(lambda: src.mesh.sel(**{dim: (x, float(lo[a] + cell[a] / 2))})), "C07.reject_outside",
                   "coordinate a quarter of a cell outside the region accepted", coord=x, axis=a)


def check_tie_getitem(src, pr, ag):
    ex = exact_src(src)
    if ex is None:
        ag.ctx.trivial()
        return
    lo, hi, cell = ex
    rng = np.random.default_rng(pr["seed"])
    f, nd = src.field, src.ndim
    step = [4 if exact_div(lo[a], hi[a], 2 * int(src.n[a])) else 2 for a in range(nd)]

    def axis_pairs(a):
        """(u, v), u < v, in units of cell/step from pmin: bounds on faces / the region boundary preferred"""
        top = step[a] * int(src.n[a])
        allp = [(u, v) for u in range(top + 1) for v in range(u + 1, top + 1)]
        return allp, [(u, v) for u, v in allp if u % step[a] == 0 or v % step[a] == 0]

    if nd == 1:
        allp, facep = axis_pairs(0)
        both = [q for q in facep if q[0] % step[0] == 0 and q[1] % step[0] == 0]
        nb = int(pr["nboxes"])
        boxes = [[q] for q in both] + [[q] for q in pick(rng, [q for q in facep if q not in set(both)], 2 * nb) + pick(rng, [q for q in allp if q not in set(facep)], nb // 2)]
    else:
        per = [axis_pairs(a) for a in range(nd)]
        boxes = [[(0, step[a] * int(src.n[a])) for a in range(nd)]]
        for _ in range(int(pr["nboxes"])):
            box = []
            for a in range(nd):
                allp, facep = per[a]
                w = rng.random()
                if w < 0.25:            # both bounds on faces
                    both = [q for q in facep if q[0] % step[a] == 0 and q[1] % step[a] == 0]
                    box.append(both[int(rng.integers(len(both)))])
                elif w < 0.8:
                    box.append(facep[int(rng.integers(len(facep)))])
                else:
                    box.append(allp[int(rng.integers(len(allp)))])
            boxes.append(box)
    for box in boxes:
        a_ = [lo[a] + u * cell[a] / step[a] for a, (u, v) in enumerate(box)]
        b_ = [lo[a] + v * cell[a] / step[a] for a, (u, v) in enumerate(box)]
        klo = [u // step[a] for a, (u, v) in enumerate(box)]                       # floor
        khi = [(v + step[a] - 1) // step[a] - 1 for a, (u, v) in enumerate(box)]   # ceil - 1 (inclusive)
        aligned = all(u % step[a] == 0 and v % step[a] == 0 for a, (u, v) in enumerate(box))
        flip = rng.integers(0, 2, nd).astype(bool)
        fa, fb = np.array([float(q) for q in a_]), np.array([float(q) for q in b_])
        reg = df.Region(p1=src.corner(np.where(flip, fb, fa)), p2=src.corner(np.where(flip, fa, fb)), dims=src.dims)
        info = dict(p1=fa, p2=fb, lower_on_face=[u % step[a] == 0 for a, (u, v) in enumerate(box)], upper_on_face=[v % step[a] == 0 for a, (u, v) in enumerate(box)],
                    want_cells=[klo, khi], mesh_pmin=src.pmin, mesh_pmax=src.pmax, n=src.n, corner_dtype=str(reg.pmin.dtype))
        r, res = raises(Exception, lambda: f[reg])
        if not ag.req(not r, "C07.getitem_exact", "field[region inside the mesh region] raised", error=err(r, res), **info):
            continue
        m = res.mesh
        want_min = np.array([float(lo[a] + klo[a] * cell[a]) for a in range(nd)])
        want_max = np.array([float(lo[a] + (khi[a] + 1) * cell[a]) for a in range(nd)])
        okm = np.array_equal(m.n, np.array(khi) + 1 - np.array(klo)) and np.array_equal(m.region.pmin, want_min) and np.array_equal(m.region.pmax, want_max)
        ag.req(okm, "C07.getitem_exact", "not the smallest block of whole cells containing the region (floor .. ceil-1 per axis)",
               got_n=m.n, got_pmin=m.region.pmin, got_pmax=m.region.pmax, want_pmin=want_min, want_pmax=want_max, **info)
        sl = tuple(slice(l, h + 1) for l, h in zip(klo, khi))
        okv = res.array.shape == src.array[sl].shape and np.array_equal(res.array, src.array[sl]) and np.array_equal(res.valid, src.valid[sl]) and res.valid.dtype == bool
        ag.req(okv, "C07.getitem_exact", "values / validity of field[region] are not those of the block's source cells", **info)
        rm, mm = raises(Exception, lambda: src.mesh[reg])
        ag.req(not rm and mm == m, "C07.getitem_exact", "mesh[region] differs from field[region].mesh", **info)
        if aligned:
            rs, got = raises(Exception, lambda: src.mesh.region2slices(reg))
            oks = not rs and tuple(got) == sl
            ag.req(oks, "C07.getitem_exact", "region2slices of a box with all bounds on cell faces is not its index box", got=repr(got)[:160], **info)
            if oks and okm:
                ag.req(np.array_equal(f.array[tuple(got)], res.array) and np.array_equal(f.valid[tuple(got)], res.valid), "C07.getitem_exact",
                       "array[region2slices(region)] differs from field[region]", **info)
    # ---- a quarter of a cell outside (exact): rejected
    for a in range(nd):
        for side in (-1, 1):
            p1, p2 = [float(v) for v in lo], [float(v) for v in hi]
            out = lo[a] - cell[a] / 4 if side < 0 else hi[a] + cell[a] / 4
            if Fr(float(out)) != out:
                continue
            if side < 0:
                p1[a] = float(out)
            else:
                p2[a] = float(out)
            reg = df.Region(p1=tuple(p1), p2=tuple(p2), dims=src.dims)
            ag.req(rej(lambda: f[reg]) and rej(lambda: src.mesh[reg]), "C07.reject_outside", "region a quarter of a cell outside the mesh accepted", axis=a, side=side)
