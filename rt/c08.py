"""C08 bounded run-time tier: validity masks follow the data through every operation that keeps or maps cells.

For every public Field operation that returns a field on the same or a derived cell set the result's `valid` is compared with an
oracle computed here from the operands' masks (copy / AND / numpy slicing / per-index pad and source-cell maps), and - for the
cell-mapping operations - with the data itself: component 0 of the test fields is a marker (1.0 in valid cells, 0.0 in invalid
ones; for rotated vector fields the vector length 2 / 1), so "validity is transformed exactly as the data" is read off the result.
Independence: np.shares_memory(result.valid, operand.valid) must be False, and flipping result.valid in place / reassigning it must
leave the operand's validity bytes untouched.

Bounded: meshes of 1-4 dimensions with <= 6 cells per axis, 1-4 components, seeded masks (all/none/single/random)."""
import itertools
import os
import tempfile
import warnings
import numpy as np
import discretisedfield as df
from .common import raises, rand_region

PROPERTY = "C08"
CLAUSES = {
    "C08.unary": "-f, +f, abs(f), f.norm, f.orientation, f.<component>, real/imag/conjugate/phase/abs, diff/grad/div/curl/laplace return the operand's validity",
    "C08.binary": "f(op)g for + - * / **, dot, cross, angle, << between two fields returns valid_f AND valid_g",
    "C08.const_operand": "f(op)c and c(op)f with a number / tuple / list constant (and dot/cross/angle/<< with a constant) return the field's validity",
    "C08.ufunc": "numpy ufuncs on fields (np.sin(f), np.add(f,g), ndarray*f) keep the operand's validity / the AND of both",
    "C08.sel": "sel(point) / sel(range) / f[region] / f[subregion]: valid is the same slice of the operand's valid as the data (marker component == valid)",
    "C08.pad": "pad: valid is padded like the data: constant -> new cells invalid, edge/wrap/reflect/symmetric -> validity of the source cell",
    "C08.resample": "resample: each new cell has the validity of a source cell containing its centre, the same cell the data came from",
    "C08.rotate90": "rotate90 (copy and in place): valid is np.rot90 of the operand's valid about the same axes, and agrees with the rotated data marker",
    "C08.io": "HDF5 and VTK files store the mask (read back with h5py / vtk directly) and from_file returns it, consistent with the data marker",
    "C08.compose": "a chain of operations yields the chain of mask transformations",
    "C08.form": "the validity of every result is a numpy bool array of the result's mesh shape n",
    "C08.own": "result.valid does not share memory with an operand's valid; flipping it in place or reassigning it leaves the operand's valid bytes unchanged",
    "C08.setter": "setting valid (constructor or setter) with a bool/int/float array of shape n or (*n,1), a nested list, a callable of the cell centre, True/False/None: bool dtype, shape n, value-for-value; stored field values unchanged",
    "C08.setter_norm": "valid='norm' marks exactly the cells with |v| > 1e-8 (bool, shape n), stored field values unchanged",
}
RULE = ("per mesh dimension 1-4 x nvdim 1-4 x dtype {float,int,complex}: seeded region (random; exact power-of-two geometry for selection/padding/"
        "chains), random n <= 6, mask pattern in {all, none, single hole, single valid, random}, periodic or open boundaries for derivatives; "
        "every listed operator evaluated on every such field; kinds unary, binary, map (sel/getitem/pad/resample/rotate90), io, setter, compose; "
        "non-trivial = more than one cell; distinct by (kind, params)")
ASSUMPTIONS = ["bounded: <= 6 cells per axis, <= 4 dimensions, <= 4 components, seeded masks and data",
               "numpy (np.rot90, slicing), h5py and the vtk readers are trusted",
               "mean/integrate/fft/to_xarray are not covered: they do not return a field on the same or a sliced/padded/resampled/rotated cell set and the statement does not list them",
               "geometry errors raised by Mesh.sel / Mesh.__getitem__ themselves (C07/C14 territory) make a case trivial, they are not C08 violations"]

DT = {"float": float, "int": np.int64, "complex": complex}
SHARED = "valid-shared-with-operand"


# ------------------------------------------------------------------ builders
def exact_geom(rng, n):
    ndim = len(n)
    cell = [float(rng.integers(1, 6)) * 2.0 ** int(rng.integers(-24, 8)) for _ in range(ndim)]
    k = [int(rng.integers(-6, 7)) for _ in range(ndim)]
    return {"p1": [k[j] * cell[j] for j in range(ndim)], "p2": [(k[j] + n[j]) * cell[j] for j in range(ndim)], "n": list(n)}


def rand_geom(rng, n):
    p1, p2 = rand_region(rng, len(n))
    return {"p1": p1, "p2": p2, "n": list(n)}


def rand_n(rng, ndim, tier, lo=1):
    hi = {1: 6, 2: 5, 3: 4, 4: 3}[ndim] + (0 if tier == "quick" else 1)
    n = [int(rng.integers(lo, hi + 1)) for _ in range(ndim)]
    if all(v == 1 for v in n):
        n[int(rng.integers(ndim))] = 3
    return n


def mask(seed, n):
    rng = np.random.default_rng(seed)
    n = tuple(n)
    mode = seed % 7
    if mode == 0:
        return np.ones(n, dtype=bool)
    if mode == 1:
        return np.zeros(n, dtype=bool)
    if mode in (2, 3):
        m = np.full(n, mode == 2)
        m[tuple(int(rng.integers(k)) for k in n)] = mode != 2
        return m
    return rng.uniform(size=n) < (0.25 + 0.15 * (mode - 3))


def values(seed, shape, dtype):
    rng = np.random.default_rng(seed)
    if dtype == "int":
        a = rng.integers(1, 9, size=shape) * rng.choice([-1, 1], size=shape)
        return a.astype(np.int64)
    if dtype == "complex":
        return rng.uniform(0.5, 3, size=shape) * np.exp(1j * rng.uniform(0, 6.28, size=shape))
    return rng.uniform(0.5, 3, size=shape) * rng.choice([-1.0, 1.0], size=shape)


class Geo:
    def __init__(self, g):
        self.p1, self.p2 = np.array(g["p1"], dtype=float), np.array(g["p2"], dtype=float)
        self.n = [int(k) for k in g["n"]]
        self.ndim = len(self.n)
        self.pmin, self.pmax = np.minimum(self.p1, self.p2), np.maximum(self.p1, self.p2)
        self.cell = (self.pmax - self.pmin) / np.array(self.n)
        self.scale = np.maximum(np.abs(self.pmin), np.abs(self.pmax))
        self.bc = g.get("bc", "")
        self.subs = g.get("subs") or []

    def corner(self, k):
        return self.pmin + np.array(k) * self.cell

    def mesh(self):
        subs = {name: df.Region(p1=tuple(self.corner(lo)), p2=tuple(self.corner(hi))) for name, lo, hi in self.subs}
        return df.Mesh(p1=tuple(self.p1), p2=tuple(self.p2), n=tuple(self.n), bc=self.bc, subregions=subs)

    def centre(self, idx):
        return self.pmin + (np.array(idx) + 0.5) * self.cell

    def index_of(self, p):
        return tuple(int(v) for v in np.clip(np.floor((np.asarray(p, dtype=float) - self.pmin) / self.cell), 0, np.array(self.n) - 1))

    def candidates(self, p, eps=1e-6):
        q = (np.asarray(p, dtype=float) - self.pmin) / self.cell
        out = []
        for j in range(self.ndim):
            k0 = int(np.floor(q[j]))
            c = {k0}
            if q[j] - k0 < eps:
                c.add(k0 - 1)
            if k0 + 1 - q[j] < eps:
                c.add(k0 + 1)
            out.append(sorted({min(max(k, 0), self.n[j] - 1) for k in c}))
        return list(itertools.product(*out))


def make_field(mesh, geo, nvdim, dtype, seed, marker=None, vdims=None, m=None):
    """field with arbitrary non-zero data and validity mask(seed); marker='c0': component 0 is 1/0 = valid/invalid;
    marker='len': vector length 2/1"""
    m = mask(seed + 1, geo.n) if m is None else m
    a = values(seed, (*geo.n, nvdim), dtype)
    if marker == "c0":
        a[..., 0] = m.astype(a.dtype)
    elif marker == "len":
        a = a / np.sqrt(np.sum(np.abs(a) ** 2, axis=-1, keepdims=True)) * np.where(m, 2.0, 1.0)[..., None]
    kw = {} if vdims is None else {"vdims": list(vdims)}
    f = df.Field(mesh, nvdim=nvdim, value=a.copy(), dtype=a.dtype, valid=m.copy(), **kw)
    return f, a, m


# ------------------------------------------------------------------ the common result checks
def form_ok(r):
    v = r.valid
    return isinstance(v, np.ndarray) and v.dtype == np.bool_ and v.shape == tuple(int(k) for k in r.mesh.n)


def same_mask(v, want):
    v = np.asarray(v)
    return v.shape == np.shape(want) and bool(np.array_equal(v.astype(bool), want))


class Operand:
    """an operand field together with a private copy of its validity"""

    def __init__(self, f):
        self.f = f
        self.snap = np.array(f.valid, copy=True)
        self.bytes = (self.snap.tobytes(), str(f.valid.dtype), f.valid.shape)

    def intact(self):
        v = self.f.valid
        return (v.tobytes(), str(v.dtype), v.shape) == self.bytes

    def restore(self):
        self.f.valid = self.snap.copy()


def check_result(ctx, clause, name, r, want, operands, sig_prefix=""):
    """value clause + form + ownership for one result"""
    ok = isinstance(r, df.Field) and same_mask(r.valid, want)
    ctx.require(ok, clause, "%s: result validity differs from the oracle" % name, sig=sig_prefix or (name + "-valid-wrong"),
                got=getattr(r, "valid", None), want=want)
    if not isinstance(r, df.Field):
        return
    sigf = "valid-not-bool:" + name if isinstance(r.valid, np.ndarray) and r.valid.dtype != np.bool_ else "form:" + name
    ctx.require(form_ok(r), "C08.form", "%s: result validity is not a bool array of the mesh shape" % name, sig=sigf,
                dtype=str(getattr(r.valid, "dtype", type(r.valid))), shape=getattr(r.valid, "shape", None), n=list(r.mesh.n))
    check_own(ctx, name, r, operands)


def check_own(ctx, name, r, operands):
    same_obj = any(r is o.f for o in operands)
    shared = any(np.shares_memory(r.valid, o.f.valid) for o in operands)
    sig = "pos-returns-self" if (same_obj and name.startswith("pos")) else SHARED
    ctx.require(not shared, "C08.own", "%s: result.valid shares memory with an operand's valid" % name, sig=sig, op=name)
    # change the result's validity afterwards: in place, then by assignment
    v = r.valid
    changed = False
    if isinstance(v, np.ndarray) and v.flags.writeable and v.size:
        try:
            v[...] = ~v.astype(bool)
            changed = True
        except Exception:
            pass
    ok1 = all(o.intact() for o in operands)
    for o in operands:
        if not o.intact():
            o.restore()
    if not same_obj:
        r.valid = not bool(np.asarray(v).flat[0]) if v.size else True
    ok2 = same_obj or all(o.intact() for o in operands)
    for o in operands:
        if not o.intact():
            o.restore()
    ctx.require(ok1 and ok2, "C08.own", "%s: changing result.valid afterwards changed an operand's valid" % name,
                sig=sig if not (ok1 and ok2) and shared else "operand-valid-changed:" + name, op=name, in_place=not ok1, by_assignment=not ok2)


# ------------------------------------------------------------------ cases
def cases(ctx):
    rng = ctx.rng
    quick = ctx.tier == "quick"
    reps = 4 if quick else 30

    def base(ndim, geomf, lo=1):
        nvdim = int(rng.integers(1, 5))
        return {"geom": geomf(rng, rand_n(rng, ndim, ctx.tier, lo)), "nvdim": nvdim, "dtype": ["float", "float", "int", "complex"][int(rng.integers(4))],
                "seed": int(rng.integers(1 << 30)), "custom": bool(rng.integers(3) == 0)}

    for ndim in (1, 2, 3, 4):
        for _ in range(reps):
            for nv in (1, ndim if ndim > 1 else 2, None):
                pr = base(ndim, rand_geom)
                if nv is not None:
                    pr["nvdim"] = nv
                if nv == ndim:
                    pr["custom"] = False       # div / curl need the default mapping
                pr["geom"]["bc"] = "".join(d for d in (["x", "y", "z"][:ndim] if ndim <= 3 else []) if rng.integers(3) == 0)   # periodic axes are single-letter dims
                yield "unary", pr
            for pair in ("same", "same", "scalar_vector", "vector_scalar"):
                pr = base(ndim, rand_geom)
                if pair != "same":
                    pr["nvdim"] = int(rng.integers(2, 5))
                elif rng.integers(3) == 0:
                    pr["nvdim"] = 3
                pr["pair"] = pair
                yield "binary", pr
            # cell-mapping operations
            for op in ("sel_point", "sel_range", "getitem_region", "getitem_sub", "pad", "pad", "resample", "resample", "rotate", "rotate"):
                if ndim == 1 and op in ("rotate",):
                    continue
                geomf = exact_geom if (op in ("getitem_sub", "getitem_region") or rng.integers(2)) else rand_geom
                pr = base(ndim, geomf)
                n = pr["geom"]["n"]
                pr["op"] = op
                ax = int(rng.integers(ndim))
                pr["axis"] = ax
                if op == "sel_point":
                    pr["k"] = int(rng.integers(n[ax]))
                elif op == "sel_range":
                    k1 = int(rng.integers(n[ax]))
                    pr["k"] = [k1, int(rng.integers(k1, n[ax]))]
                elif op in ("getitem_region", "getitem_sub"):
                    lo = [int(rng.integers(0, k)) for k in n]
                    hi = [int(rng.integers(l + 1, k + 1)) for l, k in zip(lo, n)]
                    pr["lo"], pr["hi"] = lo, hi
                    if op == "getitem_sub":
                        pr["geom"]["subs"] = [["other", [0] * ndim, list(n)], ["part", lo, hi]] if rng.integers(2) else [["part", lo, hi]]
                elif op == "pad":
                    pr["mode"] = ["constant", "edge", "wrap", "reflect", "symmetric"][int(rng.integers(5))]
                    axes = sorted(set(int(a) for a in rng.integers(ndim, size=int(rng.integers(1, 3)))))
                    pr["widths"] = [[a, int(rng.integers(0, 3)), int(rng.integers(0, 3))] for a in axes]
                elif op == "resample":
                    style = int(rng.integers(3))
                    if style == 0:
                        pr["new_n"] = [int(k * rng.integers(1, 4)) for k in n]
                    elif style == 1:
                        pr["new_n"] = [max(1, k // int(rng.integers(1, 3))) for k in n]
                    else:
                        pr["new_n"] = [int(rng.integers(1, 8)) for _ in n]
                elif op == "rotate":
                    a1, a2 = [int(v) for v in rng.permutation(ndim)[:2]]
                    pr["axes"] = [a1, a2]
                    pr["k"] = int([1, 2, 3, -1, 4, 5][int(rng.integers(6))])
                    pr["inplace"] = bool(rng.integers(2))
                    pr["nvdim"] = [1, ndim][int(rng.integers(2))] if ndim in (2, 3) else 1
                    pr["custom"] = False
                yield "map", pr
            # files
            for fmt in ("hdf5", "vtk-bin", "vtk-txt", "vtk-xml"):
                if fmt != "hdf5" and ndim != 3:
                    continue
                pr = base(ndim, rand_geom)
                if fmt != "hdf5" and pr["dtype"] == "complex":
                    pr["dtype"] = "float"
                pr["fmt"] = fmt
                yield "io", pr
            # setter
            for spec in ("bool_array", "bool_array_n1", "int_array", "float_array", "list", "callable", "callable_py", "true", "false", "none", "one", "zero", "norm", "norm"):
                pr = base(ndim, rand_geom)
                pr["spec"] = spec
                pr["via"] = ["ctor", "setter"][int(rng.integers(2))]
                yield "setter", pr
            # compositions
            for _k in range(3):
                pr = base(ndim, exact_geom, lo=2)
                pr["nvdim"] = int(rng.integers(1, 4))
                pr["custom"] = False
                chain = []
                for _s in range(int(rng.integers(2, 5))):
                    chain.append(["neg", "abs", "mul2", "add_self", "add_other", "norm", "sel_range", "pad", "getitem", "refine", "real", "diff", "dot_self", "comp0"][int(rng.integers(14))])
                pr["chain"] = chain
                yield "compose", pr


# ------------------------------------------------------------------ check
KIND_CLAUSE = {"unary": "C08.unary", "binary": "C08.binary", "map": "C08.sel", "io": "C08.io", "setter": "C08.setter", "compose": "C08.compose"}


def check(kind, pr, ctx):
    with warnings.catch_warnings():
        warnings.simplefilter("ignore")
        with np.errstate(all="ignore"):
            try:
                _check(kind, pr, ctx)
            except Exception as e:      # an exception raised inside the library on a path the checker did not expect to fail
                if not _from_library(e):
                    raise
                ctx.require(False, KIND_CLAUSE[kind], "the library raised unexpectedly while the case was set up / evaluated",
                            sig="unexpected-library-exception:%s" % type(e).__name__, error=repr(e)[:300])


def _from_library(e):
    tb = e.__traceback__
    last = None
    while tb is not None:
        last = tb.tb_frame.f_code.co_filename
        if os.sep + "discretisedfield" + os.sep in last:
            return True
        tb = tb.tb_next
    return False


def labels(nvdim, custom):
    if not custom or nvdim == 1:
        return None
    return ["a", "b", "c", "d"][:nvdim]


def _check(kind, pr, ctx):
    geo = Geo(pr["geom"])
    if int(np.prod(geo.n)) == 1:
        ctx.trivial()
    r, mesh = raises(ValueError, geo.mesh)
    if r:
        ctx.trivial()
        return
    {"unary": check_unary, "binary": check_binary, "map": check_map, "io": check_io, "setter": check_setter, "compose": check_compose}[kind](pr, ctx, geo, mesh)


def run(ctx, clause, name, fn, want, operands, sig_prefix=""):
    rx, r = raises(Exception, fn)
    if rx:
        ctx.require(False, clause, "%s raised %s" % (name, type(r).__name__), sig="%s-raises-%s" % (name, type(r).__name__), error=repr(r)[:200])
        for o in operands:
            if not o.intact():
                o.restore()
        return None
    check_result(ctx, clause, name, r, want, operands, sig_prefix)
    return r


def check_unary(pr, ctx, geo, mesh):
    nvdim, dtype, seed = pr["nvdim"], pr["dtype"], pr["seed"]
    f, a, m = make_field(mesh, geo, nvdim, dtype, seed, vdims=labels(nvdim, pr["custom"]))
    o = Operand(f)
    ops = [("neg", lambda: -f), ("pos", lambda: +f), ("norm", lambda: f.norm), ("real", lambda: f.real), ("imag", lambda: f.imag),
           ("conjugate", lambda: f.conjugate), ("phase", lambda: f.phase), ("abs_property", lambda: f.abs)]
    if not (pr["custom"] and nvdim > 1):
        ops.append(("abs", lambda: abs(f)))      # abs(f) with custom labels raises (a C03 matter)
    if nvdim > 1:
        if dtype != "int":     # orientation of an integer field raises inside np.divide (cannot be stored as int): a value matter, no result to look at
            ops.append(("orientation", lambda: f.orientation))
        for lab in f.vdims:
            ops.append(("component", lambda lab=lab: getattr(f, lab)))
    dims = list(mesh.region.dims)
    for d in dims:
        for order in (1, 2):
            ops.append(("diff", lambda d=d, order=order: f.diff(d, order=order, restrict2valid=bool((seed + order) % 2))))
    ops.append(("laplace", lambda: f.laplace))
    if nvdim == 1:
        ops.append(("grad", lambda: f.grad))
    if nvdim == geo.ndim and nvdim > 1 and not pr["custom"]:
        ops.append(("div", lambda: f.div))
    if nvdim == 3 and geo.ndim == 3 and not pr["custom"]:
        ops.append(("curl", lambda: f.curl))
    for name, fn in ops:
        run(ctx, "C08.unary", name, fn, m, [o])
    for name, fn in (("ufunc_sin", lambda: np.sin(f)), ("ufunc_negative", lambda: np.negative(f)), ("ufunc_absolute", lambda: np.absolute(f))):
        run(ctx, "C08.ufunc", name, fn, m, [o], sig_prefix="ufunc-drops-valid" if not m.all() else "")
    ctx.require(np.array_equal(f.array, a), "C08.unary", "operand data changed", sig="operand-data-changed")


def check_binary(pr, ctx, geo, mesh):
    nvdim, dtype, seed, pair = pr["nvdim"], pr["dtype"], pr["seed"], pr["pair"]
    nf, ng = {"same": (nvdim, nvdim), "scalar_vector": (1, nvdim), "vector_scalar": (nvdim, 1)}[pair]
    f, a, mf = make_field(mesh, geo, nf, dtype, seed)
    g, b, mg = make_field(mesh, geo, ng, ["float", "int", "complex"][seed % 3] if dtype != "int" else "float", seed + 50)
    of, og = Operand(f), Operand(g)
    both = mf & mg
    ops = [("add", lambda: f + g), ("sub", lambda: f - g), ("mul", lambda: f * g), ("div", lambda: f / g), ("pow", lambda: f ** g),
           ("stack", lambda: f << g)]
    if nf == ng:
        ops += [("dot", lambda: f.dot(g)), ("matmul", lambda: f @ g)]
        if dtype != "complex" and seed % 3 != 2:
            ops.append(("angle", lambda: f.angle(g)))
        if nf == 3:
            ops += [("cross", lambda: f.cross(g)), ("and", lambda: f & g)]
    for name, fn in ops:
        run(ctx, "C08.binary", name, fn, both, [of, og])
    for name, fn in (("ufunc_add", lambda: np.add(f, g)), ("ufunc_multiply", lambda: np.multiply(f, g))):
        run(ctx, "C08.ufunc", name, fn, both, [of, og], sig_prefix="ufunc-drops-valid" if not both.all() else "")
    # constants
    vec = values(seed + 9, (nf,), "float")
    consts = [("num", 2.5), ("tuple", tuple(vec.tolist())), ("list", vec.tolist())]
    cops = []
    for cname, c in consts:
        if True:
            cops += [("add_" + cname, lambda c=c: f + c), ("radd_" + cname, lambda c=c: c + f), ("mul_" + cname, lambda c=c: f * c), ("rmul_" + cname, lambda c=c: c * f),
                     ("sub_" + cname, lambda c=c: f - c), ("rsub_" + cname, lambda c=c: c - f), ("div_" + cname, lambda c=c: f / c), ("rdiv_" + cname, lambda c=c: c / f),
                     ("pow_" + cname, lambda c=c: f ** c)]
    cops += [("dot_vec", lambda: f.dot(tuple(vec.tolist()))), ("stack_num", lambda: f << 1.5), ("rstack_num", lambda: 1.5 << f)]
    if dtype != "complex":
        cops.append(("angle_vec", lambda: f.angle(tuple(vec.tolist()))))
    if nf == 3:
        cops += [("cross_vec", lambda: f.cross(vec.tolist())), ("rand_vec", lambda: vec.tolist() & f)]
    for name, fn in cops:
        run(ctx, "C08.const_operand", name, fn, mf, [of])
    arr = values(seed + 10, (*geo.n, nf), "float")
    run(ctx, "C08.const_operand", "mul_ndarray", lambda: f * arr, mf, [of])
    run(ctx, "C08.ufunc", "ndarray_times_field", lambda: arr * f, mf, [of], sig_prefix="ufunc-drops-valid" if not mf.all() else "")
    ctx.require(np.array_equal(f.array, a) and np.array_equal(g.array, b), "C08.binary", "operand data changed", sig="operand-data-changed")


# ---- index maps of numpy.pad modes along one axis (source index of padded index j, None = new constant cell)
def pad_source(j, lo, n, mode):
    t = j - lo
    if 0 <= t < n:
        return t
    if mode == "constant":
        return None
    if mode == "edge":
        return min(max(t, 0), n - 1)
    if mode == "wrap":
        return t % n
    if mode == "reflect":
        if n == 1:
            return 0
        t = t % (2 * n - 2)
        return t if t < n else 2 * n - 2 - t
    if mode == "symmetric":
        t = t % (2 * n)
        return t if t < n else 2 * n - 1 - t
    raise AssertionError(mode)


def pad_mask(m, widths, mode):
    n = list(m.shape)
    new_n = list(n)
    lo = [0] * len(n)
    for a, l, h in widths:
        new_n[a] += l + h
        lo[a] = l
    out = np.zeros(new_n, dtype=bool)
    for idx in itertools.product(*[range(k) for k in new_n]):
        src = [pad_source(idx[a], lo[a], n[a], mode) for a in range(len(n))]
        out[idx] = False if any(s is None for s in src) else m[tuple(src)]
    return out


def marker_ok(r, kind="c0"):
    if kind == "c0":
        return same_mask(r.valid, np.real(r.array[..., 0]) == 1)
    return same_mask(r.valid, np.sqrt(np.sum(np.abs(r.array) ** 2, axis=-1)) > 1.5)


def check_map(pr, ctx, geo, mesh):
    nvdim, dtype, seed, op = pr["nvdim"], pr["dtype"], pr["seed"], pr["op"]
    ndim = geo.ndim
    dims = list(mesh.region.dims)
    marker = "c0"
    if op == "rotate" and nvdim > 1:
        marker, dtype = "len", "float"
    f, a, m = make_field(mesh, geo, nvdim, dtype, seed, marker=marker, vdims=labels(nvdim, pr["custom"]))
    o = Operand(f)
    ax = pr["axis"]
    clause = {"sel_point": "C08.sel", "sel_range": "C08.sel", "getitem_region": "C08.sel", "getitem_sub": "C08.sel", "pad": "C08.pad", "resample": "C08.resample",
              "rotate": "C08.rotate90"}[op]
    geometry_errors = (ValueError,)
    if op == "sel_point":
        if ndim == 1:
            ctx.trivial()       # selecting a point of a 1-d field returns an array, not a field
            ctx.require(True, clause, "n/a")
            return
        k = pr["k"]
        want = np.take(m, k, axis=ax)
        fn = lambda: f.sel(**{dims[ax]: float(geo.centre([k] * ndim)[ax])})
    elif op == "sel_range":
        k1, k2 = pr["k"]
        want = m[tuple(slice(k1, k2 + 1) if j == ax else slice(None) for j in range(ndim))]
        c1, c2 = float(geo.centre([k1] * ndim)[ax]), float(geo.centre([k2] * ndim)[ax])
        fn = lambda: f.sel(**{dims[ax]: (c1, c2) if seed % 2 else (c2, c1)})
    elif op in ("getitem_region", "getitem_sub"):
        lo, hi = pr["lo"], pr["hi"]
        want = m[tuple(slice(l, h) for l, h in zip(lo, hi))]
        if op == "getitem_sub":
            fn = lambda: f["part"]
        else:       # a region whose corners lie inside the first / last selected cells: the minimal mesh containing it
            q1 = geo.pmin + (np.array(lo) + 0.25) * geo.cell
            q2 = geo.pmin + (np.array(hi) - 0.25) * geo.cell
            fn = lambda: f[df.Region(p1=tuple(q1), p2=tuple(q2))]
    elif op == "pad":
        widths, mode = pr["widths"], pr["mode"]
        want = pad_mask(m, widths, mode)
        fn = lambda: f.pad({dims[a]: (l, h) for a, l, h in widths}, mode=mode)
    elif op == "resample":
        new_n = pr["new_n"]
        want = None
        fn = lambda: f.resample(tuple(new_n))
    elif op == "rotate":
        a1, a2 = pr["axes"]
        want = np.rot90(m, k=pr["k"], axes=(a1, a2))
        if pr["inplace"]:
            return check_rotate_inplace(pr, ctx, geo, f, a, m, want, marker)
        fn = lambda: f.rotate90(dims[a1], dims[a2], k=pr["k"])
    rx, r = raises(Exception, fn)
    if rx and isinstance(r, geometry_errors) and op in ("sel_point", "sel_range", "getitem_region", "getitem_sub"):
        ctx.trivial()           # Mesh.sel / Mesh.__getitem__ refused the geometry: not a validity matter
        ctx.require(True, clause, "geometry refused by the mesh; skipped")
        return
    if rx:
        ctx.require(False, clause, "%s raised %s" % (op, type(r).__name__), sig="%s-raises-%s" % (op, type(r).__name__), error=repr(r)[:200])
        return
    if not isinstance(r, df.Field):
        ctx.require(False, clause, "%s did not return a field" % op, sig=op + "-no-field")
        return
    if op == "resample":
        ng = Geo({"p1": geo.pmin.tolist(), "p2": geo.pmax.tolist(), "n": pr["new_n"]})
        ok = r.valid.shape == tuple(ng.n)
        det = None
        if ok:
            for idx in itertools.product(*[range(k) for k in ng.n]):
                cand = geo.candidates(ng.centre(idx))
                if not any(bool(r.valid[idx]) == bool(m[c]) and np.array_equal(r.array[idx], a[c]) for c in cand):
                    ok, det = False, {"cell": list(idx), "source_cells": [list(c) for c in cand], "valid": bool(r.valid[idx]), "value": r.array[idx]}
                    break
        ctx.require(ok, clause, "resample: validity/data of a new cell do not come from one source cell containing its centre", sig="resample-valid-wrong", **(det or {}))
    else:
        ctx.require(same_mask(r.valid, want), clause, "%s: result validity differs from the oracle" % op, sig=op + "-valid-wrong", got=r.valid, want=want)
    ctx.require(marker_ok(r, marker), clause, "%s: validity is not transformed like the data (marker mismatch)" % op, sig=op + "-valid-not-like-data")
    sigf = "valid-not-bool:" + op if isinstance(r.valid, np.ndarray) and r.valid.dtype != np.bool_ else "form:" + op
    ctx.require(form_ok(r), "C08.form", "%s: result validity is not a bool array of the mesh shape" % op, sig=sigf, dtype=str(r.valid.dtype), shape=r.valid.shape, n=list(r.mesh.n))
    check_own(ctx, op, r, [o])
    ctx.require(np.array_equal(f.array, a), clause, "operand data changed", sig="operand-data-changed")


def check_rotate_inplace(pr, ctx, geo, f, a, m, want, marker):
    dims = list(f.mesh.region.dims)
    a1, a2 = pr["axes"]
    rx, r = raises(Exception, f.rotate90, dims[a1], dims[a2], k=pr["k"], inplace=True)
    if rx:
        ctx.require(False, "C08.rotate90", "in-place rotate90 raised %s" % type(r).__name__, sig="rotate-inplace-raises-%s" % type(r).__name__, error=repr(r)[:200])
        return
    ctx.require(r is f and same_mask(f.valid, want), "C08.rotate90", "in-place rotate90: validity differs from np.rot90 of the mask", sig="rotate-inplace-valid-wrong")
    ctx.require(marker_ok(f, marker), "C08.rotate90", "in-place rotate90: validity is not transformed like the data", sig="rotate-inplace-valid-not-like-data")
    ctx.require(form_ok(f), "C08.form", "in-place rotate90: validity is not a bool array of the mesh shape", sig="form:rotate-inplace",
                shape=f.valid.shape, n=list(f.mesh.n))
    ctx.require(True, "C08.own", "n/a (no second object)")


def check_io(pr, ctx, geo, mesh):
    nvdim, dtype, seed, fmt = pr["nvdim"], pr["dtype"], pr["seed"], pr["fmt"]
    f, a, m = make_field(mesh, geo, nvdim, dtype, seed, marker="c0", vdims=labels(nvdim, pr["custom"]))
    o = Operand(f)
    with tempfile.TemporaryDirectory(prefix="c08_") as d:
        if fmt == "hdf5":
            fn = os.path.join(d, "f.h5" if seed % 2 else "f.hdf5")
            rx, e = raises(Exception, f.to_file, fn)
        else:
            fn = os.path.join(d, "f.vtk")
            rx, e = raises(Exception, f.to_file, fn, representation=fmt.split("-")[1])
        if rx:
            ctx.require(False, "C08.io", "writing raised %s" % type(e).__name__, sig="write-raises:%s" % fmt, error=repr(e)[:200])
            return
        # the file itself
        if fmt == "hdf5":
            import h5py
            with h5py.File(fn, "r") as h:
                stored = np.array(h["field/valid"])
                sdt = stored.dtype
            ctx.require(stored.shape == m.shape and sdt == np.bool_ and np.array_equal(stored, m), "C08.io", "HDF5 dataset field/valid is not the mask", sig="hdf5-stored-mask")
        else:
            from vtkmodules.util import numpy_support as vns
            from vtkmodules.vtkIOLegacy import vtkRectilinearGridReader
            from vtkmodules.vtkIOXML import vtkXMLRectilinearGridReader
            reader = vtkXMLRectilinearGridReader() if fmt == "vtk-xml" else vtkRectilinearGridReader()
            if fmt != "vtk-xml":
                reader.ReadAllScalarsOn()
                reader.ReadAllVectorsOn()
            reader.SetFileName(fn)
            reader.Update()
            arr = reader.GetOutput().GetCellData().GetArray("valid")
            ok = arr is not None
            if ok:
                stored = vns.vtk_to_numpy(arr).reshape(*reversed(geo.n)).transpose((2, 1, 0))
                ok = np.array_equal(stored.astype(bool), m) and set(np.unique(stored).tolist()) <= {0, 1}
            ctx.require(ok, "C08.io", "VTK cell array 'valid' is not the mask", sig="vtk-stored-mask")
        rx, g = raises(Exception, df.Field.from_file, fn)
    if rx:
        ctx.require(False, "C08.io", "reading raised %s" % type(g).__name__, sig="read-raises:%s" % fmt, error=repr(g)[:200])
        return
    ctx.require(same_mask(g.valid, m), "C08.io", "round trip changed the validity", sig="roundtrip-valid-wrong:" + fmt)
    ctx.require(marker_ok(g), "C08.io", "round trip: validity no longer matches the data marker", sig="roundtrip-valid-not-like-data:" + fmt)
    sigf = "valid-not-bool:%s-roundtrip" % fmt.split("-")[0] if isinstance(g.valid, np.ndarray) and g.valid.dtype != np.bool_ else "form:" + fmt
    ctx.require(form_ok(g), "C08.form", "round trip: validity is not a bool array of the mesh shape", sig=sigf, dtype=str(g.valid.dtype), shape=g.valid.shape)
    check_own(ctx, "roundtrip-" + fmt, g, [o])


class Lookup:
    def __init__(self, geo, T, py):
        self.geo, self.T, self.py = geo, T, py

    def __call__(self, p):
        v = self.T[self.geo.index_of(np.atleast_1d(np.asarray(p, dtype=float)))]
        return bool(v) if self.py else v


def check_setter(pr, ctx, geo, mesh):
    nvdim, dtype, seed, spec, via = pr["nvdim"], pr["dtype"], pr["seed"], pr["spec"], pr["via"]
    m = mask(seed + 1, geo.n)
    a = values(seed, (*geo.n, nvdim), dtype)
    clause = "C08.setter"
    if spec == "norm":
        clause = "C08.setter_norm"
        rng = np.random.default_rng(seed + 2)
        a = a.astype(complex if dtype == "complex" else float)
        # lengths: exactly zero, far below / just below / just above / far above the 1e-8 threshold
        lengths = rng.choice([0.0, 1e-12, 3e-9, 0.9e-8, 1.1e-8, 5e-8, 1e-3, 1.0, 1e6], size=tuple(geo.n))
        unit = a / np.sqrt(np.sum(np.abs(a) ** 2, axis=-1, keepdims=True))
        a = unit * lengths[..., None]
        want = np.zeros(tuple(geo.n), dtype=bool)
        for idx in itertools.product(*[range(k) for k in geo.n]):
            want[idx] = np.sqrt(sum(abs(x) ** 2 for x in a[idx])) > 1e-8
        if np.any(np.abs(np.sqrt(np.sum(np.abs(a) ** 2, axis=-1)) - 1e-8) < 1e-10):
            ctx.trivial()
        value = "norm"
        if dtype == "int":
            a = np.where(lengths[..., None] >= 1.0, np.rint(np.abs(values(seed, (*geo.n, nvdim), "int"))), 0).astype(np.int64)
            want = np.sqrt(np.sum(a.astype(float) ** 2, axis=-1)) > 1e-8
    else:
        want = m
        value = {"bool_array": lambda: m.copy(), "bool_array_n1": lambda: m[..., None].copy(), "int_array": lambda: m.astype(np.int64),
                 "float_array": lambda: m.astype(float), "list": lambda: m.tolist(), "callable": lambda: Lookup(geo, m, False),
                 "callable_py": lambda: Lookup(geo, m, True), "true": lambda: True, "false": lambda: False, "none": lambda: None,
                 "one": lambda: 1, "zero": lambda: 0}[spec]()
        if spec in ("true", "none", "one"):
            want = np.ones(tuple(geo.n), dtype=bool)
        elif spec in ("false", "zero"):
            want = np.zeros(tuple(geo.n), dtype=bool)
    if via == "ctor":
        rx, f = raises(Exception, df.Field, mesh, nvdim=nvdim, value=a.copy(), dtype=a.dtype, valid=value)
    else:
        f = df.Field(mesh, nvdim=nvdim, value=a.copy(), dtype=a.dtype, valid=mask(seed + 3, geo.n))
        before = (f.array.tobytes(), str(f.array.dtype), f.array.shape)
        rx, e = raises(Exception, setattr, f, "valid", value)
        if rx:
            f = e
    if rx:
        ctx.require(False, clause, "setting valid (%s) raised %s" % (spec, type(f).__name__), sig="setter-raises:%s" % spec, error=repr(f)[:200])
        return
    v = f.valid
    isb = isinstance(v, np.ndarray) and v.dtype == np.bool_
    sig = "setter:" + spec
    if isinstance(v, np.ndarray) and v.dtype != np.bool_:
        sig = "valid-not-bool:setter-" + spec
    ctx.require(isb and v.shape == tuple(geo.n), clause, "valid is not a bool array of shape n after setting it with %s" % spec, sig=sig,
                dtype=str(getattr(v, "dtype", type(v))), shape=getattr(v, "shape", None))
    ctx.require(same_mask(v, want), clause, "valid does not hold the given values (%s)" % spec, sig="setter-values:" + spec, got=v, want=want)
    ok = np.array_equal(f.array, a) and f.array.shape == a.shape
    if via == "setter":
        ok = ok and (f.array.tobytes(), str(f.array.dtype), f.array.shape) == before
    ctx.require(ok, clause, "setting valid changed the stored values", sig="setter-changed-values:" + spec)


def check_compose(pr, ctx, geo, mesh):
    nvdim, dtype, seed = pr["nvdim"], pr["dtype"], pr["seed"]
    if dtype == "int":
        dtype = "float"
    f0, a, m = make_field(mesh, geo, nvdim, dtype, seed)
    o = Operand(f0)
    cur, want = f0, m.copy()
    others = []
    applied = []
    for step, name in enumerate(pr["chain"]):
        rng = np.random.default_rng(seed + 31 * step)
        n = [int(k) for k in cur.mesh.n]
        dims = list(cur.mesh.region.dims)
        ndim = len(n)
        cg = Geo({"p1": cur.mesh.region.pmin.tolist(), "p2": cur.mesh.region.pmax.tolist(), "n": n})
        ax = int(rng.integers(ndim))
        try:
            if name == "neg":
                nxt = -cur
            elif name == "abs":
                nxt = abs(cur)
            elif name == "mul2":
                nxt = 2 * cur
            elif name == "real":
                nxt = cur.real
            elif name == "add_self":
                nxt = cur + cur
            elif name == "dot_self":
                nxt = cur.dot(cur)
            elif name == "norm":
                nxt = cur.norm
            elif name == "comp0":
                if cur.nvdim == 1 or cur.vdims is None:
                    continue
                nxt = getattr(cur, cur.vdims[0])
            elif name == "diff":
                nxt = cur.diff(dims[ax])
            elif name == "add_other":
                m2 = mask(seed + 77 * (step + 1), n)
                g = df.Field(cur.mesh, nvdim=cur.nvdim, value=values(seed + step, (*n, cur.nvdim), "float"), valid=m2.copy())
                others.append(Operand(g))
                nxt = cur + g if step % 2 else g * cur
                want = want & m2
            elif name == "sel_range":
                k1 = int(rng.integers(n[ax]))
                k2 = int(rng.integers(k1, n[ax]))
                nxt = cur.sel(**{dims[ax]: (float(cg.centre([k1] * ndim)[ax]), float(cg.centre([k2] * ndim)[ax]))})
                want = want[tuple(slice(k1, k2 + 1) if j == ax else slice(None) for j in range(ndim))]
            elif name == "getitem":
                lo = [int(rng.integers(0, k)) for k in n]
                hi = [int(rng.integers(l + 1, k + 1)) for l, k in zip(lo, n)]
                q1 = cg.pmin + (np.array(lo) + 0.25) * cg.cell
                q2 = cg.pmin + (np.array(hi) - 0.25) * cg.cell
                nxt = cur[df.Region(p1=tuple(q1), p2=tuple(q2))]
                want = want[tuple(slice(l, h) for l, h in zip(lo, hi))]
            elif name == "pad":
                mode = ["constant", "edge", "wrap", "symmetric"][int(rng.integers(4))]
                l, h = int(rng.integers(0, 3)), int(rng.integers(0, 3))
                nxt = cur.pad({dims[ax]: (l, h)}, mode=mode)
                want = pad_mask(want, [[ax, l, h]], mode)
            elif name == "refine":
                if int(np.prod(n)) > 200:
                    continue
                fac = [int(rng.integers(1, 3)) for _ in n]
                nxt = cur.resample(tuple(k * q for k, q in zip(n, fac)))
                for j, q in enumerate(fac):
                    want = np.repeat(want, q, axis=j)
            else:
                raise AssertionError(name)
        except AssertionError:
            raise
        except ValueError as e:
            if name in ("sel_range", "getitem"):      # geometry refused by the mesh
                continue
            ctx.require(False, "C08.compose", "step %s raised" % name, sig="compose-raises:%s" % name, error=repr(e)[:200])
            return
        except Exception as e:
            ctx.require(False, "C08.compose", "step %s raised" % name, sig="compose-raises:%s" % name, error=repr(e)[:200])
            return
        applied.append(name)
        cur = nxt
        if not isinstance(cur, df.Field):
            ctx.trivial()
            ctx.require(True, "C08.compose", "chain left the field domain")
            return
    if not applied:
        ctx.trivial()
    ctx.require(same_mask(cur.valid, want), "C08.compose", "validity after the chain differs from the chained mask transformations", sig="compose-valid-wrong",
                applied=applied, got=cur.valid, want=want)
    ctx.require(form_ok(cur), "C08.form", "chain result: validity is not a bool array of the mesh shape", sig="form:compose", applied=applied)
    if cur is not f0:
        check_own(ctx, "chain", cur, [o] + others)
    else:
        ctx.require(True, "C08.own", "n/a")
