"""C09 bounded run-time tier: OVF files round-trip fields and follow the OVF 1.0/2.0 format.

The module carries its own OVF reader and writer (written from the format description, they share
no code with discretisedfield/io/ovf.py):  `ovf_parse` decodes a file into header/mesh/x-fastest
data and notes every structural problem, `ovf_write` produces OVF 1.0 (big-endian binary, fixed
three components) and OVF 2.0 (little-endian binary, any component count) files in text, 4-byte
and 8-byte form.  Bounded: meshes of at most 6 cells per axis, seeded geometry and values.

The numbers a field holds do not depend on how its array stores them: next to the ordinary float64 fields the
module writes fields of every array dtype Field accepts (float16/32/64/longdouble, signed and unsigned ints of
1..8 bytes, bool, either byte order, complex with zero imaginary part, object) and scalar fields whose array is a
differently laid-out view (Fortran order, strided, negative strides, permuted axes, broadcast, unaligned, read
only) in all three representations.  The typed arrays are built from bytes packed by `struct` out of python
numbers, so the expected file content is known as python numbers without any numpy conversion of the array."""
import json
import os
import re
import struct
import tempfile
import warnings

import numpy as np
import discretisedfield as df

from .common import raises, ulp_close, rand_region

PROPERTY = "C09"
CLAUSES = {
    "C09.rt_reads": "a file written by to_file (any of .ovf/.omf/.ohf, txt/bin4/bin8, extend_scalar on/off) is written and read back without error",
    "C09.rt_mesh": "round trip returns the same region corners (equal doubles), mesh unit and cell counts",
    "C09.rt_nvdim": "round trip returns the same component count (3 for an extended scalar)",
    "C09.rt_unit": "round trip returns the same field unit, None staying None",
    "C09.rt_values": "round trip values: bit-identical for bin8, equal to the float32 rounding for bin4, within 1e-9 relative for txt - of the numbers the field holds, whatever dtype, byte order and memory layout its array has (ints: nearest double / nearest float32 of the exact integer)",
    "C09.rt_labels": "component labels of vector fields come back unchanged",
    "C09.rt_subregions": "subregions (names, order, corners) come back unchanged through the side-car file",
    "C09.extend_scalar": "extend_scalar stores a scalar X as (X, 0, 0) and leaves vector fields as they are",
    "C09.written_is_ovf2": "the written file is a well-formed single-segment OVF 2.0 file (magic line, segment/header/data brackets, required keys, valuedim labels and 1 or valuedim units, check value, exact data length, matching End: Data)",
    "C09.written_mesh": "an independent reader decodes the written header to the same mesh: xmin..zmax == corners, xnodes == n, xstepsize == edges/n and xbase == pmin+cell/2 (4 ulp of the coordinate scale), meshunit",
    "C09.written_data": "an independent reader decodes the written data block to the field values in x-fastest order (bin8 exact, bin4 float32 rounding, txt 1e-9 relative), valuedim components; for every array dtype / byte order / memory layout of the field the decoded numbers are the numbers the array holds",
    "C09.sidecar_file": "the side-car file <name>.subregions.json decodes (plain json) to the subregion names and corners",
    "C09.foreign_reads": "a file of the independent OVF 1.0/2.0 writer (text, binary 4, binary 8) is read without error",
    "C09.foreign_mesh": "a foreign file is read to the writer's corners, cell counts and mesh unit",
    "C09.foreign_values": "a foreign file is read to the writer's values at the writer's x-fastest positions (binary exact, text 1e-9 relative) with the writer's component count (3 for OVF 1.0)",
    "C09.foreign_meta": "a foreign OVF 2.0 file is read to the writer's unit (one unit for all components or one per component) and labels (<name>_<c> -> c); OVF 1.0 files have no unit/labels",
    "C09.foreign_subregions": "a side-car file written independently next to a foreign file is read to its subregions",
    "C09.reject_truncated": "a binary file cut at any byte position inside the data block (check value included) raises instead of returning a field",
    "C09.reject_check_value": "a binary file with any single byte of the check value changed raises instead of returning a field",
}
RULE = ("seeded 3-d meshes (1..6 cells per axis, anisotropic, scale 10^U(-12,6), either corner order, int corners class) x "
        "nvdim 1..5 x labels (default, custom, upper case, with underscore, with non-word character) x unit (None, strings) x "
        "representation txt/bin4/bin8 x extend_scalar x subregions 0..3 x value class (normal, full float64 range incl. subnormal/max/-0.0); "
        "array of the field: every dtype Field accepts (float16/32/64/longdouble, (u)int8..64, bool, python type names, little and big endian, "
        "complex with zero imaginary part, object) x txt/bin4/bin8 x value class (normal, full range of the dtype incl. min/max/2^24+1/2^53+1/"
        "subnormals) x 1..4 components, and scalar fields whose array was assigned as a view (C, Fortran, strided inside a garbage buffer, negative "
        "strides, permuted axes, broadcast, unaligned, read-only) x 9 dtypes x txt/bin4/bin8 x extend_scalar; typed fields above the write chunk; "
        "foreign files: OVF 1.0/2.0 x txt/bin4/bin8 x number format x text quirks (leading/trailing/double blanks) x unit and label styles; "
        "faults: files of the library and of the own writer (OVF 1.0 big endian, OVF 2.0), every (thorough) / strided (quick) cut position of "
        "the data block, every byte of the check value x all 255 (thorough) / 24 (quick) other byte values; "
        "non-trivial = more than one cell; distinct by (kind, params)")
ASSUMPTIONS = [
    "bounded: meshes <= 6 cells per axis (plus one or two fields just above the 100000-value write chunk), <= 5 components, seeded sample of geometry/values; finite values only (no nan/inf in the field)",
    "foreign OVF 1.0 files carry valuemultiplier 1 (as OOMMF writes them); labels/units contain no blanks and no colon",
    "trusted: python float()/repr, struct, numpy.frombuffer, json for the independent reader/writer",
    "typed arrays: built by numpy.frombuffer over struct-packed python numbers (long double: double * (1 + u*2^-60), expected = that double; "
    "complex: imaginary part 0; object: python floats); trusted: python int -> float conversion, numpy float64 -> float32 rounding; "
    "arrays that are not fresh C-ordered copies only reach a Field through `field.array = <(nx,ny,nz) array>` of a scalar field, so layouts are "
    "enumerated for scalar fields only; a case whose field does not hold the given numbers/dtype is counted trivial",
    "short data block = the file is cut (truncation points of the quantifier); a block shortened in the middle with the footer intact is not enumerated",
]

CHECK = {4: 1234567.0, 8: 123456789012345.0}
REPS = {"txt": ("text", None), "bin4": ("binary", 4), "bin8": ("binary", 8)}


# ------------------------------------------------------------------ independent OVF reader
class OvfError(Exception):
    pass


def ovf_parse(raw):
    """decode an OVF 1.0 / 2.0 file.  Returns dict(version, header (lower-case keys without blanks -> str),
    mode, nbytes, data (N, valuedim) float64 in file order, problems [str])."""
    problems = []
    m = re.search(rb"^#\s*begin:\s*data\s+(text|binary\s+4|binary\s+8)[ \t]*\r?\n", raw, re.I | re.M)
    if m is None:
        raise OvfError("no '# Begin: Data' line")
    head = raw[:m.start()].decode("utf-8")
    lines = head.split("\n")
    first = lines[0].strip()
    if re.fullmatch(r"#\s*OOMMF\s+OVF\s+2\.0", first):
        version = 2
    elif re.fullmatch(r"#\s*OOMMF:?\s+rectangular\s+mesh\s+v1\.0", first):
        version = 1
    else:
        raise OvfError("unknown magic line %r" % first)
    header, brackets = {}, []
    for ln in lines[1:]:
        s = ln.strip()
        if s == "":
            continue
        if not s.startswith("#"):
            problems.append("non-comment line in header: %r" % s)
            continue
        s = s[1:]
        if s.startswith("#"):
            continue  # comment
        if "##" in s:
            s = s[:s.index("##")]
        if ":" not in s:
            if s.strip():
                problems.append("header line without key: %r" % s)
            continue
        k, v = s.split(":", 1)
        k = re.sub(r"\s+", "", k).lower()
        v = v.strip()
        if k in ("begin", "end"):
            brackets.append((k, v.lower()))
        elif k == "desc":
            header.setdefault("desc", [])
            header["desc"].append(v)
        else:
            if k in header:
                problems.append("duplicate key " + k)
            header[k] = v
    if brackets != [("begin", "segment"), ("begin", "header"), ("end", "header")]:
        problems.append("segment/header brackets are %r" % (brackets,))
    if header.get("segmentcount") != "1":
        problems.append("segment count is %r" % header.get("segmentcount"))
    kind = re.sub(r"\s+", " ", m.group(1).decode().lower())
    mode = "text" if kind == "text" else "binary"
    nbytes = None if mode == "text" else int(kind.split()[1])
    try:
        nodes = [int(header[a + "nodes"]) for a in "xyz"]
    except (KeyError, ValueError) as e:
        raise OvfError("bad nodes: %r" % e)
    if version == 2:
        try:
            vd = int(header["valuedim"])
        except (KeyError, ValueError):
            raise OvfError("valuedim missing")
    else:
        vd = 3
    count = nodes[0] * nodes[1] * nodes[2] * vd
    body = raw[m.end():]
    endtag = "# End: Data " + {"text": "Text", "binary 4": "Binary 4", "binary 8": "Binary 8"}[kind]
    if mode == "binary":
        fmt = ("<" if version == 2 else ">") + ("d" if nbytes == 8 else "f")
        if len(body) < nbytes * (1 + count):
            raise OvfError("data block short: %d bytes for %d values" % (len(body), count))
        chk = struct.unpack(fmt, body[:nbytes])[0]
        if chk != CHECK[nbytes]:
            problems.append("check value is %r" % chk)
        data = np.frombuffer(body[nbytes:nbytes * (1 + count)], dtype=fmt).astype(np.float64)
        rest = body[nbytes * (1 + count):].decode("utf-8", errors="replace")
    else:
        txt = body.decode("utf-8")
        rows, rest_lines, seen_end = [], [], False
        for ln in txt.split("\n"):
            s = ln.strip()
            if seen_end:
                rest_lines.append(ln)
            elif s.startswith("#"):
                seen_end = True
                rest_lines.append(ln)
            elif s:
                toks = s.split()
                if len(toks) != vd:
                    problems.append("text row with %d values" % len(toks))
                rows.extend(float(t) for t in toks)
        if len(rows) != count:
            raise OvfError("text data has %d values, expected %d" % (len(rows), count))
        data = np.array(rows, dtype=np.float64)
        rest = "\n" + "\n".join(rest_lines)
    tail = [t.strip() for t in rest.split("\n") if t.strip()]
    if mode == "binary" and not rest.startswith("\n") and not rest.startswith("\r\n"):
        problems.append("no newline after the binary data")
    if [re.sub(r"\s+", " ", t).lower() for t in tail] != [endtag.lower(), "# end: segment"]:
        problems.append("trailer is %r" % (tail,))
    return {"version": version, "header": header, "mode": mode, "nbytes": nbytes, "nodes": nodes, "valuedim": vd,
            "data": data.reshape(-1, vd), "problems": problems}


# ------------------------------------------------------------------ independent OVF writer
def _num(x, fmt):
    x = float(x)
    return repr(x) if fmt == "repr" else "%.17g" % x


def ovf_write(path, version, rep, pmin, pmax, n, data, meshunit="m", labels=None, units=None, numfmt="repr",
              quirk="plain", title="foreign"):
    """write `data` (N, valuedim) given in x-fastest order.  OVF 1.0: valuedim == 3, labels/units are not part of the format
    (a single `valueunit` is written)."""
    pmin, pmax, n = np.asarray(pmin, float), np.asarray(pmax, float), list(n)
    step = (pmax - pmin) / np.array(n)
    base = pmin + step / 2
    vd = data.shape[1]
    out = []
    if version == 1:
        assert vd == 3
        out += ["# OOMMF: rectangular mesh v1.0", "# Segment count: 1", "# Begin: Segment", "# Begin: Header"]
    else:
        out += ["# OOMMF OVF 2.0", "#", "# Segment count: 1", "#", "# Begin: Segment", "# Begin: Header"]
    out += ["# Title: " + title, "# Desc: Stage: 0, Stage iteration: 7", "# Desc: written by the rt tier"]
    keys = [("meshtype", "rectangular"), ("meshunit", meshunit)]
    keys += [(a + "base", _num(base[i], numfmt)) for i, a in enumerate("xyz")]
    keys += [(a + "stepsize", _num(step[i], numfmt)) for i, a in enumerate("xyz")]
    keys += [(a + "nodes", str(n[i])) for i, a in enumerate("xyz")]
    keys += [(a + "min", _num(pmin[i], numfmt)) for i, a in enumerate("xyz")]
    keys += [(a + "max", _num(pmax[i], numfmt)) for i, a in enumerate("xyz")]
    if version == 1:
        mag = np.sqrt((data ** 2).sum(axis=1)) if np.all(np.abs(data) < 1e150) else np.array([0.0, 0.0])
        keys += [("valueunit", units[0] if units else "A/m"), ("valuemultiplier", "1"),
                 ("ValueRangeMinMag", _num(mag.min(), numfmt)), ("ValueRangeMaxMag", _num(mag.max(), numfmt))]
    else:
        keys += [("valuedim", str(vd))]
        if labels is not None:
            keys += [("valuelabels", " ".join(labels))]
        if units is not None:
            keys += [("valueunits", " ".join(units))]
    out += ["# %s: %s" % kv for kv in keys]
    mode = {"txt": "Text", "bin4": "Binary 4", "bin8": "Binary 8"}[rep]
    out += ["# End: Header", "# Begin: Data " + mode]
    blob = ("\n".join(out) + "\n").encode("utf-8")
    if rep == "txt":
        rows = []
        for r in data:
            toks = [_num(v, numfmt) for v in r]
            if quirk == "lead":
                rows.append(" " + " ".join(toks))
            elif quirk == "trail":
                rows.append(" ".join(toks) + " ")
            elif quirk == "wide":
                rows.append("  ".join(t.rjust(26) for t in toks))
            else:
                rows.append(" ".join(toks))
        blob += ("\n".join(rows) + "\n").encode("ascii")
    else:
        nb = 4 if rep == "bin4" else 8
        fmt = (">" if version == 1 else "<") + ("f" if nb == 4 else "d")
        blob += struct.pack(fmt, CHECK[nb])
        with warnings.catch_warnings():
            warnings.simplefilter("ignore")
            blob += np.asarray(data, dtype=np.float64).astype(fmt).tobytes()
        blob += b"\n"
    blob += ("# End: Data %s\n# End: Segment\n" % mode).encode("ascii")
    with open(path, "wb") as f:
        f.write(blob)
    return blob


# ------------------------------------------------------------------ value classes
def make_values(seed, shape, vmode):
    rng = np.random.default_rng(seed)
    if vmode == "normal":
        return rng.normal(size=shape) * 10.0 ** rng.integers(-3, 7)
    if vmode == "int":  # integer-valued data (still float64)
        return rng.integers(-1000, 1000, size=shape).astype(float)
    # full range
    a = rng.choice([-1.0, 1.0], size=shape) * rng.uniform(1, 10, size=shape) * 10.0 ** rng.integers(-307, 308, size=shape)
    flat = a.reshape(-1)
    special = [0.0, -0.0, np.finfo(float).max, -np.finfo(float).max, np.finfo(float).tiny, 5e-324, -1e-320, 1 / 3,
               123456789.12345679, 1e22, 1e23, 16777217.0, 3.4028235677973366e38, 1.401298464324817e-45]
    pos = rng.permutation(flat.size)[:len(special)]
    for p, s in zip(pos, special):
        flat[p] = s
    return flat.reshape(shape)


def f32(a):
    with warnings.catch_warnings():
        warnings.simplefilter("ignore")
        with np.errstate(all="ignore"):
            return np.asarray(a, dtype=np.float64).astype(np.float32).astype(np.float64)


def same_bits(a, b):
    a, b = np.ascontiguousarray(a, dtype=np.float64), np.ascontiguousarray(b, dtype=np.float64)
    return a.shape == b.shape and a.tobytes() == b.tobytes()


def values_agree(got, want, rep, want32=None):
    """the statement's value criterion per representation; `want` = the numbers as nearest doubles, `want32` = the numbers as
    nearest float32 (default: the float32 rounding of `want`, right whenever the numbers are doubles)"""
    got, want = np.asarray(got, dtype=np.float64), np.asarray(want, dtype=np.float64)
    if got.shape != want.shape:
        return False
    if rep == "bin8":
        return same_bits(got, want)
    if rep == "bin4":
        w = f32(want) if want32 is None else np.asarray(want32, dtype=np.float64)
        return w.shape == got.shape and bool(np.array_equal(got, w))
    with np.errstate(all="ignore"):
        return bool(np.all(np.abs(got - want) <= 1e-9 * np.abs(want)))


def xfastest(arr):
    """(nx,ny,nz,vd) -> (N, vd) with k = ix + nx*(iy + ny*iz), by explicit loops"""
    nx, ny, nz, vd = arr.shape
    out = np.empty((nx * ny * nz, vd), dtype=arr.dtype)
    for iz in range(nz):
        for iy in range(ny):
            for ix in range(nx):
                out[ix + nx * (iy + ny * iz)] = arr[ix, iy, iz]
    return out


def from_xfastest(data, n):
    nx, ny, nz = n
    out = np.empty((nx, ny, nz, data.shape[1]), dtype=data.dtype)
    for iz in range(nz):
        for iy in range(ny):
            for ix in range(nx):
                out[ix, iy, iz] = data[ix + nx * (iy + ny * iz)]
    return out


# ------------------------------------------------------------------ typed arrays (array dtype / memory layout of the field)
# dtype string -> struct format character (None: built through numpy, see typed_values)
STRUCT_CHAR = {"f2": "e", "f4": "f", "f8": "d", "i1": "b", "u1": "B", "i2": "h", "u2": "H", "i4": "i", "u4": "I",
               "i8": "q", "u8": "Q", "b1": "?"}
DTYPES = ["<f2", ">f2", "<f4", ">f4", "<f8", ">f8", "longdouble", "float32", "float", "int", "bool",
          "|i1", "|u1", "<i2", ">i2", "<u2", ">u2", "<i4", ">i4", "<u4", ">u4", "<i8", ">i8", "<u8", ">u8", "|b1",
          "<c8", "<c16", ">c16", "O"]
LAYOUTS = ["C", "F", "strided", "negstride", "perm", "broadcast", "unaligned", "readonly"]
LAYOUT_DTYPES = ["<f8", ">f8", "<f4", "<i8", "<i4", ">i4", "<u2", "|b1", "longdouble"]
FLOAT_RANGE = {2: (-7, 4, 65504.0, 5.960464477539063e-08, 6.103515625e-05),
               4: (-44, 38, 3.4028234663852886e38, 1.401298464324817e-45, 1.1754943508222875e-38),
               8: (-307, 308, np.finfo(float).max, 5e-324, np.finfo(float).tiny)}


def int_to_f32(v):
    """the float32 nearest to the python int v (ties to even), by integer arithmetic; returned as a python float"""
    a = abs(v)
    e = a.bit_length() - 24
    if e <= 0:
        return float(v)
    q, r, half = a >> e, a & ((1 << e) - 1), 1 << (e - 1)
    if r > half or (r == half and (q & 1)):
        q += 1
    return float(q << e) if v > 0 else -float(q << e)


def _float_numbers(rng, count, nbytes, vmode):
    """python floats that are exactly representable in the binary float format of nbytes (2, 4, 8) bytes"""
    lo, hi, fmax, fsub, ftiny = FLOAT_RANGE[nbytes]
    if vmode == "normal":
        x = rng.normal(size=count) * 10.0 ** rng.integers(-3, 4 if nbytes == 2 else 7)
    else:
        x = rng.choice([-1.0, 1.0], size=count) * rng.uniform(1, 10, size=count) * 10.0 ** rng.integers(lo, hi, size=count)
        special = [0.0, -0.0, fmax, -fmax, ftiny, fsub, -fsub, 1 / 3, 16777217.0, 2049.0, 0.1, -1e-5] if vmode == "full" else []
        for p, sp in zip(rng.permutation(count)[:len(special)], special):
            x[p] = sp
    x = np.clip(x, -fmax, fmax)
    if nbytes == 8:
        return [float(v) for v in x]
    ch = STRUCT_CHAR["f%d" % nbytes]
    out = []
    for v in x:
        try:
            out.append(struct.unpack("<" + ch, struct.pack("<" + ch, float(v)))[0])
        except OverflowError:  # rounds beyond the largest finite value of the format
            out.append(fmax if v > 0 else -fmax)
    return out


def _int_numbers(rng, count, lo, hi, vmode):
    """python ints in lo..hi"""
    if vmode == "normal":
        return [int(v) for v in rng.integers(max(lo, -1000), min(hi, 1000), size=count, endpoint=True)]
    out = []
    width = hi.bit_length()
    for _ in range(count):
        bits = int(rng.integers(1, width + 1))  # every magnitude class, not only the top of the range
        v = (int(rng.integers(0, 1 << 62)) * 4 + int(rng.integers(4))) & ((1 << bits) - 1)
        if lo < 0 and rng.integers(2):
            v = -v - 1
        out.append(min(max(v, lo), hi))
    special = [lo, hi, 0, 1, (1 << 24) + 1, -(1 << 24) - 1, (1 << 24) + 3, (1 << 53) + 1, -(1 << 53) - 1, (1 << 53) + 3,
               (1 << 63) - 1, (1 << 63) + (1 << 10), (1 << 31) - 1, -(1 << 31), (1 << 32) - 1, 1234567, 0x3FF0000000000000]
    special = [v for v in special if lo <= v <= hi]
    for p, sp in zip(rng.permutation(count)[:len(special)], special):
        out[int(p)] = sp
    return out


def typed_values(seed, shape, ds, vmode):
    """(array of dtype `ds` and C layout, float64 array of the numbers rounded to nearest double, float64 array holding the
    numbers rounded to nearest float32).  For struct-representable dtypes the array is a buffer of bytes packed from python
    numbers in the dtype's byte order; the expectations are computed from the python numbers."""
    rng = np.random.default_rng(seed)
    dt = np.dtype(ds)
    count = int(np.prod(shape))
    key = "%s%d" % (dt.kind, dt.itemsize)
    order = ">" if dt.byteorder == ">" else "<" if dt.byteorder == "<" else ("<" if np.little_endian else ">")
    if dt.byteorder == "|":
        order = "<"
    if dt.kind == "f" and dt.itemsize in (2, 4, 8):
        nums = _float_numbers(rng, count, dt.itemsize, vmode)
        w64 = np.array(nums, dtype=np.float64)
        w32 = f32(w64)
    elif dt.kind in "iu":
        info = np.iinfo(dt)
        nums = _int_numbers(rng, count, int(info.min), int(info.max), vmode)
        w64 = np.array([float(v) for v in nums], dtype=np.float64)  # python int -> float is correctly rounded
        w32 = np.array([int_to_f32(v) for v in nums], dtype=np.float64)
    elif dt.kind == "b":
        nums = [bool(v) for v in rng.integers(0, 2, size=count)]
        w64 = np.array([1.0 if v else 0.0 for v in nums])
        w32 = w64.copy()
    elif dt.kind == "f":  # long double: a double plus a perturbation far below half an ulp of the double
        hi = np.array(_float_numbers(rng, count, 8, "normal" if vmode == "normal" else "full-nospecial"))
        u = rng.uniform(-1, 1, size=count)
        with np.errstate(all="ignore"):
            arr = (hi.astype(dt) * (dt.type(1) + u.astype(dt) * dt.type(2.0 ** -60))).astype(dt)
        return arr.reshape(shape), hi.reshape(shape), f32(hi).reshape(shape)
    elif dt.kind == "c":  # real numbers held in a complex array (imaginary part zero)
        nums = _float_numbers(rng, count, dt.itemsize // 2, vmode)
        w64 = np.array(nums, dtype=np.float64)
        arr = np.array([complex(v, 0.0) for v in nums], dtype=dt)
        return arr.reshape(shape), w64.reshape(shape), f32(w64).reshape(shape)
    elif dt.kind == "O":
        nums = _float_numbers(rng, count, 8, vmode)
        arr = np.empty(count, dtype=object)
        for i, v in enumerate(nums):
            arr[i] = v
        w64 = np.array(nums, dtype=np.float64)
        return arr.reshape(shape), w64.reshape(shape), f32(w64).reshape(shape)
    else:
        raise ValueError("no value generator for dtype %r" % ds)
    blob = struct.pack(order + STRUCT_CHAR[key] * count, *nums)
    arr = np.frombuffer(blob, dtype=dt.newbyteorder(order) if dt.itemsize > 1 else dt).copy()
    return arr.reshape(shape), w64.reshape(shape), w32.reshape(shape)


def make_view(v, layout):
    """a 3-d array with the layout asked for and (returned second) the numbers it holds logically, as index map:
    returns (view, broadcast: bool)"""
    nx, ny, nz = v.shape
    if layout == "C":
        return np.ascontiguousarray(v), False
    if layout == "F":
        return np.asfortranarray(v), False
    if layout == "strided":
        big = np.empty((2 * nx + 1, 3 * ny + 2, 2 * nz), dtype=v.dtype)
        big.reshape(-1)[...] = (np.arange(big.size) % 97 + 1).astype(v.dtype)
        sl = big[1::2, 2::3, 0::2]
        sl[...] = v
        return sl, False
    if layout == "negstride":
        return np.ascontiguousarray(v[::-1, ::-1, ::-1])[::-1, ::-1, ::-1], False
    if layout == "perm":
        return np.ascontiguousarray(v.transpose(2, 0, 1)).transpose(1, 2, 0), False
    if layout == "broadcast":
        return np.broadcast_to(np.ascontiguousarray(v[:, :1, :1]), v.shape), True
    if layout == "unaligned":
        buf = bytearray(v.nbytes + 1)
        a = np.ndarray(v.shape, dtype=v.dtype, buffer=buf, offset=1)
        a[...] = v
        return a, False
    if layout == "readonly":
        a = np.ascontiguousarray(v).copy()
        a.setflags(write=False)
        return a, False
    raise ValueError(layout)


# ------------------------------------------------------------------ case enumeration
UNITS = [None, "A/m", "T", "J/m^3", "kg*m^2/s", "1", "%", "μT"]
MESHUNITS = ["m", "nm", "um", "m", "1", "Å"]
LABELSETS = {
    2: [None, ["a", "b"], ["P", "Q"], ["m_a", "m_b"], ["a-b", "c"]],
    3: [None, ["a", "b", "c"], ["mx", "my", "mz"], ["Z", "Y", "X"], ["m_x", "m_y", "m_z"], ["a.b", "c", "d"]],
    4: [None, ["t", "a", "b", "c"], ["c0", "c1", "c2", "c3"], ["s_0", "s_1", "s_2", "s_3"]],
    5: [None, ["a", "b", "c", "d", "e"]],
}


def _rand_mesh(rng, with_subs, intcorners=False):
    if intcorners:
        n = rng.integers(1, 7, size=3)
        lo = rng.integers(-20, 20, size=3)
        mult = rng.integers(1, 4, size=3)
        p1, p2 = lo.tolist(), (lo + n * mult).tolist()
        if rng.integers(2):
            p1, p2 = p2, p1
        n = n.tolist()
    else:
        if with_subs:
            s = 10.0 ** rng.uniform(-10, -1)
            off = rng.uniform(-3, 3, size=3) * s
            e = rng.uniform(0.3, 1.7, size=3) * s
            flip = rng.integers(0, 2, size=3).astype(bool)
            p1, p2 = np.where(flip, off + e, off).tolist(), np.where(flip, off, off + e).tolist()
        else:
            p1, p2 = rand_region(rng, 3)
        n = rng.integers(1, 7, size=3).tolist()
        if len(set(n)) == 1:
            n[int(rng.integers(3))] = n[0] % 6 + 1
    subs = []
    if with_subs:
        for k in range(int(rng.integers(1, 4))):
            lo = [int(rng.integers(0, m)) for m in n]
            hi = [int(rng.integers(l + 1, m + 1)) for l, m in zip(lo, n)]
            subs.append([["sr%d" % k, "left", "Core", "sub_region"][int(rng.integers(4))] + str(k), lo, hi])
    return p1, p2, n, subs


def cases(ctx):
    rng = ctx.rng
    quick = ctx.tier == "quick"
    reps_rt = 8 if quick else 120
    # ---- round trips
    for _ in range(reps_rt):
        for nvdim in (1, 1, 2, 3, 3, 4, 5):
            for rep in ("txt", "bin4", "bin8"):
                with_subs = bool(rng.integers(2))
                intc = rng.integers(6) == 0
                p1, p2, n, subs = _rand_mesh(rng, with_subs, intc)
                labels = None
                if nvdim > 1:
                    ls = LABELSETS[nvdim]
                    labels = ls[int(rng.integers(len(ls)))]
                yield "roundtrip", {
                    "p1": p1, "p2": p2, "n": n, "nvdim": nvdim, "vdims": labels,
                    "unit": UNITS[int(rng.integers(len(UNITS)))] if rng.integers(3) else None,
                    "meshunit": MESHUNITS[int(rng.integers(len(MESHUNITS)))],
                    "rep": rep, "ext": bool(rng.integers(2)) if nvdim in (1, 3) else False,
                    "suffix": [".ovf", ".omf", ".ohf"][int(rng.integers(3))], "subs": subs,
                    "vmode": ["normal", "full", "full", "int"][int(rng.integers(4))], "seed": int(rng.integers(1 << 30)),
                }
    # every label set and every unit at least once, deterministic classes
    for nvdim, sets in LABELSETS.items():
        for ls in sets:
            p1, p2, n, subs = _rand_mesh(rng, False)
            yield "roundtrip", {"p1": p1, "p2": p2, "n": n, "nvdim": nvdim, "vdims": ls, "unit": "A/m", "meshunit": "m",
                                "rep": ["txt", "bin4", "bin8"][int(rng.integers(3))], "ext": False, "suffix": ".omf", "subs": [],
                                "vmode": "normal", "seed": int(rng.integers(1 << 30))}
    for u in UNITS:
        for nvdim in (1, 3):
            p1, p2, n, subs = _rand_mesh(rng, True)
            yield "roundtrip", {"p1": p1, "p2": p2, "n": n, "nvdim": nvdim, "vdims": None, "unit": u, "meshunit": "nm",
                                "rep": ["txt", "bin4", "bin8"][int(rng.integers(3))], "ext": False, "suffix": ".ovf", "subs": subs,
                                "vmode": "full", "seed": int(rng.integers(1 << 30))}
    for rep in ("txt", "bin4", "bin8"):
        for nvdim in (1, 3):
            p1, p2, n, subs = _rand_mesh(rng, True)
            yield "roundtrip", {"p1": p1, "p2": p2, "n": n, "nvdim": nvdim, "vdims": None, "unit": "T", "meshunit": "m",
                                "rep": rep, "ext": True, "suffix": ".ohf", "subs": subs, "vmode": "normal",
                                "seed": int(rng.integers(1 << 30))}
    yield "roundtrip", {"p1": [0, 0, 0], "p2": [4, 6, 2], "n": [2, 3, 1], "nvdim": 3, "vdims": None, "unit": None, "meshunit": "m",
                        "rep": "bin8", "ext": False, "suffix": ".omf", "subs": [["a0", [0, 0, 0], [1, 3, 1]], ["b1", [0, 1, 0], [2, 2, 1]]],
                        "vmode": "normal", "seed": 5}
    yield "roundtrip", {"p1": [0.0, 0.0, 0.0], "p2": [1e-9, 1e-9, 1e-9], "n": [1, 1, 1], "nvdim": 1, "vdims": None, "unit": "A/m",
                        "meshunit": "m", "rep": "txt", "ext": False, "suffix": ".ovf", "subs": [], "vmode": "normal", "seed": 6}
    # one field larger than the writer's chunk of 100000 values
    yield "roundtrip", {"p1": [-1e-7, 0.0, 2e-8], "p2": [1.4e-7, 7.4e-8, -2e-8], "n": [48, 37, 20], "nvdim": 3, "vdims": None, "unit": "A/m",
                        "meshunit": "m", "rep": "bin8", "ext": False, "suffix": ".omf", "subs": [], "vmode": "normal", "seed": 11}
    if not quick:
        yield "roundtrip", {"p1": [-1e-7, 0.0, 2e-8], "p2": [1.4e-7, 7.4e-8, -2e-8], "n": [51, 40, 50], "nvdim": 1, "vdims": None,
                            "unit": "T", "meshunit": "m", "rep": "bin4", "ext": True, "suffix": ".ovf", "subs": [], "vmode": "full", "seed": 12}
    # ---- foreign files
    reps_f = 4 if quick else 50
    for _ in range(reps_f):
        for version in (1, 2):
            for rep in ("txt", "bin4", "bin8"):
                for numfmt in ("repr", "g17"):
                    quirks = ("plain", "lead", "trail", "wide") if rep == "txt" else ("plain",)
                    for quirk in quirks:
                        with_subs = bool(rng.integers(3) == 0)
                        p1, p2, n, subs = _rand_mesh(rng, with_subs, rng.integers(6) == 0)
                        vd = 3 if version == 1 else int(rng.integers(1, 6))
                        yield "foreign", {
                            "version": version, "rep": rep, "numfmt": numfmt, "quirk": quirk, "p1": p1, "p2": p2, "n": n, "vd": vd,
                            "labelstyle": ["none", "m", "Magnetization", "bare"][int(rng.integers(4))],
                            "unitstyle": ["none", "each", "single"][int(rng.integers(3))],
                            "unit": ["A/m", "T", "J/m^3", "rad"][int(rng.integers(4))],
                            "meshunit": MESHUNITS[int(rng.integers(len(MESHUNITS)))], "subs": subs,
                            "vmode": ["normal", "full"][int(rng.integers(2))], "seed": int(rng.integers(1 << 30))}
    # ---- faults
    reps_x = 3 if quick else 30
    for _ in range(reps_x):
        for source in ("lib", "own1", "own2"):
            for rep in ("bin4", "bin8"):
                p1, p2, n, _s = _rand_mesh(rng, False)
                n = [min(k, 4) for k in n]
                vd = 3 if source == "own1" else int(rng.integers(1, 4))
                base = {"source": source, "rep": rep, "p1": p1, "p2": p2, "n": n, "vd": vd, "seed": int(rng.integers(1 << 30))}
                yield "truncate", dict(base, stride=(7 if quick else 1))
                yield "checkvalue", dict(base, nalt=(24 if quick else 255))
    # ---- round trips of fields whose array is not a fresh C-ordered float64 array (enumerated last: the cases above keep
    #      their parameters).  Every array dtype x every representation, so every pairing of item width and byte order of
    #      the array with the width of the file's numbers occurs.
    def typed_case(ds, rep, nvdim, **kw):
        p1, p2, n, _s = _rand_mesh(rng, False, rng.integers(6) == 0)
        labels = None
        if nvdim > 1:
            ls = LABELSETS[nvdim][:3]  # labels the reader recovers (no underscore / non-word characters)
            labels = ls[int(rng.integers(len(ls)))]
        case = {"p1": p1, "p2": p2, "n": n, "nvdim": nvdim, "vdims": labels,
                "unit": UNITS[int(rng.integers(len(UNITS)))] if rng.integers(3) else None,
                "meshunit": MESHUNITS[int(rng.integers(len(MESHUNITS)))], "rep": rep,
                "ext": bool(rng.integers(2)) if nvdim == 1 else False,
                "suffix": [".ovf", ".omf", ".ohf"][int(rng.integers(3))], "subs": [],
                "vmode": ["normal", "full", "full"][int(rng.integers(3))], "seed": int(rng.integers(1 << 30)), "dtype": ds}
        case.update(kw)
        return case

    for _ in range(1 if quick else 12):
        for ds in DTYPES:
            for rep in ("txt", "bin4", "bin8"):
                yield "roundtrip", typed_case(ds, rep, int(rng.choice([1, 1, 2, 3, 3, 4])))
        for layout in LAYOUTS:
            for ds in LAYOUT_DTYPES:
                for rep in ("txt", "bin4", "bin8"):
                    yield "roundtrip", typed_case(ds, rep, 1, layout=layout)
    # extend_scalar on and off for the arrays as wide as the file's numbers
    for ds, rep in (("<i8", "bin8"), ("<u8", "bin8"), (">f8", "bin8"), ("<c8", "bin8"), ("<i4", "bin4"), ("<u4", "bin4"), (">f4", "bin4")):
        for ext in (False, True):
            yield "roundtrip", typed_case(ds, rep, 1, ext=ext, vmode="full")
            yield "roundtrip", typed_case(ds, rep, 1, ext=ext, vmode="normal", layout="perm")
    # typed fields larger than the writer's chunk of 100000 values
    big = [("<i8", "bin8")] if quick else [("<i8", "bin8"), ("<i4", "bin4"), (">f8", "bin8"), ("<f4", "bin4"), ("<f4", "bin8")]
    for ds, rep in big:
        yield "roundtrip", {"p1": [-1e-7, 0.0, 2e-8], "p2": [1.4e-7, 7.4e-8, -2e-8], "n": [48, 37, 20], "nvdim": 3, "vdims": None,
                            "unit": "A/m", "meshunit": "m", "rep": rep, "ext": False, "suffix": ".omf", "subs": [], "vmode": "full",
                            "seed": 21, "dtype": ds}


# ------------------------------------------------------------------ checks
def _build_field(pr):
    p1, p2, n = pr["p1"], pr["p2"], pr["n"]
    region = df.Region(p1=tuple(p1), p2=tuple(p2), units=[pr["meshunit"]] * 3)
    pmin, pmax = region.pmin, region.pmax
    cell = (pmax - pmin) / np.array(n)
    subs = {}
    for name, lo, hi in pr.get("subs", []):
        subs[name] = df.Region(p1=tuple(pmin + np.array(lo) * cell), p2=tuple(pmin + np.array(hi) * cell))
    mesh = df.Mesh(region=region, n=tuple(n), subregions=subs)
    nvdim = pr["nvdim"]
    ds, layout = pr.get("dtype"), pr.get("layout")
    if ds is None and layout is None:
        arr = make_values(pr["seed"], (*n, nvdim), pr["vmode"])
        f = df.Field(mesh, nvdim=nvdim, value=arr, vdims=pr.get("vdims"), unit=pr.get("unit"))
        return f, arr, None, subs
    # the field's array has the dtype / memory layout asked for; the numbers are known as python numbers (typed_values)
    typed, w64, w32 = typed_values(pr["seed"], (*n, nvdim), ds, pr["vmode"])
    if layout is None:
        f = df.Field(mesh, nvdim=nvdim, value=typed, vdims=pr.get("vdims"), unit=pr.get("unit"), dtype=ds)
        logical = typed
    else:
        # public route to an array that is not a fresh C-ordered one: assigning an (nx, ny, nz) array to a scalar field
        view, bc = make_view(typed[..., 0], layout)
        if bc:
            w64 = np.ascontiguousarray(np.broadcast_to(w64[:, :1, :1, :], w64.shape))
            w32 = np.ascontiguousarray(np.broadcast_to(w32[:, :1, :1, :], w32.shape))
        f = df.Field(mesh, nvdim=1, unit=pr.get("unit"))
        f.array = view
        logical = np.array(view)[..., np.newaxis]
    held = f.array
    if held.shape != logical.shape or held.dtype != np.dtype(ds) or not all(
            a == b for a, b in zip(held.reshape(-1).tolist(), logical.reshape(-1).tolist())):
        raise NotHeld("the field does not hold the %s numbers it was given (array dtype %s)" % (ds, held.dtype))
    return f, w64, w32, subs


class NotHeld(Exception):
    """the Field constructor / array setter did not keep the typed array (not the subject of this property)"""


def _typed_sig(pr, got=None, want=None, error=None):
    """signatures of the failure classes that belong to the array dtype of the field (text representation only)"""
    ds = pr.get("dtype")
    if ds is None or pr["rep"] != "txt":
        return None
    dt = np.dtype(ds)
    if dt.kind == "c" and error is not None and re.search(r"could not convert string to float: '[^']*j\)?'", repr(error)):
        return "complex-array-txt-tokens-not-numbers"
    if dt.kind == "b" and error is not None and re.search(r"could not convert string to float: '(True|False)'", repr(error)):
        return "bool-array-txt-tokens-True-False"
    if dt.kind == "f" and dt.itemsize < 8 and got is not None:
        # right once rounded to the field's own narrow float format (shortest repr of that format was written), not to 1e-9
        narrow = np.float16 if dt.itemsize == 2 else np.float32
        g, w = np.asarray(got, dtype=np.float64), np.asarray(want, dtype=np.float64)
        with np.errstate(all="ignore"):
            if g.shape == w.shape and np.array_equal(g.astype(narrow).astype(np.float64), w):
                return "txt-narrow-float-shortest-repr"
    return None


def _label_sig(vdims):
    if vdims and any(not re.fullmatch(r"\w+", v) for v in vdims):
        return "label-nonword-chars-break-reader"
    if vdims and any("_" in v for v in vdims):
        return "label-with-underscore-truncated"
    return None


def check(kind, pr, ctx):
    with tempfile.TemporaryDirectory(prefix="rtc09_") as tmp, warnings.catch_warnings():
        warnings.simplefilter("ignore")
        if kind == "roundtrip":
            return check_roundtrip(pr, ctx, tmp)
        if kind == "foreign":
            return check_foreign(pr, ctx, tmp)
        return check_fault(kind, pr, ctx, tmp)


def check_roundtrip(pr, ctx, tmp):
    try:
        f, arr, arr32, subs = _build_field(pr)
    except NotHeld:
        ctx.trivial()
        return
    except ValueError:
        if not pr["subs"]:
            raise
        # the subregions of this case are not accepted by the mesh (alignment tolerances, another property)
        ctx.trivial()
        return
    n, nvdim, rep, ext = pr["n"], pr["nvdim"], pr["rep"], pr["ext"]
    if int(np.prod(n)) == 1:
        ctx.trivial()
    mesh = f.mesh
    pmin, pmax = np.asarray(mesh.region.pmin, float), np.asarray(mesh.region.pmax, float)
    path = os.path.join(tmp, "field" + pr["suffix"])
    # failure classes with their own signature: extend_scalar given for a vector field; labels the reader cannot recover
    esig = "extend_scalar-on-vector-field" if (ext and nvdim > 1) else None
    lsig = _label_sig(pr.get("vdims"))
    r, e = raises(Exception, f.to_file, path, representation=rep, extend_scalar=ext)
    if r:
        if esig:
            ctx.require(False, "C09.extend_scalar", "to_file(extend_scalar=True) raises for a vector field", sig=esig, error=repr(e))
        else:
            ctx.require(False, "C09.rt_reads", "to_file raised", sig="to_file-raises", error=repr(e))
        return
    want_dim = 3 if (ext and nvdim == 1) else nvdim
    want = arr if want_dim == nvdim else np.concatenate([arr, np.zeros((*n, 2))], axis=-1)
    want32 = None if arr32 is None else (arr32 if want_dim == nvdim else np.concatenate([arr32, np.zeros((*n, 2))], axis=-1))
    want32x = None if want32 is None else xfastest(want32)

    # ---------------- independent decoding of the written bytes
    raw = open(path, "rb").read()
    undecodable, dec = raises(Exception, ovf_parse, raw)
    if undecodable:
        ctx.require(False, "C09.written_is_ovf2", "independent reader cannot decode the written file", sig=esig or _typed_sig(pr, error=dec),
                    error=repr(dec), dtype=pr.get("dtype"))
        if esig:
            ctx.require(False, "C09.extend_scalar", "extend_scalar=True for a vector field writes an undecodable file", sig=esig, error=repr(dec))
    else:
        h = dec["header"]
        required = ["title", "meshtype", "meshunit", "valuedim", "valuelabels", "valueunits"] + [
            a + k for a in "xyz" for k in ("base", "stepsize", "nodes", "min", "max")]
        missing = [k for k in required if k not in h]
        ntok_l = len(h.get("valuelabels", "").split())
        ntok_u = len(h.get("valueunits", "").split())
        ok = (dec["version"] == 2 and not dec["problems"] and not missing and h.get("meshtype") == "rectangular"
              and ntok_l == dec["valuedim"] and ntok_u in (1, dec["valuedim"])
              and dec["mode"] == REPS[rep][0] and dec["nbytes"] == REPS[rep][1])
        ctx.require(ok, "C09.written_is_ovf2", "written file is not a well-formed OVF 2.0 file", sig=esig,
                    problems=dec["problems"], missing=missing, version=dec["version"], nlabels=ntok_l, nunits=ntok_u)
        if not missing:
            cell = (pmax - pmin) / np.array(n)
            scale = np.maximum(np.abs(pmin), np.abs(pmax))
            g = lambda k: np.array([float(h[a + k]) for a in "xyz"])
            okm = (np.array_equal(g("min"), pmin) and np.array_equal(g("max"), pmax) and dec["nodes"] == list(n)
                   and ulp_close(g("stepsize"), cell, 4) and ulp_close(g("base"), pmin + cell / 2, 4, scale)
                   and h["meshunit"] == pr["meshunit"])
            ctx.require(okm, "C09.written_mesh", "header of the written file does not describe the mesh",
                        header={k: h[k] for k in h if k != "desc"}, pmin=pmin, pmax=pmax, n=n)
            wantx = xfastest(want)
            okd = dec["valuedim"] == want_dim and values_agree(dec["data"], wantx, rep, want32x)
            ctx.require(okd, "C09.written_data", "data block of the written file is not the x-fastest field data",
                        sig=esig or (None if okd else _typed_sig(pr, dec["data"], wantx)),
                        valuedim=dec["valuedim"], want_dim=want_dim, dtype=pr.get("dtype"), layout=pr.get("layout"),
                        decoded=dec["data"].reshape(-1)[:6], numbers=wantx.reshape(-1)[:6])
            if esig:
                ctx.require(okd, "C09.extend_scalar", "extend_scalar changed the data of a vector field", sig=esig)
    if subs:
        sc = path + ".subregions.json"
        okj = os.path.exists(sc)
        if okj:
            try:
                js = json.load(open(sc))
                okj = list(js.keys()) == list(subs.keys()) and all(
                    np.array_equal(np.asarray(js[k]["pmin"], float), subs[k].pmin)
                    and np.array_equal(np.asarray(js[k]["pmax"], float), subs[k].pmax) for k in subs)
            except Exception:
                okj = False
        ctx.require(okj, "C09.sidecar_file", "side-car json missing or not holding the subregions")

    # ---------------- read back with the library
    r, g = raises(Exception, df.Field.from_file, path)
    if r:
        ctx.require(False, "C09.rt_reads", "from_file raised on a file written by to_file",
                    sig=esig or lsig or _typed_sig(pr, error=g) or "from_file-raises", error=repr(g))
        return
    # .oef is a fourth extension accepted on input
    oef = os.path.join(tmp, "copy.oef")
    with open(oef, "wb") as fh:
        fh.write(raw)
    r2, g2 = raises(Exception, df.Field.from_file, oef)
    ctx.require(not r2 and same_bits(g2.array, g.array), "C09.rt_reads", "the same bytes under the extension .oef are not read alike",
                sig="oef-extension")
    okmesh = (np.array_equal(g.mesh.region.pmin, pmin) and np.array_equal(g.mesh.region.pmax, pmax)
              and list(g.mesh.n) == list(n) and tuple(g.mesh.region.units) == (pr["meshunit"],) * 3)
    ctx.require(okmesh, "C09.rt_mesh", "mesh differs after the round trip", got_pmin=g.mesh.region.pmin, got_pmax=g.mesh.region.pmax,
                got_n=g.mesh.n, got_units=g.mesh.region.units, pmin=pmin, pmax=pmax, n=n)
    ctx.require(g.nvdim == want_dim, "C09.rt_nvdim", "component count differs", sig=esig, got=g.nvdim, want=want_dim)
    unit = pr.get("unit")
    ctx.require(g.unit == unit and type(g.unit) is type(unit), "C09.rt_unit", "unit differs after the round trip",
                sig="unit-None-read-back-as-str" if unit is None and g.unit == "None" else None, got=g.unit, want=unit)
    okv = g.array.shape == want.shape and values_agree(g.array, want, rep, want32)
    ctx.require(okv, "C09.rt_values", "values differ after the round trip (%s)" % rep,
                sig=esig or (None if okv else _typed_sig(pr, g.array, want)), dtype=pr.get("dtype"), layout=pr.get("layout"),
                got=np.asarray(g.array).reshape(-1)[:6], numbers=want.reshape(-1)[:6])
    if ext:
        if nvdim == 1:
            oke = (g.nvdim == 3 and g.array.shape == (*n, 3) and not np.any(g.array[..., 1:])
                   and values_agree(g.array[..., 0], arr[..., 0], rep, None if arr32 is None else arr32[..., 0]))
            ctx.require(oke, "C09.extend_scalar", "extended scalar is not (X, 0, 0)",
                        sig=None if oke or g.array.shape != want.shape else _typed_sig(pr, g.array, want))
        else:
            ctx.require(g.nvdim == nvdim and okv, "C09.extend_scalar", "extend_scalar changed a vector field", sig=esig)
    if nvdim > 1:
        ctx.require(g.vdims == f.vdims, "C09.rt_labels", "component labels differ", sig=esig or lsig, got=g.vdims, want=f.vdims)
    oks = list(g.mesh.subregions.keys()) == list(subs.keys()) and all(
        np.array_equal(g.mesh.subregions[k].pmin, subs[k].pmin) and np.array_equal(g.mesh.subregions[k].pmax, subs[k].pmax) for k in subs)
    ctx.require(oks, "C09.rt_subregions", "subregions differ after the round trip", got=list(g.mesh.subregions.keys()), want=list(subs.keys()))


def _foreign_content(pr):
    p1, p2, n = np.asarray(pr["p1"], float), np.asarray(pr["p2"], float), pr["n"]
    pmin, pmax = np.minimum(p1, p2), np.maximum(p1, p2)
    arr = make_values(pr["seed"], (*n, pr["vd"]), pr.get("vmode", "normal"))
    return pmin, pmax, arr


def check_foreign(pr, ctx, tmp):
    version, rep, n, vd = pr["version"], pr["rep"], pr["n"], pr["vd"]
    pmin, pmax, arr = _foreign_content(pr)
    if int(np.prod(n)) == 1:
        ctx.trivial()
    comp = ["x", "y", "z", "u", "v"][:vd]
    labels = {"none": None, "m": ["m_" + c for c in comp], "Magnetization": ["Magnetization_" + c for c in comp],
              "bare": ["p", "q", "r", "s", "t"][:vd]}[pr["labelstyle"]]
    want_labels = {"none": None, "m": comp, "Magnetization": comp, "bare": ["p", "q", "r", "s", "t"][:vd]}[pr["labelstyle"]]
    units = {"none": None, "each": [pr["unit"]] * vd, "single": [pr["unit"]]}[pr["unitstyle"]]
    path = os.path.join(tmp, "foreign.ovf" if version == 2 else "foreign.omf")
    ovf_write(path, version, rep, pmin, pmax, n, xfastest(arr), meshunit=pr["meshunit"], labels=labels, units=units,
              numfmt=pr["numfmt"], quirk=pr["quirk"])
    cell = (pmax - pmin) / np.array(n)
    subs = {name: (pmin + np.array(lo) * cell, pmin + np.array(hi) * cell) for name, lo, hi in pr["subs"]}
    if subs:
        with open(path + ".subregions.json", "w") as fh:
            json.dump({k: {"pmin": [float(x) for x in v[0]], "pmax": [float(x) for x in v[1]], "dims": ["x", "y", "z"],
                           "units": [pr["meshunit"]] * 3, "tolerance_factor": 1e-12} for k, v in subs.items()}, fh)
    r, g = raises(Exception, df.Field.from_file, path)
    if r and subs and "ubregion" in repr(g):
        ctx.trivial()  # subregions of this case not accepted by the mesh (alignment tolerance, another property)
        return
    if not ctx.require(not r, "C09.foreign_reads", "from_file raised on an independent OVF %d.0 %s file" % (version, rep),
                       sig="foreign-v%d-%s-%s" % (version, rep, pr["quirk"]), error=repr(g) if r else None):
        return
    # the written numbers are parsed back exactly by float(): corners as written
    wmin = np.array([float(_num(v, pr["numfmt"])) for v in pmin])
    wmax = np.array([float(_num(v, pr["numfmt"])) for v in pmax])
    ctx.require(np.array_equal(g.mesh.region.pmin, wmin) and np.array_equal(g.mesh.region.pmax, wmax) and list(g.mesh.n) == list(n)
                and tuple(g.mesh.region.units) == (pr["meshunit"],) * 3, "C09.foreign_mesh", "mesh differs from the writer's",
                got_pmin=g.mesh.region.pmin, got_pmax=g.mesh.region.pmax, got_n=g.mesh.n, got_units=g.mesh.region.units,
                pmin=wmin, pmax=wmax, n=n)
    ok = g.nvdim == vd and g.array.shape == arr.shape and values_agree(g.array, arr, rep)
    ctx.require(ok, "C09.foreign_values", "values differ from the writer's content", sig="foreign-v%d-%s" % (version, rep),
                got_nvdim=g.nvdim, want_nvdim=vd)
    if version == 2:
        want_unit = None if units is None else pr["unit"]
        okm = g.unit == want_unit
        if want_labels is not None and vd > 1:
            okm = okm and g.vdims == want_labels
        ctx.require(okm, "C09.foreign_meta", "unit/labels differ from the writer's", got_unit=g.unit, want_unit=want_unit,
                    got_vdims=g.vdims, want_vdims=want_labels)
    else:
        ctx.require(g.unit is None and g.vdims == ["x", "y", "z"], "C09.foreign_meta", "OVF 1.0 file read with unit/labels",
                    got_unit=g.unit, got_vdims=g.vdims)
    if subs:
        oks = list(g.mesh.subregions.keys()) == list(subs.keys()) and all(
            np.array_equal(g.mesh.subregions[k].pmin, subs[k][0]) and np.array_equal(g.mesh.subregions[k].pmax, subs[k][1]) for k in subs)
        ctx.require(oks, "C09.foreign_subregions", "subregions of the independent side-car file not read")


def _fault_file(pr, tmp):
    n, vd, rep = pr["n"], pr["vd"], pr["rep"]
    p1, p2 = np.asarray(pr["p1"], float), np.asarray(pr["p2"], float)
    pmin, pmax = np.minimum(p1, p2), np.maximum(p1, p2)
    arr = make_values(pr["seed"], (*n, vd), "normal")
    path = os.path.join(tmp, "good.ovf")
    if pr["source"] == "lib":
        mesh = df.Mesh(p1=tuple(pmin), p2=tuple(pmax), n=tuple(n))
        df.Field(mesh, nvdim=vd, value=arr, unit="A/m").to_file(path, representation=rep)
    else:
        ovf_write(path, 1 if pr["source"] == "own1" else 2, rep, pmin, pmax, n, xfastest(arr), labels=None,
                  units=["A/m"] * vd)
    raw = open(path, "rb").read()
    m = re.search(rb"^# Begin: Data Binary [48]\n", raw, re.M)
    nb = 4 if rep == "bin4" else 8
    return raw, m.end(), nb, nb * (1 + int(np.prod(n)) * vd), arr


def check_fault(kind, pr, ctx, tmp):
    raw, start, nb, dlen, arr = _fault_file(pr, tmp)
    bad = os.path.join(tmp, "bad.ovf")
    # the undamaged file is read (otherwise the enumeration below is vacuous)
    open(bad, "wb").write(raw)
    r, g = raises(Exception, df.Field.from_file, bad)
    sound = (not r) and values_agree(g.array, arr, pr["rep"])
    clause = "C09.reject_truncated" if kind == "truncate" else "C09.reject_check_value"
    if not sound:
        ctx.require(False, clause, "the undamaged file is not read correctly, fault enumeration vacuous", sig="sound-file-not-read",
                    error=repr(g) if r else None)
        return
    accepted = []
    tried = 0
    if kind == "truncate":
        pos = set(range(start, start + dlen, pr["stride"]))
        pos |= {start, start + 1, start + nb - 1, start + nb, start + nb + 1, start + dlen - nb, start + dlen - 1}
        pos = sorted(p for p in pos if start <= p < start + dlen)
        for p in pos:
            with open(bad, "wb") as fh:
                fh.write(raw[:p])
            tried += 1
            r, g = raises(Exception, df.Field.from_file, bad)
            if not r:
                accepted.append(p - start)
        ctx.require(not accepted, clause, "truncated binary file yields a field", sig="truncated-%s-accepted" % pr["source"],
                    accepted_offsets=accepted[:20], tried=tried, data_bytes=dlen)
    else:
        rng = np.random.default_rng(pr["seed"] + 1)
        for i in range(nb):
            orig = raw[start + i]
            if pr["nalt"] >= 255:
                alts = [v for v in range(256) if v != orig]
            else:
                alts = {orig ^ (1 << b) for b in range(8)}
                while len(alts) < pr["nalt"]:
                    v = int(rng.integers(256))
                    if v != orig:
                        alts.add(v)
                alts = sorted(alts)
            for v in alts:
                dam = bytearray(raw)
                dam[start + i] = v
                with open(bad, "wb") as fh:
                    fh.write(bytes(dam))
                tried += 1
                r, g = raises(Exception, df.Field.from_file, bad)
                if not r:
                    accepted.append([i, v])
        ctx.require(not accepted, clause, "binary file with a damaged check value yields a field",
                    sig="checkvalue-%s-accepted" % pr["source"], accepted=accepted[:20], tried=tried)
