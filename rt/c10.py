"""C10 bounded run-time tier: HDF5 files preserve the complete state of a field.

Every case builds a field from its parameters, writes it with Field.to_file(<name>.h5|.hdf5), reads it back with
Field.from_file and compares attribute by attribute; the written file is also opened with plain h5py (independent view
of what the writer stored).  Legacy-layout files are synthesised with h5py according to the layout the legacy reader
documents (datasets field/mesh/region/p1, p2, field/mesh/n, field/dim, field/array; no version attribute).
Bounded: 1-4-d meshes of at most 5 cells per axis, 1-4 components."""
import json
import os
import tempfile
import warnings

import h5py
import numpy as np
import discretisedfield as df

from .common import raises, rand_region

PROPERTY = "C10"
CLAUSES = {
    "C10.reads": "a field written to .h5/.hdf5 is written and read back without error",
    "C10.corners": "region corners come back with equal values and the same type (int stays int, float stays float)",
    "C10.dims_units_tol": "dimension names, units and tolerance factor come back identical",
    "C10.n_bc": "cell counts and boundary-condition string come back identical",
    "C10.subregions": "subregions come back with the same names, order, corner values (int or fractional corners alike) and the mesh's dims/units",
    "C10.nvdim_labels": "component count and component labels (present or absent) come back identical",
    "C10.unit": "the unit comes back identical, None staying None",
    "C10.dtype": "the array dtype is preserved (real stays real, complex stays complex, int stays int)",
    "C10.values": "values come back bit-identical (nan/inf/-0.0/large ints included)",
    "C10.valid": "the validity mask comes back identical (bool)",
    "C10.equal": "the field read back == the field written (library equality, incl. mesh equality; nan-free data)",
    "C10.h5_view": "a plain h5py read of the written file shows the same state: version/type attributes, region attributes, n, bc, subregion names and corner table, nvdim, labels, unit string, array dtype and bytes, valid",
    "C10.legacy": "a file in the legacy layout (no version attribute) is still read: corners, cell counts, component count, values, side-car subregions",
}
RULE = ("ndim 1..4 x corner type (int, float at scale 10^U(-12,6), float with integral values) x subregions 0..3 overlapping, int or fractional "
        "corners x bc ('', neumann, dirichlet, mixed case, periodic subsets in any order) x dims/units (default, custom single-letter, multi-letter) x "
        "tolerance_factor x nvdim 1..4 x labels (default, custom, absent) x unit (None, str) x dtype (float64/32, complex128/64, int64/32) x "
        "validity (all, random mask); legacy: 3-d, 1-3 components, either corner order, with/without side-car; non-trivial = more than one cell; "
        "distinct by (kind, params)")
ASSUMPTIONS = [
    "bounded: meshes <= 5 cells per axis, <= 4 dimensions, <= 4 components, seeded sample",
    "trusted: h5py for the independent view and for synthesising legacy files",
    "legacy layout taken from the legacy reader's own description (discretisedfield <= 0.65 writer: p1, p2, n (i4), dim (i4), array)",
]

DTYPES = ["float64", "float64", "complex128", "int64", "float32", "complex64", "int32"]
UNITS = [None, "A/m", "T", "J/m^3", "None_", "rad"]


def make_array(seed, shape, dtype, special=True):
    rng = np.random.default_rng(seed)
    dt = np.dtype(dtype)
    if dt.kind == "i":
        a = rng.integers(-1000, 1000, size=shape).astype(dt)
        if special:
            flat = a.reshape(-1)
            info = np.iinfo(dt)
            for p, s in zip(rng.permutation(flat.size)[:3], [info.max, info.min + 1, info.max - 2]):
                flat[p] = s
        return a
    if dt.kind == "c":
        a = (rng.normal(size=shape) + 1j * rng.normal(size=shape)) * 10.0 ** rng.integers(-3, 4)
    else:
        a = rng.normal(size=shape) * 10.0 ** rng.integers(-3, 4)
    a = a.astype(dt)
    if special:
        flat = a.reshape(-1)
        sp = [0.0, -0.0, np.inf, -np.inf, np.nan, np.finfo(dt).max, np.finfo(dt).tiny, 1 / 3]
        for p, s in zip(rng.permutation(flat.size)[:len(sp)], sp):
            flat[p] = s if dt.kind == "f" else complex(s, -s if s == s else 1.0)
    return a


def _names(rng, k):
    pool = ["core", "shell", "left", "r_1", "A", "top layer"]
    idx = rng.permutation(len(pool))[:k]
    return [pool[i] for i in idx]


def _mesh_params(rng, ndim, ctype, nsub):
    nmax = 5 if ndim <= 3 else 3
    n = rng.integers(1, nmax + 1, size=ndim)
    if ctype == "int":
        # cell 0.5 (n even), 1 or 2  -> integer corners
        half = rng.integers(0, 2, size=ndim).astype(bool)
        n = np.where(half, 2 * ((n + 1) // 2), n)
        cell = np.where(half, 0.5, rng.integers(1, 3, size=ndim).astype(float))
        lo = rng.integers(-10, 10, size=ndim)
        hi = lo + np.rint(n * cell).astype(int)
        p1, p2 = [int(v) for v in lo], [int(v) for v in hi]
        pmin = lo.astype(float)
    elif ctype == "floatint":
        cell = rng.integers(1, 3, size=ndim).astype(float)
        lo = rng.integers(-10, 10, size=ndim).astype(float)
        p1, p2 = lo.tolist(), (lo + n * cell).tolist()
        pmin = lo
    else:
        if nsub:
            s = 10.0 ** rng.uniform(-10, -1)
            off = rng.uniform(-3, 3, size=ndim) * s
            e = rng.uniform(0.3, 1.7, size=ndim) * s
            p1, p2 = off.tolist(), (off + e).tolist()
        else:
            p1, p2 = rand_region(rng, ndim)
        pmin = np.minimum(p1, p2)
        cell = (np.maximum(p1, p2) - pmin) / n
    if ctype != "int" and rng.integers(2):
        p1, p2 = p2, p1
    subs = []
    names = _names(rng, nsub)
    for k in range(nsub):
        lo_i = np.array([int(rng.integers(0, m)) for m in n])
        hi_i = np.array([int(rng.integers(l + 1, m + 1)) for l, m in zip(lo_i, n)])
        a, b = pmin + lo_i * cell, pmin + hi_i * cell
        if ctype in ("int", "floatint") and np.all(a == np.rint(a)) and np.all(b == np.rint(b)) and rng.integers(3):
            a, b = [int(v) for v in a], [int(v) for v in b]      # int-typed subregion corners
        else:
            a, b = [float(v) for v in a], [float(v) for v in b]
        subs.append([names[k], a, b])
    return p1, p2, [int(v) for v in n], subs


def _dims_units(rng, ndim):
    c = int(rng.integers(4))
    if c == 0:
        return None, None
    if c == 1:
        letters = list("abcdtuvw")
        d = [letters[i] for i in rng.permutation(len(letters))[:ndim]]
        return d, [["nm", "m", "s", "K", "um"][int(rng.integers(5))] for _ in range(ndim)]
    if c == 2:
        return ["x0", "theta", "r", "time"][:ndim], ["m", "rad", "nm", "s"][:ndim]
    return None, [["nm", "s", "1", "Å"][int(rng.integers(4))] for _ in range(ndim)]


def _bc(rng, dims, ndim):
    names = dims if dims is not None else (["x", "y", "z"][:ndim] if ndim <= 3 else ["x%d" % i for i in range(ndim)])
    c = int(rng.integers(6))
    if c == 0:
        return ""
    if c == 1:
        return "neumann"
    if c == 2:
        return "dirichlet"
    if c == 3:
        return "Neumann"
    single = [d for d in names if len(d) == 1]
    if not single:
        return "dirichlet"
    k = int(rng.integers(1, len(single) + 1))
    return "".join(single[i] for i in rng.permutation(len(single))[:k])


def cases(ctx):
    rng = ctx.rng
    quick = ctx.tier == "quick"
    reps = 8 if quick else 150
    for _ in range(reps):
        for ndim in (1, 2, 3, 4):
            for ctype in ("int", "float", "floatint"):
                for nsub in (0, 1, 2, 3):
                    p1, p2, n, subs = _mesh_params(rng, ndim, ctype, nsub)
                    dims, units = _dims_units(rng, ndim)
                    nvdim = int(rng.integers(1, 5))
                    lab = int(rng.integers(4))
                    vdims = None
                    if lab == 1:
                        vdims = [["s"], ["p", "q"], ["mx", "my", "mz"], ["t", "a", "b", "c"]][nvdim - 1]
                    elif lab == 2 and nvdim > 1 and nvdim != ndim:
                        vdims = []  # labels absent on a vector field (the constructor needs labels when nvdim == ndim)
                    yield "roundtrip", {
                        "p1": p1, "p2": p2, "n": n, "subs": subs, "dims": dims, "units": units,
                        "tol": [1e-12, 1e-9, 1e-6, 1e-15][int(rng.integers(4))], "bc": _bc(rng, dims, ndim),
                        "nvdim": nvdim, "vdims": vdims, "unit": UNITS[int(rng.integers(len(UNITS)))] if rng.integers(3) else None,
                        "dtype": DTYPES[int(rng.integers(len(DTYPES)))], "special": bool(rng.integers(2)),
                        "valid": bool(rng.integers(2)), "seed": int(rng.integers(1 << 30)),
                        "suffix": [".h5", ".hdf5"][int(rng.integers(2))]}
    # every dtype / unit / label class at least once on a fixed mesh
    base = {"p1": [0.0, -1.0, 0.5], "p2": [2.0, 1.0, 2.0], "n": [4, 2, 3], "subs": [["left", [0.0, -1.0, 0.5], [1.0, 1.0, 1.5]]],
            "dims": None, "units": None, "tol": 1e-12, "bc": "xz", "special": True, "valid": True, "suffix": ".h5"}
    k = 0
    for dt in ("float64", "float32", "complex128", "complex64", "int64", "int32"):
        for unit in (None, "A/m"):
            for nvdim, vdims in ((1, None), (1, ["s"]), (3, None), (3, ["a", "b", "c"]), (4, []), (2, None)):
                k += 1
                yield "roundtrip", dict(base, nvdim=nvdim, vdims=vdims, unit=unit, dtype=dt, seed=1000 + k)
    # integer-cornered mesh with fractional subregion corners, the plain documented use
    yield "roundtrip", {"p1": [0, 0], "p2": [3, 3], "n": [6, 6], "subs": [["a", [0.5, 0.5], [2.5, 3.0]], ["b", [0, 1], [2, 3]]],
                        "dims": None, "units": None, "tol": 1e-12, "bc": "", "nvdim": 1, "vdims": None, "unit": "A/m", "dtype": "float64",
                        "special": False, "valid": False, "seed": 3, "suffix": ".hdf5"}
    yield "roundtrip", {"p1": [0.0], "p2": [1.0], "n": [1], "subs": [], "dims": None, "units": None, "tol": 1e-12, "bc": "", "nvdim": 1,
                        "vdims": None, "unit": "T", "dtype": "float64", "special": False, "valid": False, "seed": 4, "suffix": ".h5"}
    # legacy layout
    for _ in range(4 if quick else 40):
        p1, p2, n, subs = _mesh_params(rng, 3, "float", int(rng.integers(0, 3)))
        yield "legacy", {"p1": p1, "p2": p2, "n": n, "dim": int(rng.integers(1, 4)), "subs": subs, "seed": int(rng.integers(1 << 30))}
    yield "legacy", {"p1": [0.0, 0.0, 0.0], "p2": [1e-8, 5e-9, 5e-9], "n": [10, 5, 5], "dim": 3, "subs": [], "seed": 9}


# ------------------------------------------------------------------ checks
def same_bytes(a, b):
    a, b = np.ascontiguousarray(a), np.ascontiguousarray(b)
    return a.dtype == b.dtype and a.shape == b.shape and a.tobytes() == b.tobytes()


def same_values(a, b):
    """value equality that treats nan == nan (used when the dtype changed)"""
    a, b = np.asarray(a), np.asarray(b)
    if a.shape != b.shape:
        return False
    if a.dtype.kind in "iu" and b.dtype.kind in "iu":
        return bool(np.array_equal(a, b))
    if a.dtype.kind in "iu" or b.dtype.kind in "iu":
        # exact comparison through python ints / floats
        return all((x == y) or (x != x and y != y) for x, y in zip(a.reshape(-1).tolist(), b.reshape(-1).tolist()))
    return bool(np.array_equal(a, b, equal_nan=True))


def _strs(x):
    return [v.decode() if isinstance(v, bytes) else str(v) for v in np.asarray(x).reshape(-1).tolist()]


def check(kind, pr, ctx):
    with tempfile.TemporaryDirectory(prefix="rtc10_") as tmp, warnings.catch_warnings():
        warnings.simplefilter("ignore")
        if kind == "roundtrip":
            return check_roundtrip(pr, ctx, tmp)
        return check_legacy(pr, ctx, tmp)


def check_roundtrip(pr, ctx, tmp):
    n, nvdim = pr["n"], pr["nvdim"]
    ndim = len(n)
    try:
        region = df.Region(p1=tuple(pr["p1"]), p2=tuple(pr["p2"]), dims=pr["dims"], units=pr["units"], tolerance_factor=pr["tol"])
        subs = {name: df.Region(p1=tuple(a), p2=tuple(b)) for name, a, b in pr["subs"]}
        mesh = df.Mesh(region=region, n=tuple(n), bc=pr["bc"], subregions=subs)
    except ValueError:
        if not pr["subs"]:
            raise
        ctx.trivial()  # subregions not accepted by the mesh (alignment tolerance; another property)
        return
    if int(np.prod(n)) == 1:
        ctx.trivial()
    arr = make_array(pr["seed"], (*n, nvdim), pr["dtype"], pr["special"])
    valid = True
    if pr["valid"]:
        valid = np.random.default_rng(pr["seed"] + 1).integers(0, 2, size=tuple(n)).astype(bool)
        valid.reshape(-1)[0] = False
    f = df.Field(mesh, nvdim=nvdim, value=arr, vdims=pr["vdims"], unit=pr["unit"], dtype=arr.dtype, valid=valid)
    assert f.array.dtype == arr.dtype and same_bytes(f.array, arr)
    want_sub = {k: (np.array(a), np.array(b)) for k, a, b in pr["subs"]}   # as given by the user (int or float typed)
    int_region = np.asarray(mesh.region.pmin).dtype.kind in "iu"
    frac_sub = any(np.any(np.asarray(a, float) % 1) or np.any(np.asarray(b, float) % 1) for a, b in want_sub.values())
    subsig = "fractional-subregion-corners-truncated-in-int-cornered-mesh" if (int_region and frac_sub) else None

    path = os.path.join(tmp, "f" + pr["suffix"])
    r, e = raises(Exception, f.to_file, path)
    if not ctx.require(not r, "C10.reads", "to_file raised", sig="to_file-raises", error=repr(e) if r else None):
        return

    # ---------------- independent view of the file
    probs = []
    with h5py.File(path, "r") as h:
        def need(cond, what):
            if not cond:
                probs.append(what)
        need(h.attrs.get("ubermag-hdf5-file-version") == "0.1", "version attribute")
        need(h.attrs.get("type") == "discretisedfield.Field", "type attribute")
        try:
            hr, hm, hf = h["field/mesh/region"], h["field/mesh"], h["field"]
            need(same_values(hr.attrs["pmin"], mesh.region.pmin) and np.asarray(hr.attrs["pmin"]).dtype.kind == mesh.region.pmin.dtype.kind, "region pmin")
            need(same_values(hr.attrs["pmax"], mesh.region.pmax) and np.asarray(hr.attrs["pmax"]).dtype.kind == mesh.region.pmax.dtype.kind, "region pmax")
            need(_strs(hr.attrs["dims"]) == list(mesh.region.dims), "dims")
            need(_strs(hr.attrs["units"]) == list(mesh.region.units), "units")
            need(float(hr.attrs["tolerance_factor"]) == pr["tol"], "tolerance_factor")
            need(np.asarray(hm.attrs["n"]).tolist() == list(n), "n")
            need(hm.attrs["bc"] == pr["bc"].lower(), "bc")
            need(int(hf.attrs["nvdim"]) == nvdim, "nvdim")
            if f.vdims is None:
                need(isinstance(hf.attrs["vdims"], str) and hf.attrs["vdims"] == "None", "vdims(absent)")
            else:
                need(not isinstance(hf.attrs["vdims"], str) and _strs(hf.attrs["vdims"]) == list(f.vdims), "vdims")
            if pr["unit"] is not None:
                need(hf.attrs["unit"] == pr["unit"], "unit")
            need(hf["array"].dtype == arr.dtype and same_bytes(hf["array"][...], arr), "array")
            need(hf["valid"].dtype == np.bool_ and np.array_equal(hf["valid"][...], f.valid), "valid")
            sub_ok = True
            if want_sub:
                sub_ok = ("subregion_names" in hm and "subregions" in hm and _strs(hm["subregion_names"][...]) == list(want_sub)
                          and hm["subregions"].shape == (len(want_sub), 2 * ndim)
                          and all(same_values(hm["subregions"][i][:ndim], v[0]) and same_values(hm["subregions"][i][ndim:], v[1])
                                  for i, v in enumerate(want_sub.values())))
            else:
                sub_ok = "subregions" not in hm
        except KeyError as e:
            probs.append("missing " + repr(e))
            sub_ok = True
    ctx.require(not probs, "C10.h5_view", "h5py view of the written file differs from the field", problems=probs)
    ctx.require(sub_ok, "C10.h5_view", "subregion table in the written file differs from the subregions", sig=subsig)

    # ---------------- read back
    r, g = raises(Exception, df.Field.from_file, path)
    if not ctx.require(not r, "C10.reads", "from_file raised on a file written by to_file",
                       sig=subsig or "from_file-raises", error=repr(g) if r else None):
        return
    gr, fr = g.mesh.region, mesh.region
    ctx.require(same_values(gr.pmin, fr.pmin) and same_values(gr.pmax, fr.pmax) and gr.pmin.dtype.kind == fr.pmin.dtype.kind
                and gr.pmax.dtype.kind == fr.pmax.dtype.kind, "C10.corners", "region corners differ",
                got=[gr.pmin, gr.pmax, str(gr.pmin.dtype)], want=[fr.pmin, fr.pmax, str(fr.pmin.dtype)])
    ctx.require(tuple(gr.dims) == tuple(fr.dims) and all(type(d) is str for d in gr.dims) and tuple(gr.units) == tuple(fr.units)
                and all(type(u) is str for u in gr.units) and gr.tolerance_factor == fr.tolerance_factor, "C10.dims_units_tol",
                "dims/units/tolerance_factor differ", got=[gr.dims, gr.units, gr.tolerance_factor], want=[fr.dims, fr.units, fr.tolerance_factor])
    ctx.require(list(g.mesh.n) == list(n) and g.mesh.bc == mesh.bc and isinstance(g.mesh.bc, str), "C10.n_bc", "n or bc differ",
                got=[g.mesh.n, g.mesh.bc], want=[n, mesh.bc])
    gs = g.mesh.subregions
    ctx.require(list(gs.keys()) == list(want_sub.keys()) and all(
        same_values(gs[k].pmin, np.minimum(*want_sub[k])) and same_values(gs[k].pmax, np.maximum(*want_sub[k]))
        and tuple(gs[k].dims) == tuple(fr.dims) and tuple(gs[k].units) == tuple(fr.units) for k in want_sub),
        "C10.subregions", "subregions differ", sig=subsig,
        got={k: [v.pmin, v.pmax] for k, v in gs.items()}, want={k: [v[0], v[1]] for k, v in want_sub.items()})
    labsig = "absent-labels-of-vector-field-read-back-as-defaults" if (f.vdims is None and nvdim > 1) else None
    ctx.require(g.nvdim == nvdim and g.vdims == f.vdims, "C10.nvdim_labels", "component count / labels differ", sig=labsig,
                got=[g.nvdim, g.vdims], want=[nvdim, f.vdims])
    ctx.require(g.unit == pr["unit"] and type(g.unit) is type(pr["unit"]), "C10.unit", "unit differs",
                sig="unit-None-read-back-as-str" if (pr["unit"] is None and g.unit == "None") else None, got=g.unit, want=pr["unit"])
    same_dt = g.array.dtype == arr.dtype
    ctx.require(same_dt, "C10.dtype", "array dtype differs", sig="dtype-%s-read-back-as-%s" % (arr.dtype, g.array.dtype),
                got=str(g.array.dtype), want=str(arr.dtype))
    if same_dt:
        ctx.require(same_bytes(g.array, arr), "C10.values", "values are not bit-identical")
    else:
        ctx.require(same_values(g.array, arr), "C10.values", "values changed (dtype changed as well)",
                    sig="values-changed-with-dtype-%s-to-%s" % (arr.dtype, g.array.dtype))
    ctx.require(g.valid.dtype == np.bool_ and g.valid.shape == tuple(n) and np.array_equal(g.valid, f.valid), "C10.valid", "validity mask differs")
    if not (arr.dtype.kind in "fc" and np.any(np.isnan(arr))):
        ctx.require(bool(g == f) and bool(g.mesh == f.mesh) and bool(f == g), "C10.equal", "field read back != field written")


def check_legacy(pr, ctx, tmp):
    n, dim = pr["n"], pr["dim"]
    p1, p2 = np.array(pr["p1"], float), np.array(pr["p2"], float)
    pmin, pmax = np.minimum(p1, p2), np.maximum(p1, p2)
    if int(np.prod(n)) == 1:
        ctx.trivial()
    arr = make_array(pr["seed"], (*n, dim), "float64", True)
    path = os.path.join(tmp, "legacy.hdf5")
    with h5py.File(path, "w") as h:
        gf = h.create_group("field")
        gm = gf.create_group("mesh")
        gr = gm.create_group("region")
        gr.create_dataset("p1", data=p1)
        gr.create_dataset("p2", data=p2)
        gm.create_dataset("n", dtype="i4", data=np.array(n))
        gf.create_dataset("dim", dtype="i4", data=dim)
        gf.create_dataset("array", data=arr)
    subs = {k: (np.array(a), np.array(b)) for k, a, b in pr["subs"]}
    if subs:
        with open(path + ".subregions.json", "w") as fh:
            json.dump({k: {"pmin": [float(x) for x in np.minimum(a, b)], "pmax": [float(x) for x in np.maximum(a, b)],
                           "dims": ["x", "y", "z"], "units": ["m", "m", "m"], "tolerance_factor": 1e-12} for k, (a, b) in subs.items()}, fh)
    r, g = raises(Exception, df.Field.from_file, path)
    if r and subs and "ubregion" in repr(g):
        ctx.trivial()
        return
    if not ctx.require(not r, "C10.legacy", "legacy-layout file is not read",
                       sig="legacy-loader-raises-" + type(g).__name__ if r else None, error=repr(g) if r else None):
        return
    ok = (np.array_equal(g.mesh.region.pmin, pmin) and np.array_equal(g.mesh.region.pmax, pmax) and list(g.mesh.n) == list(n)
          and g.nvdim == dim and same_bytes(g.array, arr))
    ctx.require(ok, "C10.legacy", "legacy-layout file read to different content", got=[g.mesh.region.pmin, g.mesh.region.pmax, g.mesh.n, g.nvdim])
    oks = list(g.mesh.subregions) == list(subs) and all(
        np.array_equal(g.mesh.subregions[k].pmin, np.minimum(*subs[k])) and np.array_equal(g.mesh.subregions[k].pmax, np.maximum(*subs[k]))
        for k in subs)
    ctx.require(oks, "C10.legacy", "side-car subregions of a legacy file not read", sig="legacy-subregions")
