"""C11 bounded run-time tier: Field.fftn / ifftn / rfftn / irfftn and Mesh.fftn / ifftn against a
direct O(N^2) discrete Fourier sum (extended precision) and numpy's fftfreq / rfftfreq tables.
Bounded: <= 6 cells per axis in 1-3 dimensions, <= 4 cells per axis in 4 dimensions, 1-4 components.
Every transform is applied TWICE to the same field object and the field (array bytes, validity, mesh, labels),
the caller's array it was built from and the fields it was derived from are compared before / after (frame)."""
import itertools
import numpy as np
import discretisedfield as df
from .common import raises

PROPERTY = "C11"
EPS = np.finfo(float).eps
EPS32 = float(np.finfo(np.float32).eps)
CLAUSES = {
    "C11.dft_values": "fftn (real, complex, integer, single-precision input; fresh fields and fields produced by earlier transforms / arithmetic): every k-cell holds sum over cells of value*exp(-2 pi i k.r), value = what the field held BEFORE the call, k = centre of that k-cell as reported by the k-mesh, r = index*cell counted from the first cell (direct O(N^2) sum in extended precision; |diff| <= 64 eps * sum|value| of the component; eps = single precision for float32/complex64/float16 fields)",
    "C11.rdft_values": "rfftn: the same direct sum in every cell of the real-transform k-mesh (same budget)",
    "C11.kmesh_freqs": "fftn k-mesh: n unchanged and, per axis, cell centres == fftshift(fftfreq(n, cell)) (8 ulp of the largest |frequency| of the axis, 1/cell for a single cell)",
    "C11.rkmesh_freqs": "rfftn k-mesh: last axis has n//2+1 cells centred at rfftfreq(n, cell) (non-negative half, unshifted), other axes as for fftn (same budget)",
    "C11.k_names": "k-mesh dims are k_<dim>; units are reciprocal: '(<unit>)' followed by a -1 exponent; both for Field transforms and Mesh.fftn",
    "C11.inverse_values": "ifftn(fftn(f)) == f (real and complex f) and irfftn(rfftn(f), shape=n) == f (64 ulp of max|f|); real input comes back real from irfftn; the chain may re-use its intermediate fields (fftn(ifftn(fftn(f))) == fftn(f), 64 eps * sum|f|)",
    "C11.inverse_dft": "ifftn of ARBITRARY k-space data G (complex, real, integer, single precision) on a k-mesh: the direct Fourier sum of the result (r = index * original cell) at the k-cell centres gives G back (64 eps * sum|G|), and fftn(ifftn(G)) == G through the library (64 ulp of max|G|)",
    "C11.inverse_mesh": "mesh of ifftn/irfftn (and Mesh.fftn().ifftn()): original n, original cell (8 ulp), centred at the origin (8 ulp of the edge length), original dims and units",
    "C11.irfftn_shape": "irfftn/Mesh.ifftn(rfft=True) without shape take the last axis as even: an even last axis is restored (values and mesh); an odd one (>= 3) is NOT restored without shape but is with shape=n (single-cell last axis restored with shape=n)",
    "C11.rfft_half": "rfftn array == the half of the fftn array with non-negative last-axis frequency (Nyquist cell of an even axis == the -Nyquist cell of fftn); 64 eps * sum|value|",
    "C11.real_of_complex": "rfftn of a complex-valued field (any imaginary part, also the rounding-size one left by an earlier ifftn) is either refused (exception) or equals the non-negative half of fftn of that field (64 eps * sum|value|) on the rfft k-mesh; the imaginary part is never dropped silently",
    "C11.zero_freq": "the cell with all frequencies zero (index n//2 per shifted axis, 0 on the rfft axis) holds the plain sum over all cells, real and complex fields (64 eps * sum|value|)",
    "C11.linear": "T(alpha*a + beta*b) == alpha*T(a) + beta*T(b) for T in fftn, ifftn (complex alpha, beta, a, b), rfftn (real), irfftn (real alpha, beta; arbitrary complex half spectra) (64 eps * (|alpha| sum|a| + |beta| sum|b|), inverse: max instead of sum); the combination is formed from the operand FIELDS after they have been transformed, and T(a) taken again afterwards is unchanged",
    "C11.per_component": "component i of the transform == transform of the one-component field holding component i (all four kinds; 16 eps * sum|value|); nvdim is preserved",
    "C11.rename": "forward: vdims -> ft_<vdim>, vdim_mapping {v: d} -> {ft_v: k_d}; inverse strips the prefixes again (equals the original vdims/vdim_mapping); scalar fields without vdims keep None / {}",
    "C11.frame": "a transform (fftn, ifftn, rfftn, irfftn with/without shape - also when it refuses -, Mesh.fftn / Mesh.ifftn) does not change what it is applied to: field array (dtype, shape, bytes), valid mask, mesh (n, corners, dims, units, subregions, bc), vdims, vdim_mapping, unit are bit-identical afterwards; so are the caller's array the field was built from (any memory layout) and the fields it was derived from (parent of a component, operands of an arithmetic expression, the k-field an inverse came from); the result shares no memory with the input",
    "C11.repeat": "applying the same transform a second time to the same field object - directly, and again after transforms of other fields/meshes in between - gives the bit-identical result (array, mesh, labels) or refuses again",
}
RULE = ("shapes: every tuple of axis sizes in 1..6 for 1, 2 and 3 dimensions (258 shapes = every mix of single/even/odd axes); 4 dimensions: sizes 1..3 "
        "(thorough all 81 + 40 seeded with sizes 1..4, quick 24 incl. all-single and all-3); per shape (x5 in thorough) seeded anisotropic cell "
        "sizes (10^U(-9,3) scale, ratio up to 7), seeded mesh offset (incl. far from the origin), 1-4 components, real and complex data (normal, "
        "non-symmetric), default / custom / permuted vdims+vdim_mapping, default / custom dims+units; kinds: forward (values, k-mesh, names, inverse, "
        "half, zero frequency, per component, renaming; complex fields: real transform refused-or-consistent), linear (re-used operand fields) and "
        "frame: field dtype {float64, complex128, float32, complex64, int64, int32, uint8, bool, float16} x memory layout of the caller's array "
        "{C, Fortran, strided view, negative strides} x 5 seeded shapes (1-4 dimensions), and field history {result of ifftn of arbitrary complex data, "
        "fftn().ifftn() round trip of a real / complex field, result of irfftn, component of a vector field, arithmetic expression of two fields} x 25 "
        "seeded shapes, with seeded valid masks, units, subregions (exact binary geometry) - all four transforms on the real-space field, on the spectra "
        "it produces and on fresh k-space fields of the same dtype/layout; EVERY transform call of every kind is made twice on the same object with a "
        "before/after comparison; trivial = one cell in total; distinct by (kind, params)")
ASSUMPTIONS = [
    "bounded: <= 6 cells per axis (<= 4 in 4-d), 1-4 dimensions, 1-4 components, seeded data and geometry",
    "oracle sum evaluated in numpy longdouble (80-bit on x86; falls back to double elsewhere) - trusted: numpy exp/cos/sin, np.fft.fftfreq/rfftfreq/fftshift tables",
    "the real transform of a complex field is allowed to be refused (scipy does); if it answers, the answer must be the half of the full transform",
    "irfftn of spectra that are NOT the real transform of a real field (arbitrary complex / real / integer data): only frame, repeatability and real-linearity are demanded, the statement does not define their values",
    "non-contiguous memory: reached through the caller's array handed to the constructor (the constructor is observed to copy into a fresh C-ordered array of the requested dtype; a field that kept a view would be covered by the same frame clause) - Field._array is not assigned directly",
    "'to rounding' for float32 / complex64 / float16 fields means single precision (scipy transforms them in single precision)",
    "extra keyword arguments forwarded to scipy (norm=, workers=, overwrite_x=, ...) are not exercised",
    "unit format: only '(<unit>)' + a '-1' exponent marker is demanded, not the exact TeX string",
    "bit-identity of a repeated call assumes a deterministic FFT backend (pocketfft, single worker)",
]

VD = ["mu", "mv", "mw", "mt"]
DIMS = ["a", "b", "c", "d"]
UNITS = ["nm", "s", "um", "rad"]
DTYPES = ["float64", "complex128", "float32", "complex64", "int64", "int32", "uint8", "bool", "float16"]
LAYOUTS = ["C", "F", "strided", "negative"]
HISTORIES = ["ifftn", "roundtrip", "irfftn", "component", "arith"]
SINGLE = ("float32", "complex64", "float16")
COMPLEX = ("complex128", "complex64")


# ---------------------------------------------------------------------------------- enumeration
def _shapes(ctx):
    rng = ctx.rng
    out = [(k,) for k in range(1, 7)]
    out += list(itertools.product(range(1, 7), repeat=2))
    out += list(itertools.product(range(1, 7), repeat=3))
    all4 = list(itertools.product(range(1, 4), repeat=4))
    if ctx.tier == "thorough":
        out += all4
        out += [tuple(int(k) for k in rng.integers(1, 5, size=4)) for _ in range(40)]
    else:
        pick = rng.choice(len(all4), size=22, replace=False)
        out += [(1, 1, 1, 1), (3, 3, 3, 3)] + [all4[int(i)] for i in pick]
    return out


def _geom(rng, n, j):
    nd = len(n)
    scale = 10.0 ** rng.uniform(-9, 3)
    cell = (scale * rng.uniform(1.0, 7.0, size=nd)).tolist()
    mode = j % 3
    if mode == 0:
        p1 = [0.0] * nd
    elif mode == 1:
        p1 = (rng.uniform(-3, 3, size=nd) * scale).tolist()
    else:
        p1 = (rng.uniform(-3, 3, size=nd) * scale * 1e3).tolist()
    return cell, p1


def _geom_exact(rng, n):
    """small-integer multiples of a power of two: every cell face is exactly representable (needed for subregions)"""
    nd = len(n)
    unit = 2.0 ** int(rng.integers(-30, 8))
    cell = (unit * rng.integers(1, 8, size=nd)).tolist()
    p1 = [float(c * int(k)) for c, k in zip(cell, rng.integers(-5, 6, size=nd))]
    return cell, p1


def _rand_shape(rng, nd):
    hi = 7 if nd <= 3 else 4
    return [int(k) for k in rng.integers(1, hi, size=nd)]


def _frame_case(rng, n, j, dtype, layout, hist):
    sub = bool(j % 4 == 1)
    cell, p1 = _geom_exact(rng, n) if sub else _geom(rng, n, j)
    nv = int(rng.integers(1, 5))
    if hist in ("component", "arith") and j % 2:
        nv = max(nv, 2)
    return {"n": list(n), "cell": cell, "p1": p1, "names": bool(rng.integers(2)), "nvdim": nv,
            "vd": ["default", "custom", "perm"][int(rng.integers(3))], "seed": int(rng.integers(1 << 30)),
            "dtype": dtype, "layout": layout, "hist": hist, "sub": sub,
            "valid": bool(rng.integers(2)), "unit": [None, "A/m"][int(rng.integers(2))]}


def cases(ctx):
    rng = ctx.rng
    reps = 1 if ctx.tier == "quick" else 5
    j = 0
    for n in _shapes(ctx):
        for _ in range(reps):
            for cplx in (False, True):
                j += 1
                cell, p1 = _geom(rng, n, j)
                pr = {"n": list(n), "cell": cell, "p1": p1,
                      "names": bool(rng.integers(2)),
                      "nvdim": int(rng.integers(1, 5)) if j % 5 else len(n),
                      "complex": cplx,
                      "vd": ["default", "custom", "perm"][int(rng.integers(3))],
                      "seed": int(rng.integers(1 << 30))}
                yield "forward", pr
                if j % 3 == 0:
                    pl = dict(pr)
                    pl["seed"] = int(rng.integers(1 << 30))
                    pl["alpha"] = rng.normal(size=2).tolist()
                    pl["beta"] = (rng.normal(size=2) * 10.0 ** rng.integers(-3, 4)).tolist()
                    yield "linear", pl
    # frame: dtype x layout of fresh fields, and fields with a history
    j = 0
    for _ in range(reps):
        for dtype in DTYPES:
            for layout in LAYOUTS:
                for nd in (1, 2, 3, 3, 4):
                    j += 1
                    yield "frame", _frame_case(rng, _rand_shape(rng, nd), j, dtype, layout, "fresh")
        for hist in HISTORIES:
            for i in range(25):
                j += 1
                nd = 1 + (i % 4)
                yield "frame", _frame_case(rng, _rand_shape(rng, nd), j, ["float64", "complex128"][i % 2], LAYOUTS[i % 4], hist)
    # fixed corner cases: the doc-string meshes, default names, vector field with default mapping
    yield "forward", {"n": [5], "cell": [2.0], "p1": [0.0], "names": False, "nvdim": 3, "complex": False, "vd": "default", "seed": 1}
    yield "forward", {"n": [5, 5], "cell": [2.0, 2.0], "p1": [0.0, 0.0], "names": False, "nvdim": 2, "complex": False, "vd": "default", "seed": 2}
    yield "forward", {"n": [4, 1, 5], "cell": [1e-9, 2e-9, 3e-9], "p1": [-2e-9, 5e-9, 0.0], "names": False, "nvdim": 3, "complex": False, "vd": "default", "seed": 3}
    yield "forward", {"n": [3, 4, 6], "cell": [1e-9, 2e-9, 3e-9], "p1": [-2e-9, 5e-9, 0.0], "names": True, "nvdim": 3, "complex": True, "vd": "perm", "seed": 4}
    yield "linear", {"n": [3, 4, 5], "cell": [1.0, 2.0, 0.5], "p1": [0.1, 0.2, 0.3], "names": False, "nvdim": 3, "complex": False, "vd": "default", "seed": 5,
                     "alpha": [2.0, 0.5], "beta": [-300.0, 1.0]}
    yield "linear", {"n": [5, 4], "cell": [0.5, 0.75], "p1": [1.0, -2.0], "names": False, "nvdim": 3, "complex": True, "vd": "default", "seed": 6,
                     "alpha": [1.0, 0.0], "beta": [1.0, 0.0]}
    # a real field sent through fftn().ifftn() and transformed again; complex64 / int32 / float32 fields, doc-string sized
    base = {"n": [5, 4], "cell": [0.5, 0.75], "p1": [1.0, -2.0], "names": False, "nvdim": 1, "vd": "default", "seed": 7,
            "layout": "C", "sub": False, "valid": False, "unit": None}
    yield "frame", dict(base, dtype="float64", hist="roundtrip")
    yield "frame", dict(base, dtype="complex128", hist="fresh", nvdim=2)
    yield "frame", dict(base, dtype="complex64", hist="fresh", nvdim=3, n=[6, 1, 3], cell=[1.0, 2.0, 0.25], p1=[0.0, 0.0, 0.0])
    yield "frame", dict(base, dtype="int32", hist="fresh", layout="strided", n=[6], cell=[2.0], p1=[0.0])
    yield "frame", dict(base, dtype="float32", hist="fresh", layout="F", nvdim=2, valid=True)


# ---------------------------------------------------------------------------------- construction
def _build_mesh(pr):
    n = list(pr["n"])
    nd = len(n)
    cell = np.array(pr["cell"], dtype=float)
    p1 = np.array(pr["p1"], dtype=float)
    p2 = p1 + np.array(n) * cell
    kw = {"dims": DIMS[:nd], "units": UNITS[:nd]} if pr["names"] else {}
    region = df.Region(p1=tuple(p1), p2=tuple(p2), **kw)
    if pr.get("sub"):
        # exact geometry (see _geom_exact): a box of whole cells and the whole region
        lo = [k // 3 for k in n]
        hi = [max(l + 1, k - k // 4) for l, k in zip(lo, n)]
        sub = {"box": df.Region(p1=tuple(p1 + np.array(lo) * cell), p2=tuple(p1 + np.array(hi) * cell), **kw),
               "whole": df.Region(p1=tuple(p1), p2=tuple(p2), **kw)}
        return df.Mesh(region=region, n=tuple(n), subregions=sub)
    return df.Mesh(region=region, n=tuple(n))


def _build_field(mesh, pr, data, nv=None, **extra):
    nv = pr["nvdim"] if nv is None else nv
    dims = list(mesh.region.dims)
    kw = dict(extra)
    if pr["vd"] == "custom":
        kw["vdims"] = (["s"] if nv == 1 else VD[:nv])
    elif pr["vd"] == "perm":
        vd = ["s"] if nv == 1 else VD[:nv]
        kw["vdims"] = vd
        kw["vdim_mapping"] = {v: dims[(i + 1) % len(dims)] for i, v in enumerate(vd)}
    return df.Field(mesh, nvdim=nv, value=data, **kw)


def _data(rng, n, nv, cplx):
    a = rng.normal(size=(*n, nv)) * (10.0 ** rng.integers(-2, 3))
    a += rng.uniform(-1, 1, size=nv)          # non-zero mean, per component different
    if cplx:
        a = a + 1j * rng.normal(size=(*n, nv))
    return a


def _typed(rng, shape, dtype):
    """seeded data of the named dtype, non-symmetric, non-zero mean"""
    if dtype in ("float64", "float32", "float16", "complex128", "complex64"):
        a = rng.normal(size=shape) * (10.0 ** rng.integers(-1, 3)) + rng.uniform(-1, 1, size=shape[-1])
        if dtype in COMPLEX:
            a = a + 1j * (rng.normal(size=shape) * (10.0 ** rng.integers(-1, 2)) + rng.uniform(-1, 1, size=shape[-1]))
        return a.astype(dtype)
    if dtype in ("int64", "int32"):
        return rng.integers(-1000, 1001, size=shape).astype(dtype)
    if dtype == "uint8":
        return rng.integers(0, 256, size=shape).astype(dtype)
    if dtype == "bool":
        return rng.integers(0, 2, size=shape).astype(bool)
    raise ValueError(dtype)


def _layout(a, layout):
    """the same values in another memory layout (returns the array to hand to the library; may be a view)"""
    if layout == "C":
        return np.ascontiguousarray(a)
    if layout == "F":
        return np.asfortranarray(a)
    if layout == "strided":
        big = np.zeros(tuple(2 * s + 1 for s in a.shape), dtype=a.dtype)
        sl = tuple(slice(1, 2 * s + 1, 2) for s in a.shape)
        big[sl] = a
        return big[sl]
    if layout == "negative":
        sl = (slice(None, None, -1),) * a.ndim
        return np.ascontiguousarray(a[sl])[sl]
    raise ValueError(layout)


def _dtype_kw(dtype):
    return {} if dtype in ("float64", "complex128") else {"dtype": np.dtype(dtype).type}


# ---------------------------------------------------------------------------------- oracle
_LD = np.longdouble if np.finfo(np.longdouble).eps < 1e-18 else np.float64
_CLD = np.clongdouble if _LD is np.longdouble else np.complex128


def direct_dft(values, kcentres, cell):
    """values: (*n, nv) ; kcentres: list of 1-d arrays (k-cell centres per axis, any lengths) ; r = index*cell.
    returns (*nk, nv) : sum_r values[r] * exp(-2 pi i k.r)   -- plain O(Nk*N) sum, extended precision."""
    n = values.shape[:-1]
    nd = len(n)
    nk = tuple(len(k) for k in kcentres)
    # k.r for every (k-cell, r-cell) pair
    phase = np.zeros((int(np.prod(nk)), int(np.prod(n))), dtype=_LD)
    kidx = np.indices(nk).reshape(nd, -1)
    ridx = np.indices(n).reshape(nd, -1)
    for a in range(nd):
        ka = np.asarray(kcentres[a], dtype=_LD)[kidx[a]]
        ra = ridx[a].astype(_LD) * _LD(cell[a])
        phase += np.outer(ka, ra)
    phase -= np.floor(phase)     # exp is 1-periodic in k.r
    ang = -2 * np.pi * phase if _LD is np.float64 else -(_LD(2) * np.arctan(_LD(1)) * 4) * phase
    w = np.cos(ang) + 1j * np.sin(ang)
    v = values.reshape(-1, values.shape[-1]).astype(_CLD)
    out = w.astype(_CLD) @ v
    return out.astype(np.complex128).reshape(*nk, values.shape[-1])


def _cclose(a, b, tol):
    a = np.asarray(a)
    b = np.asarray(b)
    if a.shape != b.shape:
        return False
    return bool(np.all(np.abs(a - b) <= tol))


def _maxrel(a, b, tol):
    a = np.asarray(a)
    b = np.asarray(b)
    if a.shape != b.shape:
        return "shape %s vs %s" % (a.shape, b.shape)
    with np.errstate(all="ignore"):
        return float(np.max(np.abs(a - b) / np.maximum(tol, 1e-300)))


def _centres(mesh):
    return [np.asarray(getattr(mesh.cells, d), dtype=float) for d in mesh.region.dims]


def _want_freqs(n, cell, rfft):
    out = []
    for a, (k, c) in enumerate(zip(n, cell)):
        if rfft and a == len(n) - 1:
            out.append(np.fft.rfftfreq(k, c))
        else:
            out.append(np.fft.fftshift(np.fft.fftfreq(k, c)))
    return out


def _half_index(n_last):
    """indices into the shifted full last axis holding the frequencies 0, 1, .., n//2 (Nyquist of an even axis sits at index 0)"""
    return [(j + n_last // 2) if (j + n_last // 2) < n_last else 0 for j in range(n_last // 2 + 1)]


# ---------------------------------------------------------------------------------- frame: before / after snapshots
def _snap_array(a):
    a = np.asarray(a)
    return (a.dtype.str, tuple(a.shape), a.tobytes())


def _snap_region(r):
    return (_snap_array(np.asarray(r.pmin, dtype=float)), _snap_array(np.asarray(r.pmax, dtype=float)),
            tuple(r.dims), tuple(r.units), float(r.tolerance_factor))


def _snap_mesh(m):
    return {"n": tuple(int(k) for k in m.n), "region": _snap_region(m.region), "bc": str(m.bc),
            "subregions": tuple((name, _snap_region(r)) for name, r in m.subregions.items())}


def _snap_field(f):
    vm = f.vdim_mapping
    return {"array": _snap_array(f.array), "valid": _snap_array(f.valid), "mesh": _snap_mesh(f.mesh),
            "vdims": None if f.vdims is None else tuple(f.vdims), "vdim_mapping": None if vm is None else tuple(vm.items()),
            "unit": f.unit, "nvdim": f.nvdim, "dtype": repr(f.dtype)}


def _diff(s0, s1, prefix=""):
    out = []
    for k in s0:
        if s0[k] != s1[k]:
            if isinstance(s0[k], dict):
                out += _diff(s0[k], s1[k], prefix + k + ".")
            else:
                out.append(prefix + k)
    return out


class _Watch:
    """things besides the transformed field that a transform must leave alone"""

    def __init__(self):
        self.items = []

    def array(self, label, a):
        base = a
        while isinstance(base.base, np.ndarray):
            base = base.base                      # the whole buffer behind a strided view
        self.items.append((label, lambda b=base: {"bytes": _snap_array(b)}, {"bytes": _snap_array(base)}))
        return a

    def field(self, label, f):
        self.items.append((label, lambda f=f: _snap_field(f), _snap_field(f)))
        return f

    def mesh(self, label, m):
        self.items.append((label, lambda m=m: _snap_mesh(m), _snap_mesh(m)))
        return m

    def changed(self):
        return [d for label, get, s0 in self.items for d in _diff(s0, get(), label + ":")]


def _same_result(a, b):
    if type(a) is not type(b):
        return False
    if isinstance(a, df.Mesh):
        return _snap_mesh(a) == _snap_mesh(b)
    return _snap_field(a) == _snap_field(b)


def _apply(ctx, obj, name, watch, where, **kw):
    """obj.<name>(**kw) TWICE on the same object (a field or a mesh): C11.frame after each call, C11.repeat between the
    two answers. returns (raised, first answer)."""
    snap = _snap_field if isinstance(obj, df.Field) else _snap_mesh
    s0 = snap(obj)
    what = "%s: %s(%s)" % (where, name, ", ".join("%s=%s" % kv for kv in kw.items()))
    r1, o1 = raises(Exception, getattr(obj, name), **kw)
    ch = _diff(s0, snap(obj), "self.") + watch.changed()
    ctx.require(not ch, "C11.frame", what + " changed the object it was applied to / the data it was built from", changed=ch, raised=r1)
    if not r1 and isinstance(obj, df.Field):
        ctx.require(not np.shares_memory(o1.array, obj.array), "C11.frame", what + ": result shares memory with the input field")
    r2, o2 = raises(Exception, getattr(obj, name), **kw)
    ch2 = _diff(s0, snap(obj), "self.") + watch.changed()
    if ch2 != ch:
        ctx.require(not ch2, "C11.frame", what + " (second application) changed the object it was applied to", changed=ch2, raised=r2)
    same = (r1 == r2) and (type(o1) is type(o2) if r1 else _same_result(o1, o2))
    ctx.require(same, "C11.repeat", what + ": the second application to the same object gives a different answer", raised=[r1, r2],
                max_abs_diff=None if (r1 or r2 or o1.__class__ is df.Mesh or o1.array.shape != o2.array.shape)
                else float(np.max(np.abs(o1.array - o2.array))))
    return r1, o1


def _again(ctx, obj, name, first, where, **kw):
    """the same transform once more at the end of a case (other fields and meshes were transformed in between)"""
    r, o = raises(Exception, getattr(obj, name), **kw)
    ctx.require(not r and _same_result(first, o), "C11.repeat", "%s: %s() after other transforms differs from the first answer" % (where, name),
                raised=r, max_abs_diff=None if (r or o.array.shape != first.array.shape) else float(np.max(np.abs(o.array - first.array))))


# ---------------------------------------------------------------------------------- clause helpers
def _check_kmesh(ctx, kmesh, n, cell, rfft, clause, where):
    want = _want_freqs(n, cell, rfft)
    wn = [len(w) for w in want]
    ctx.require(list(kmesh.n) == wn, clause, "%s: k-mesh cell counts" % where, got=kmesh.n, want=wn)
    if list(kmesh.n) != wn:
        return
    got = _centres(kmesh)
    for a in range(len(n)):
        scale = max(np.max(np.abs(want[a])), (1.0 / cell[a]) if n[a] == 1 else 0.0)
        ok = bool(np.all(np.abs(got[a] - want[a]) <= 8 * EPS * scale))
        sig = None
        if not ok:
            if n[a] == 1 and abs(got[a][0] - 0.5 / cell[a]) <= 8 * EPS / cell[a]:
                sig = "single-cell-axis-k-centre-is-half-inverse-cell-not-zero"
            else:
                sig = "k-centres-differ-from-fftfreq"
        ctx.require(ok, clause, "%s: k-cell centres of axis %d are not the DFT sample frequencies" % (where, a), sig=sig,
                    axis=a, n=n[a], cell=cell[a], got=got[a], want=want[a])


def _check_names(ctx, kmesh, mesh, where):
    wd = ["k_" + d for d in mesh.region.dims]
    ctx.require(list(kmesh.region.dims) == wd, "C11.k_names", "%s: k-mesh dims" % where, got=list(kmesh.region.dims), want=wd)
    oku = all(isinstance(ku, str) and ku.startswith("(" + u + ")") and "-1" in ku[len(u) + 2:]
              for ku, u in zip(kmesh.region.units, mesh.region.units)) and len(kmesh.region.units) == len(mesh.region.units)
    ctx.require(oku, "C11.k_names", "%s: k-mesh units are not the reciprocal units" % where, got=list(kmesh.region.units), base=list(mesh.region.units))


def _check_inverse_mesh(ctx, imesh, mesh, where, clause="C11.inverse_mesh"):
    n = list(mesh.n)
    okn = list(imesh.n) == n
    ctx.require(okn, clause, "%s: cell counts of the inverse mesh" % where, got=imesh.n, want=n)
    cell = np.asarray(mesh.cell, dtype=float)
    ctx.require(okn and bool(np.all(np.abs(np.asarray(imesh.cell) - cell) <= 8 * EPS * cell)), clause,
                "%s: cell size of the inverse mesh" % where, got=imesh.cell, want=cell)
    edges = np.asarray(mesh.region.edges, dtype=float)
    ctx.require(okn and bool(np.all(np.abs(np.asarray(imesh.region.center)) <= 8 * EPS * edges)), clause,
                "%s: inverse mesh is not centred at the origin" % where, got=imesh.region.center)
    ctx.require(list(imesh.region.dims) == list(mesh.region.dims) and list(imesh.region.units) == list(mesh.region.units), clause,
                "%s: dims/units of the inverse mesh" % where, got=[list(imesh.region.dims), list(imesh.region.units)],
                want=[list(mesh.region.dims), list(mesh.region.units)])
    return okn


def _rename_fwd(f):
    if f.vdims is None:
        return None, {}
    vd = ["ft_" + v for v in f.vdims]
    mp = {"ft_" + v: "k_" + d for v, d in f.vdim_mapping.items()}
    return vd, mp


def _real_of_complex(ctx, f, F, data, budget, watch, where):
    """the real transform applied to a complex-valued field: refused, or the half of the full transform"""
    n = list(f.mesh.n)
    r, R = _apply(ctx, f, "rfftn", watch, where)
    ok = r
    got = None
    if not r:
        nk = n[:-1] + [n[-1] // 2 + 1]
        got = list(R.array.shape)
        ok = (R.array.shape == (*nk, f.nvdim) and list(R.mesh.n) == nk and F is not None and F.array.shape == (*n, f.nvdim)
              and _cclose(R.array, F.array[..., _half_index(n[-1]), :], budget)
              and _cclose(R.array, direct_dft(data, _centres(R.mesh), np.asarray(f.mesh.cell, dtype=float)), budget))
    ctx.require(ok, "C11.real_of_complex", "%s: rfftn of a complex field answers, but not with the half of the full transform" % where,
                sig="rfftn-of-complex-not-half-of-fftn", shape=got, max_imag=float(np.max(np.abs(data.imag))))
    return r, R


# ---------------------------------------------------------------------------------- checks
def check(kind, pr, ctx):
    n = list(pr["n"])
    if int(np.prod(n)) == 1:
        ctx.trivial()
    mesh = _build_mesh(pr)
    rng = np.random.default_rng(pr["seed"])
    if kind == "linear":
        return check_linear(pr, ctx, mesh, rng)
    if kind == "frame":
        return check_frame(pr, ctx, mesh, rng)
    return check_forward(pr, ctx, mesh, rng)


def check_forward(pr, ctx, mesh, rng):
    n = list(pr["n"])
    nv = pr["nvdim"]
    cplx = pr["complex"]
    cell = np.asarray(mesh.cell, dtype=float)
    data = _data(rng, n, nv, cplx)
    watch = _Watch()
    f = _build_field(mesh, pr, watch.array("caller's array", data.copy()))
    assert f.array.shape == (*n, nv) and np.array_equal(f.array, data)   # harness sanity, not a clause
    budget = 64 * EPS * np.sum(np.abs(data.reshape(-1, nv)), axis=0)      # per component
    vmax = float(np.max(np.abs(data)))
    zero_idx = tuple(k // 2 for k in n)
    plain_sum = data.reshape(-1, nv).sum(axis=0)

    # ---------------- full transform
    r, F = _apply(ctx, f, "fftn", watch, "forward")
    ctx.require(not r, "C11.dft_values", "fftn raised", sig="fftn-raises", error=repr(F) if r else None)
    if r:
        return
    kmesh = F.mesh
    _check_kmesh(ctx, kmesh, n, cell, False, "C11.kmesh_freqs", "Field.fftn")
    _check_names(ctx, kmesh, mesh, "Field.fftn")
    r, km2 = _apply(ctx, mesh, "fftn", watch, "Mesh")
    ctx.require(not r and km2 == kmesh, "C11.kmesh_freqs", "Mesh.fftn() differs from the mesh of Field.fftn()")
    shape_ok = F.array.shape == (*n, nv) and list(kmesh.n) == n
    ctx.require(shape_ok, "C11.dft_values", "fftn array shape", got=F.array.shape)
    if shape_ok:
        want = direct_dft(data, _centres(kmesh), cell)
        ctx.require(_cclose(F.array, want, budget), "C11.dft_values", "fftn differs from the direct Fourier sum at the k-cell centres",
                    worst_over_budget=_maxrel(F.array, want, budget))
        ctx.require(_cclose(F.array[zero_idx], plain_sum, budget), "C11.zero_freq", "fftn: zero-frequency cell is not the plain sum",
                    got=F.array[zero_idx], want=plain_sum)
    # renaming / per component
    wvd, wmp = _rename_fwd(f)
    ctx.require(F.vdims == wvd and F.vdim_mapping == wmp and F.nvdim == nv, "C11.rename", "fftn: vdims / vdim_mapping / nvdim",
                got=[F.vdims, F.vdim_mapping, F.nvdim], want=[wvd, wmp, nv])
    comp_ok = True
    for i in range(nv):
        fi = df.Field(mesh, nvdim=1, value=data[..., i:i + 1])
        Fi = fi.fftn()
        comp_ok &= Fi.nvdim == 1 and _cclose(Fi.array[..., 0], F.array[..., i], budget[i] / 4)
    ctx.require(comp_ok, "C11.per_component", "fftn of a single component differs from that component of the transform")
    # inverse
    watch.field("the real-space field the spectrum came from", f)
    r, G = _apply(ctx, F, "ifftn", watch, "forward")
    ctx.require(not r, "C11.inverse_values", "ifftn raised", sig="ifftn-raises", error=repr(G) if r else None)
    if not r:
        okm = _check_inverse_mesh(ctx, G.mesh, mesh, "ifftn(fftn)")
        ctx.require(okm and _cclose(G.array, data, 64 * EPS * vmax), "C11.inverse_values", "ifftn(fftn(f)) != f",
                    worst_over_budget=_maxrel(G.array, data, 64 * EPS * vmax) if okm else None)
        ctx.require(G.vdims == f.vdims and G.vdim_mapping == f.vdim_mapping and G.nvdim == nv, "C11.rename",
                    "ifftn: vdims / vdim_mapping not restored", got=[G.vdims, G.vdim_mapping], want=[f.vdims, f.vdim_mapping])
        comp_ok = True
        for i in range(nv):
            Fi = df.Field(kmesh, nvdim=1, value=F.array[..., i:i + 1])
            comp_ok &= _cclose(Fi.ifftn().array[..., 0], G.array[..., i], 16 * EPS * vmax)
        ctx.require(comp_ok, "C11.per_component", "ifftn of a single component differs from that component of the inverse")
        # the chain goes on with its intermediate fields: G (a complex field produced by ifftn) forward again, F still usable
        watch.field("the spectrum the field came from", F)
        r3, F3 = _apply(ctx, G, "fftn", watch, "forward: fftn(ifftn(fftn(f)))")
        ctx.require(not r3 and F3.array.shape == F.array.shape and _cclose(F3.array, want if shape_ok else F.array, 2 * budget), "C11.inverse_values",
                    "fftn(ifftn(fftn(f))) != fftn(f)", worst_over_budget=None if r3 else _maxrel(F3.array, F.array, 2 * budget))
    r, im = _apply(ctx, kmesh, "ifftn", watch, "Mesh.fftn()")
    if ctx.require(not r, "C11.inverse_mesh", "Mesh.fftn().ifftn() raised", error=repr(im) if r else None):
        _check_inverse_mesh(ctx, im, mesh, "Mesh.fftn().ifftn()")

    if cplx:
        _real_of_complex(ctx, f, F, data, budget, watch, "forward")
        _again(ctx, f, "fftn", F, "forward")
        return
    # ---------------- real transform
    r, R = _apply(ctx, f, "rfftn", watch, "forward")
    ctx.require(not r, "C11.rdft_values", "rfftn raised", sig="rfftn-raises", error=repr(R) if r else None)
    if r:
        return
    rk = R.mesh
    _check_kmesh(ctx, rk, n, cell, True, "C11.rkmesh_freqs", "Field.rfftn")
    _check_names(ctx, rk, mesh, "Field.rfftn")
    r, rk2 = _apply(ctx, mesh, "fftn", watch, "Mesh", rfft=True)
    ctx.require(not r and rk2 == rk, "C11.rkmesh_freqs", "Mesh.fftn(rfft=True) differs from the mesh of Field.rfftn()")
    nk = n[:-1] + [n[-1] // 2 + 1]
    shape_ok = R.array.shape == (*nk, nv) and list(rk.n) == nk
    ctx.require(shape_ok, "C11.rdft_values", "rfftn array shape", got=R.array.shape, want=nk)
    if shape_ok:
        want = direct_dft(data, _centres(rk), cell)
        ctx.require(_cclose(R.array, want, budget), "C11.rdft_values", "rfftn differs from the direct Fourier sum at the k-cell centres",
                    worst_over_budget=_maxrel(R.array, want, budget))
        ctx.require(_cclose(R.array[tuple(zero_idx[:-1]) + (0,)], plain_sum, budget), "C11.zero_freq",
                    "rfftn: zero-frequency cell is not the plain sum", got=R.array[tuple(zero_idx[:-1]) + (0,)], want=plain_sum)
        if F.array.shape == (*n, nv):
            # half of the full transform: frequency j/(n d) sits at shifted index j + n//2 ; Nyquist (even n) at index 0
            half = F.array[..., _half_index(n[-1]), :]
            ctx.require(_cclose(R.array, half, budget), "C11.rfft_half", "rfftn is not the non-negative-frequency half of fftn",
                        worst_over_budget=_maxrel(R.array, half, budget))
    ctx.require(R.vdims == wvd and R.vdim_mapping == wmp and R.nvdim == nv, "C11.rename", "rfftn: vdims / vdim_mapping / nvdim",
                got=[R.vdims, R.vdim_mapping, R.nvdim], want=[wvd, wmp, nv])
    comp_ok = True
    for i in range(nv):
        Ri = df.Field(mesh, nvdim=1, value=data[..., i:i + 1]).rfftn()
        comp_ok &= Ri.nvdim == 1 and _cclose(Ri.array[..., 0], R.array[..., i], budget[i] / 4)
    ctx.require(comp_ok, "C11.per_component", "rfftn of a single component differs from that component of the transform")
    # inverse with the original shape
    r, H = _apply(ctx, R, "irfftn", watch, "forward", shape=tuple(n))
    ctx.require(not r, "C11.inverse_values", "irfftn(shape=n) raised", sig="irfftn-shape-raises", error=repr(H) if r else None)
    if not r:
        okm = _check_inverse_mesh(ctx, H.mesh, mesh, "irfftn(rfftn, shape=n)")
        ctx.require(okm and not np.iscomplexobj(H.array) and _cclose(H.array, data, 64 * EPS * vmax), "C11.inverse_values",
                    "irfftn(rfftn(f), shape=n) != f", dtype=str(H.array.dtype),
                    worst_over_budget=_maxrel(H.array, data, 64 * EPS * vmax) if okm else None)
        ctx.require(H.vdims == f.vdims and H.vdim_mapping == f.vdim_mapping and H.nvdim == nv, "C11.rename",
                    "irfftn: vdims / vdim_mapping not restored", got=[H.vdims, H.vdim_mapping], want=[f.vdims, f.vdim_mapping])
        comp_ok = True
        for i in range(nv):
            Ri = df.Field(rk, nvdim=1, value=R.array[..., i:i + 1])
            comp_ok &= _cclose(Ri.irfftn(shape=tuple(n)).array[..., 0], H.array[..., i], 16 * EPS * vmax)
        ctx.require(comp_ok, "C11.per_component", "irfftn of a single component differs from that component of the inverse")
        if n[-1] % 2 == 1:
            ctx.require(okm and _cclose(H.array, data, 64 * EPS * vmax), "C11.irfftn_shape", "odd last axis not restored with shape=n")
    r, M = _apply(ctx, rk, "ifftn", watch, "Mesh.fftn(rfft=True)", rfft=True, shape=tuple(n))
    if ctx.require(not r, "C11.inverse_mesh", "Mesh.ifftn(rfft=True, shape=n) raised", error=repr(M) if r else None):
        _check_inverse_mesh(ctx, M, mesh, "Mesh.fftn(rfft).ifftn(rfft, shape=n)")
    # inverse without shape
    r, H0 = _apply(ctx, R, "irfftn", watch, "forward")
    if n[-1] % 2 == 0:
        ctx.require(not r, "C11.irfftn_shape", "irfftn() without shape raised for an even last axis", error=repr(H0) if r else None)
        if not r:
            okm = _check_inverse_mesh(ctx, H0.mesh, mesh, "irfftn(rfftn) without shape", clause="C11.irfftn_shape")
            ctx.require(okm and _cclose(H0.array, data, 64 * EPS * vmax), "C11.irfftn_shape", "even last axis not restored without shape")
        r2, M0 = _apply(ctx, rk, "ifftn", watch, "Mesh.fftn(rfft=True)", rfft=True)
        ctx.require(not r2 and list(M0.n) == n, "C11.irfftn_shape", "Mesh.ifftn(rfft=True) without shape does not give the even count",
                    got=None if r2 else M0.n)
    elif n[-1] >= 3:
        # the statement: the original count is NEEDED for odd sizes -> without it the size is not recovered (or refused)
        ctx.require(r or list(H0.mesh.n) != n, "C11.irfftn_shape", "odd last axis 'restored' without shape ?!", got=None if r else H0.mesh.n)
        if not r:
            ctx.require(list(H0.mesh.n) == n[:-1] + [2 * (nk[-1] - 1)], "C11.irfftn_shape",
                        "irfftn() without shape: last axis is not 2*(nk-1)", got=H0.mesh.n)
    _again(ctx, f, "fftn", F, "forward")
    _again(ctx, f, "rfftn", R, "forward")


def check_linear(pr, ctx, mesh, rng):
    n = list(pr["n"])
    nv = pr["nvdim"]
    cplx = pr["complex"]
    a = _data(rng, n, nv, cplx)
    b = _data(rng, n, nv, cplx)
    if cplx:
        al, be = complex(*pr["alpha"]), complex(*pr["beta"])
    else:
        al, be = float(pr["alpha"][0]), float(pr["beta"][0])
    watch = _Watch()
    fa, fb = _build_field(mesh, pr, a.copy()), _build_field(mesh, pr, b.copy())
    s = abs(al) * np.sum(np.abs(a.reshape(-1, nv)), axis=0) + abs(be) * np.sum(np.abs(b.reshape(-1, nv)), axis=0)
    m = abs(al) * np.max(np.abs(a)) + abs(be) * np.max(np.abs(b))

    def comb(x, y):
        """alpha*x + beta*y formed from what the operand fields hold NOW (after they have been transformed)"""
        return _build_field(x.mesh, pr, al * x.array + be * y.array)

    def lin(T, x, y, tol, what, **kw):
        _, Tx = _apply(ctx, x, T, watch, "linear", **kw)
        _, Ty = _apply(ctx, y, T, watch, "linear", **kw)
        _, Tc = _apply(ctx, comb(x, y), T, watch, "linear", **kw)
        ok = all(isinstance(o, df.Field) for o in (Tx, Ty, Tc))
        want = al * Tx.array + be * Ty.array if ok else None
        ctx.require(ok and _cclose(Tc.array, want, tol), "C11.linear", what, worst_over_budget=_maxrel(Tc.array, want, tol) if ok else None)
        if ok:
            _again(ctx, x, T, Tx, "linear", **kw)
        return Tx, Ty

    Fa, Fb = lin("fftn", fa, fb, 64 * EPS * s, "fftn is not linear")
    ctx.require(np.array_equal(fa.array, a) and np.array_equal(fb.array, b), "C11.frame", "linear: operand fields changed by fftn")
    if not isinstance(Fa, df.Field):
        return                                   # fftn refused: stated above
    # inverse on arbitrary (non-hermitian) k-space data: reuse a, b as k-space fields
    km = Fa.mesh
    ka, kb = (df.Field(km, nvdim=nv, value=x.copy()) for x in (a, b))
    lin("ifftn", ka, kb, 64 * EPS * m, "ifftn is not linear")
    sh = tuple(n)
    if not cplx:
        Ra, Rb = lin("rfftn", fa, fb, 64 * EPS * s, "rfftn is not linear")
        if not (isinstance(Ra, df.Field) and isinstance(Rb, df.Field)):
            return
        # irfftn on k-space data (complex half spectra Ra, Rb)
        lin("irfftn", df.Field(Ra.mesh, nvdim=nv, value=Ra.array.copy()), df.Field(Rb.mesh, nvdim=nv, value=Rb.array.copy()),
            64 * EPS * m, "irfftn is not linear", shape=sh)
    else:
        # irfftn is linear over the reals: arbitrary complex half spectra (imaginary parts at the self-conjugate cells too), real coefficients
        rk = mesh.fftn(rfft=True)
        nk = n[:-1] + [n[-1] // 2 + 1]
        x, y = _data(rng, nk, nv, True), _data(rng, nk, nv, True)
        al, be = al.real, be.real
        m = abs(al) * np.max(np.abs(x)) + abs(be) * np.max(np.abs(y))
        lin("irfftn", df.Field(rk, nvdim=nv, value=x), df.Field(rk, nvdim=nv, value=y), 64 * EPS * m, "irfftn is not linear over the reals", shape=sh)


def _history_field(pr, mesh, rng, watch):
    """the real-space field of a frame case; returns the field (its mesh may be the re-centred one)"""
    n = list(pr["n"])
    nv = pr["nvdim"]
    hist = pr["hist"]
    cplx = pr["dtype"] in COMPLEX
    extra = {}
    if pr["unit"] is not None:
        extra["unit"] = pr["unit"]
    if hist == "fresh":
        if pr["valid"]:
            mask = rng.integers(0, 2, size=tuple(n)).astype(bool)
            mask.flat[0] = True
            extra["valid"] = mask
        v = watch.array("caller's array", _layout(_typed(rng, (*n, nv), pr["dtype"]), pr["layout"]))
        return _build_field(mesh, pr, v, **_dtype_kw(pr["dtype"]), **extra)
    if hist == "ifftn":          # complex field produced by an inverse transform of arbitrary complex k-space data
        K = _build_field(mesh.fftn(), pr, _layout(_data(rng, n, nv, True), pr["layout"]), **extra)
        return watch.field("k-space field the input came from", K).ifftn()
    if hist == "roundtrip":      # real or complex field sent through fftn().ifftn(): complex, imaginary part of rounding size for real input
        g = _build_field(mesh, pr, _layout(_data(rng, n, nv, cplx), pr["layout"]), **extra)
        F = watch.field("spectrum the input came from", watch.field("original field", g).fftn())
        return F.ifftn()
    if hist == "irfftn":         # real field produced by the real inverse
        g = _build_field(mesh, pr, _layout(_data(rng, n, nv, False), pr["layout"]), **extra)
        R = watch.field("half spectrum the input came from", watch.field("original field", g).rfftn())
        return R.irfftn(shape=tuple(n))
    if hist == "component":      # one component of a vector field, through the library's accessor
        parent = watch.field("parent vector field", _build_field(mesh, pr, _layout(_data(rng, n, nv, cplx), pr["layout"]), **extra))
        if parent.vdims is None:
            return parent
        return getattr(parent, parent.vdims[int(rng.integers(nv))])
    if hist == "arith":          # value of an arithmetic expression of two fields
        p = watch.field("first operand", _build_field(mesh, pr, _layout(_data(rng, n, nv, cplx), pr["layout"]), **extra))
        q = watch.field("second operand", _build_field(mesh, pr, _layout(_data(rng, n, nv, cplx), pr["layout"]), **extra))
        return (2.5 * p - q) if not cplx else ((1.5 - 0.5j) * p + q)
    raise ValueError(hist)


def check_frame(pr, ctx, mesh0, rng):
    n = list(pr["n"])
    dtype = pr["dtype"]
    eps = EPS32 if dtype in SINGLE else EPS
    watch = _Watch()
    watch.mesh("mesh", mesh0)
    if pr["hist"] == "fresh":
        f = _history_field(pr, mesh0, rng, watch)
    else:
        r, f = raises(Exception, _history_field, pr, mesh0, rng, watch)
        ctx.require(not r, "C11.inverse_values", "frame[%s]: a transform / accessor / operator raised while the input field was being produced" % pr["hist"],
                    sig="history-raises", error=repr(f) if r else None)
        if r:
            return
    nv = f.nvdim
    mesh = f.mesh
    cell = np.asarray(mesh.cell, dtype=float)
    assert list(mesh.n) == n and f.array.shape == (*n, nv)                       # harness sanity
    data = np.array(f.array, dtype=np.complex128 if np.iscomplexobj(f.array) else np.float64)   # what the field holds before any transform (exact)
    cplx = np.iscomplexobj(data)
    budget = 64 * eps * np.sum(np.abs(data.reshape(-1, nv)), axis=0)
    vmax = float(np.max(np.abs(data)))
    zero_idx = tuple(k // 2 for k in n)
    plain_sum = data.reshape(-1, nv).sum(axis=0)
    where = "frame[%s,%s,%s]" % (dtype, pr["layout"], pr["hist"])

    # ---------------- forward, full
    r, F = _apply(ctx, f, "fftn", watch, where)
    ctx.require(not r, "C11.dft_values", where + ": fftn raised", sig="fftn-raises", error=repr(F) if r else None)
    if r:
        return
    kmesh = F.mesh
    _check_kmesh(ctx, kmesh, n, cell, False, "C11.kmesh_freqs", where)
    _check_names(ctx, kmesh, mesh, where)
    shape_ok = F.array.shape == (*n, nv) and list(kmesh.n) == n
    ctx.require(shape_ok, "C11.dft_values", where + ": fftn array shape", got=F.array.shape)
    want = None
    if shape_ok:
        want = direct_dft(data, _centres(kmesh), cell)
        ctx.require(_cclose(F.array, want, budget), "C11.dft_values", where + ": fftn differs from the direct Fourier sum of the values the field held",
                    worst_over_budget=_maxrel(F.array, want, budget))
        ctx.require(_cclose(F.array[zero_idx], plain_sum, budget), "C11.zero_freq", where + ": fftn zero-frequency cell is not the plain sum",
                    got=F.array[zero_idx], want=plain_sum)
    wvd, wmp = _rename_fwd(f)
    ctx.require(F.vdims == wvd and F.vdim_mapping == wmp and F.nvdim == nv, "C11.rename", where + ": fftn vdims / vdim_mapping / nvdim",
                got=[F.vdims, F.vdim_mapping, F.nvdim], want=[wvd, wmp, nv])
    # component through the library's accessor: transform of f.<vdim> == component of the transform, and f is left alone
    if f.vdims is not None and nv > 1 and shape_ok:
        watch.field("vector field the component was taken from", f)
        i = int(pr["seed"]) % nv
        r, Fi = _apply(ctx, getattr(f, f.vdims[i]), "fftn", watch, where + " component")
        ctx.require(not r and Fi.nvdim == 1 and _cclose(Fi.array[..., 0], F.array[..., i], budget[i] / 4), "C11.per_component",
                    where + ": fftn of field.<vdim> differs from that component of the transform")
    # ---------------- back, and forward again, re-using every intermediate field
    watch.field("real-space field", f)
    r, G = _apply(ctx, F, "ifftn", watch, where)
    ctx.require(not r, "C11.inverse_values", where + ": ifftn raised", sig="ifftn-raises", error=repr(G) if r else None)
    if not r:
        okm = _check_inverse_mesh(ctx, G.mesh, mesh, where + " ifftn(fftn)")
        ctx.require(okm and _cclose(G.array, data, 64 * eps * vmax), "C11.inverse_values", where + ": ifftn(fftn(f)) != f",
                    worst_over_budget=_maxrel(G.array, data, 64 * eps * vmax) if okm else None)
        ctx.require(G.vdims == f.vdims and G.vdim_mapping == f.vdim_mapping, "C11.rename", where + ": ifftn vdims / vdim_mapping not restored",
                    got=[G.vdims, G.vdim_mapping], want=[f.vdims, f.vdim_mapping])
        watch.field("spectrum", F)
        gdata = np.array(G.array, dtype=np.complex128)
        r3, F3 = _apply(ctx, G, "fftn", watch, where + " fftn(ifftn(fftn(f)))")
        ok3 = not r3 and F3.array.shape == (*n, nv)
        ctx.require(ok3 and _cclose(F3.array, direct_dft(gdata, _centres(F3.mesh), np.asarray(G.mesh.cell, dtype=float)),
                                    64 * eps * np.sum(np.abs(gdata.reshape(-1, nv)), axis=0)), "C11.dft_values",
                    where + ": fftn of the field produced by ifftn is not the Fourier sum of that field")
        ctx.require(ok3 and want is not None and _cclose(F3.array, want, 2 * budget), "C11.inverse_values", where + ": fftn(ifftn(fftn(f))) != fftn(f)",
                    worst_over_budget=_maxrel(F3.array, want, 2 * budget) if ok3 and want is not None else None)
    # ---------------- forward, real transform
    R = None
    if cplx:
        r, R = _real_of_complex(ctx, f, F, data, budget, watch, where)
        if r:
            R = None
    else:
        r, R = _apply(ctx, f, "rfftn", watch, where)
        ctx.require(not r, "C11.rdft_values", where + ": rfftn raised", sig="rfftn-raises", error=repr(R) if r else None)
        if r:
            R = None
    nk = n[:-1] + [n[-1] // 2 + 1]
    if R is not None and not cplx:
        rk = R.mesh
        _check_kmesh(ctx, rk, n, cell, True, "C11.rkmesh_freqs", where)
        _check_names(ctx, rk, mesh, where)
        rshape_ok = R.array.shape == (*nk, nv) and list(rk.n) == nk
        ctx.require(rshape_ok, "C11.rdft_values", where + ": rfftn array shape", got=R.array.shape, want=nk)
        if rshape_ok:
            wr = direct_dft(data, _centres(rk), cell)
            ctx.require(_cclose(R.array, wr, budget), "C11.rdft_values", where + ": rfftn differs from the direct Fourier sum",
                        worst_over_budget=_maxrel(R.array, wr, budget))
            ctx.require(_cclose(R.array[tuple(zero_idx[:-1]) + (0,)], plain_sum, budget), "C11.zero_freq", where + ": rfftn zero-frequency cell")
            if shape_ok:
                ctx.require(_cclose(R.array, F.array[..., _half_index(n[-1]), :], budget), "C11.rfft_half", where + ": rfftn is not the half of fftn")
        ctx.require(R.vdims == wvd and R.vdim_mapping == wmp, "C11.rename", where + ": rfftn vdims / vdim_mapping", got=[R.vdims, R.vdim_mapping])
        r, H = _apply(ctx, R, "irfftn", watch, where, shape=tuple(n))
        ctx.require(not r, "C11.inverse_values", where + ": irfftn(shape=n) raised", sig="irfftn-shape-raises", error=repr(H) if r else None)
        if not r:
            okm = _check_inverse_mesh(ctx, H.mesh, mesh, where + " irfftn(rfftn, shape=n)")
            ctx.require(okm and not np.iscomplexobj(H.array) and _cclose(H.array, data, 64 * eps * vmax), "C11.inverse_values",
                        where + ": irfftn(rfftn(f), shape=n) != f", worst_over_budget=_maxrel(H.array, data, 64 * eps * vmax) if okm else None)
        watch.field("half spectrum", R)
        r, H0 = _apply(ctx, R, "irfftn", watch, where)
        if n[-1] % 2 == 0:
            ctx.require(not r and list(H0.mesh.n) == n and _cclose(H0.array, data, 64 * eps * vmax), "C11.irfftn_shape",
                        where + ": even last axis not restored without shape")
        if not r and isinstance(H0, df.Field) and not np.iscomplexobj(H0.array):
            # a real field produced by the real inverse goes forward again (history), the half spectrum stays usable
            hdata = np.array(H0.array, dtype=float)
            r5, R5 = _apply(ctx, H0, "rfftn", watch, where + " rfftn(irfftn(..))")
            ctx.require(not r5 and _cclose(R5.array, direct_dft(hdata, _centres(R5.mesh), np.asarray(H0.mesh.cell, dtype=float)),
                                           64 * eps * np.sum(np.abs(hdata.reshape(-1, nv)), axis=0)), "C11.rdft_values",
                        where + ": rfftn of the field produced by irfftn is not the Fourier sum of that field")

    # ---------------- inverse transforms of FRESH k-space fields of the same dtype / layout
    km0 = mesh0.fftn()
    kd = _typed(rng, (*n, nv), dtype)
    K = _build_field(km0, pr, watch.array("caller's k-space array", _layout(kd, pr["layout"])), nv=nv, **_dtype_kw(dtype))
    kdata = np.array(K.array, dtype=np.complex128 if np.iscomplexobj(K.array) else np.float64)
    assert np.array_equal(kdata, kd)
    r, g = _apply(ctx, K, "ifftn", watch, where + " k-space")
    ctx.require(not r, "C11.inverse_dft", where + ": ifftn of arbitrary k-space data raised", error=repr(g) if r else None)
    if not r:
        okm = _check_inverse_mesh(ctx, g.mesh, mesh0, where + " ifftn(k-space data)")
        kb = 64 * eps * np.sum(np.abs(kdata.reshape(-1, nv)), axis=0)
        ok = okm and g.array.shape == (*n, nv)
        back = direct_dft(np.array(g.array, dtype=np.complex128), _centres(km0), np.asarray(mesh0.cell, dtype=float)) if ok else None
        ctx.require(ok and _cclose(back, kdata, kb), "C11.inverse_dft", where + ": the Fourier sum of ifftn(G) does not give G back",
                    worst_over_budget=_maxrel(back, kdata, kb) if ok else None)
        watch.field("k-space field", K)
        r6, K6 = _apply(ctx, g, "fftn", watch, where + " fftn(ifftn(G))")
        kmax = 64 * eps * float(np.max(np.abs(kdata)))
        ctx.require(not r6 and _cclose(K6.array, kdata, kmax), "C11.inverse_dft", where + ": fftn(ifftn(G)) != G",
                    worst_over_budget=None if r6 else _maxrel(K6.array, kdata, kmax))
        _again(ctx, K, "ifftn", g, where + " k-space")
    rk0 = mesh0.fftn(rfft=True)
    KR = _build_field(rk0, pr, watch.array("caller's half-spectrum array", _layout(_typed(rng, (*nk, nv), dtype), pr["layout"])), nv=nv, **_dtype_kw(dtype))
    r, h = _apply(ctx, KR, "irfftn", watch, where + " k-space", shape=tuple(n))
    if ctx.require(not r, "C11.inverse_mesh", where + ": irfftn(shape=n) of arbitrary half-spectrum data raised", error=repr(h) if r else None):
        _check_inverse_mesh(ctx, h.mesh, mesh0, where + " irfftn(k-space data, shape=n)")
    _apply(ctx, KR, "irfftn", watch, where + " k-space")
    # Mesh level
    _apply(ctx, mesh0, "fftn", watch, where)
    _apply(ctx, mesh0, "fftn", watch, where, rfft=True)
    _apply(ctx, km0, "ifftn", watch, where)
    _apply(ctx, rk0, "ifftn", watch, where, rfft=True, shape=tuple(n))
    # once more at the end
    _again(ctx, f, "fftn", F, where)
    if R is not None:
        _again(ctx, f, "rfftn", R, where)
    # nothing of the earlier calls sticks to the field: new values (written in place / through the setter) -> their transform
    new = _typed(rng, (*n, nv), str(f.array.dtype))
    if pr["seed"] % 2:
        f.array[...] = new
    else:
        f.array = new
    assert np.array_equal(f.array, new)                                           # harness sanity
    new = np.array(new, dtype=np.complex128 if cplx else np.float64)
    nb = 64 * eps * np.sum(np.abs(new.reshape(-1, nv)), axis=0)
    watch_new = _Watch()
    r, Fn = _apply(ctx, f, "fftn", watch_new, where + " after new values")
    ctx.require(not r and Fn.array.shape == (*n, nv) and _cclose(Fn.array, direct_dft(new, _centres(kmesh), cell), nb), "C11.dft_values",
                where + ": after the field got new values fftn is not the Fourier sum of the new values (stale state of an earlier call?)")
    if not cplx:
        r, Rn = _apply(ctx, f, "rfftn", watch_new, where + " after new values")
        ctx.require(not r and Rn.array.shape == (*nk, nv) and _cclose(Rn.array, direct_dft(new, _centres(Rn.mesh), cell), nb), "C11.rdft_values",
                    where + ": after the field got new values rfftn is not the Fourier sum of the new values (stale state of an earlier call?)")
