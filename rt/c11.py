"""C11 bounded run-time tier: Field.fftn / ifftn / rfftn / irfftn and Mesh.fftn / ifftn against a
direct O(N^2) discrete Fourier sum (extended precision) and numpy's fftfreq / rfftfreq tables.
Bounded: <= 6 cells per axis in 1-3 dimensions, <= 4 cells per axis in 4 dimensions, 1-4 components."""
import itertools
import numpy as np
import discretisedfield as df
from .common import raises

PROPERTY = "C11"
EPS = np.finfo(float).eps
CLAUSES = {
    "C11.dft_values": "fftn: every k-cell holds sum over cells of value*exp(-2 pi i k.r), k = centre of that k-cell as reported by the k-mesh, r = index*cell counted from the first cell (direct O(N^2) sum in extended precision; |diff| <= 64 eps * sum|value| of the component)",
    "C11.rdft_values": "rfftn: the same direct sum in every cell of the real-transform k-mesh (same budget)",
    "C11.kmesh_freqs": "fftn k-mesh: n unchanged and, per axis, cell centres == fftshift(fftfreq(n, cell)) (8 ulp of the largest |frequency| of the axis, 1/cell for a single cell)",
    "C11.rkmesh_freqs": "rfftn k-mesh: last axis has n//2+1 cells centred at rfftfreq(n, cell) (non-negative half, unshifted), other axes as for fftn (same budget)",
    "C11.k_names": "k-mesh dims are k_<dim>; units are reciprocal: '(<unit>)' followed by a -1 exponent; both for Field transforms and Mesh.fftn",
    "C11.inverse_values": "ifftn(fftn(f)) == f and irfftn(rfftn(f), shape=n) == f (64 ulp of max|f|); real input comes back real from irfftn",
    "C11.inverse_mesh": "mesh of ifftn/irfftn (and Mesh.fftn().ifftn()): original n, original cell (8 ulp), centred at the origin (8 ulp of the edge length), original dims and units",
    "C11.irfftn_shape": "irfftn/Mesh.ifftn(rfft=True) without shape take the last axis as even: an even last axis is restored (values and mesh); an odd one (>= 3) is NOT restored without shape but is with shape=n (single-cell last axis restored with shape=n)",
    "C11.rfft_half": "rfftn array == the half of the fftn array with non-negative last-axis frequency (Nyquist cell of an even axis == the -Nyquist cell of fftn); 64 eps * sum|value|",
    "C11.zero_freq": "the cell with all frequencies zero (index n//2 per shifted axis, 0 on the rfft axis) holds the plain sum over all cells (64 eps * sum|value|)",
    "C11.linear": "T(alpha*a + beta*b) == alpha*T(a) + beta*T(b) for T in fftn, ifftn, rfftn, irfftn (64 eps * (|alpha| sum|a| + |beta| sum|b|), inverse: max instead of sum)",
    "C11.per_component": "component i of the transform == transform of the one-component field holding component i (all four kinds; 16 eps * sum|value|); nvdim is preserved",
    "C11.rename": "forward: vdims -> ft_<vdim>, vdim_mapping {v: d} -> {ft_v: k_d}; inverse strips the prefixes again (equals the original vdims/vdim_mapping); scalar fields without vdims keep None / {}",
}
RULE = ("shapes: every tuple of axis sizes in 1..6 for 1, 2 and 3 dimensions (258 shapes = every mix of single/even/odd axes); 4 dimensions: sizes 1..3 "
        "(thorough all 81 + 40 seeded with sizes 1..4, quick 24 incl. all-single and all-3); per shape (x5 in thorough) seeded anisotropic cell "
        "sizes (10^U(-9,3) scale, ratio up to 7), seeded mesh offset (incl. far from the origin), 1-4 components, real and complex data (normal, "
        "non-symmetric), default / custom / permuted vdims+vdim_mapping, default / custom dims+units; kinds: forward (values, k-mesh, names, inverse, "
        "half, zero frequency, per component, renaming) and linear; trivial = one cell in total; distinct by (kind, params)")
ASSUMPTIONS = [
    "bounded: <= 6 cells per axis (<= 4 in 4-d), 1-4 dimensions, 1-4 components, seeded data and geometry",
    "oracle sum evaluated in numpy longdouble (80-bit on x86; falls back to double elsewhere) - trusted: numpy exp/cos/sin, np.fft.fftfreq/rfftfreq/fftshift tables",
    "rfftn/irfftn are exercised on real input only (scipy refuses complex input to the real transform)",
    "extra keyword arguments forwarded to scipy (norm=, workers=, ...) are not exercised",
    "unit format: only '(<unit>)' + a '-1' exponent marker is demanded, not the exact TeX string",
]

VD = ["mu", "mv", "mw", "mt"]
DIMS = ["a", "b", "c", "d"]
UNITS = ["nm", "s", "um", "rad"]


# ---------------------------------------------------------------------------------- enumeration
def _shapes(ctx):
    rng = ctx.rng
    out = [(k,) for k in range(1, 7)]
    out += list(itertools.product(range(1, 7), repeat=2))
    out += list(itertools.product(range(1, 7), repeat=3))
    all4 = list(itertools.product(range(1, 4), repeat=4))
    if ctx.tier == "thorough":
        out += all4
        out += [tuple(int(k) for k in rng.integers(1, 5, size=4)) for _ in range(40)]
    else:
        pick = rng.choice(len(all4), size=22, replace=False)
        out += [(1, 1, 1, 1), (3, 3, 3, 3)] + [all4[int(i)] for i in pick]
    return out


def _geom(rng, n, j):
    nd = len(n)
    scale = 10.0 ** rng.uniform(-9, 3)
    cell = (scale * rng.uniform(1.0, 7.0, size=nd)).tolist()
    mode = j % 3
    if mode == 0:
        p1 = [0.0] * nd
    elif mode == 1:
        p1 = (rng.uniform(-3, 3, size=nd) * scale).tolist()
    else:
        p1 = (rng.uniform(-3, 3, size=nd) * scale * 1e3).tolist()
    return cell, p1


def cases(ctx):
    rng = ctx.rng
    reps = 1 if ctx.tier == "quick" else 5
    j = 0
    for n in _shapes(ctx):
        for _ in range(reps):
            for cplx in (False, True):
                j += 1
                cell, p1 = _geom(rng, n, j)
                pr = {"n": list(n), "cell": cell, "p1": p1,
                      "names": bool(rng.integers(2)),
                      "nvdim": int(rng.integers(1, 5)) if j % 5 else len(n),
                      "complex": cplx,
                      "vd": ["default", "custom", "perm"][int(rng.integers(3))],
                      "seed": int(rng.integers(1 << 30))}
                yield "forward", pr
                if j % 3 == 0:
                    pl = dict(pr)
                    pl["seed"] = int(rng.integers(1 << 30))
                    pl["alpha"] = rng.normal(size=2).tolist()
                    pl["beta"] = (rng.normal(size=2) * 10.0 ** rng.integers(-3, 4)).tolist()
                    yield "linear", pl
    # fixed corner cases: the doc-string meshes, default names, vector field with default mapping
    yield "forward", {"n": [5], "cell": [2.0], "p1": [0.0], "names": False, "nvdim": 3, "complex": False, "vd": "default", "seed": 1}
    yield "forward", {"n": [5, 5], "cell": [2.0, 2.0], "p1": [0.0, 0.0], "names": False, "nvdim": 2, "complex": False, "vd": "default", "seed": 2}
    yield "forward", {"n": [4, 1, 5], "cell": [1e-9, 2e-9, 3e-9], "p1": [-2e-9, 5e-9, 0.0], "names": False, "nvdim": 3, "complex": False, "vd": "default", "seed": 3}
    yield "forward", {"n": [3, 4, 6], "cell": [1e-9, 2e-9, 3e-9], "p1": [-2e-9, 5e-9, 0.0], "names": True, "nvdim": 3, "complex": True, "vd": "perm", "seed": 4}
    yield "linear", {"n": [3, 4, 5], "cell": [1.0, 2.0, 0.5], "p1": [0.1, 0.2, 0.3], "names": False, "nvdim": 3, "complex": False, "vd": "default", "seed": 5,
                     "alpha": [2.0, 0.5], "beta": [-300.0, 1.0]}


# ---------------------------------------------------------------------------------- construction
def _build_mesh(pr):
    n = list(pr["n"])
    nd = len(n)
    cell = np.array(pr["cell"], dtype=float)
    p1 = np.array(pr["p1"], dtype=float)
    p2 = p1 + np.array(n) * cell
    if pr["names"]:
        region = df.Region(p1=tuple(p1), p2=tuple(p2), dims=DIMS[:nd], units=UNITS[:nd])
    else:
        region = df.Region(p1=tuple(p1), p2=tuple(p2))
    return df.Mesh(region=region, n=tuple(n))


def _build_field(mesh, pr, data):
    nv = pr["nvdim"]
    dims = list(mesh.region.dims)
    kw = {}
    if pr["vd"] == "custom":
        kw["vdims"] = (["s"] if nv == 1 else VD[:nv])
    elif pr["vd"] == "perm":
        vd = ["s"] if nv == 1 else VD[:nv]
        kw["vdims"] = vd
        kw["vdim_mapping"] = {v: dims[(i + 1) % len(dims)] for i, v in enumerate(vd)}
    return df.Field(mesh, nvdim=nv, value=data, **kw)


def _data(rng, n, nv, cplx):
    a = rng.normal(size=(*n, nv)) * (10.0 ** rng.integers(-2, 3))
    a += rng.uniform(-1, 1, size=nv)          # non-zero mean, per component different
    if cplx:
        a = a + 1j * rng.normal(size=(*n, nv))
    return a


# ---------------------------------------------------------------------------------- oracle
_LD = np.longdouble if np.finfo(np.longdouble).eps < 1e-18 else np.float64
_CLD = np.clongdouble if _LD is np.longdouble else np.complex128


def direct_dft(values, kcentres, cell):
    """values: (*n, nv) ; kcentres: list of 1-d arrays (k-cell centres per axis, any lengths) ; r = index*cell.
    returns (*nk, nv) : sum_r values[r] * exp(-2 pi i k.r)   -- plain O(Nk*N) sum, extended precision."""
    n = values.shape[:-1]
    nd = len(n)
    nk = tuple(len(k) for k in kcentres)
    # k.r for every (k-cell, r-cell) pair
    phase = np.zeros((int(np.prod(nk)), int(np.prod(n))), dtype=_LD)
    kidx = np.indices(nk).reshape(nd, -1)
    ridx = np.indices(n).reshape(nd, -1)
    for a in range(nd):
        ka = np.asarray(kcentres[a], dtype=_LD)[kidx[a]]
        ra = ridx[a].astype(_LD) * _LD(cell[a])
        phase += np.outer(ka, ra)
    phase -= np.floor(phase)     # exp is 1-periodic in k.r
    ang = -2 * np.pi * phase if _LD is np.float64 else -(_LD(2) * np.arctan(_LD(1)) * 4) * phase
    w = np.cos(ang) + 1j * np.sin(ang)
    v = values.reshape(-1, values.shape[-1]).astype(_CLD)
    out = w.astype(_CLD) @ v
    return out.astype(np.complex128).reshape(*nk, values.shape[-1])


def _cclose(a, b, tol):
    a = np.asarray(a)
    b = np.asarray(b)
    if a.shape != b.shape:
        return False
    return bool(np.all(np.abs(a - b) <= tol))


def _maxrel(a, b, tol):
    a = np.asarray(a)
    b = np.asarray(b)
    if a.shape != b.shape:
        return "shape %s vs %s" % (a.shape, b.shape)
    with np.errstate(all="ignore"):
        return float(np.max(np.abs(a - b) / np.maximum(tol, 1e-300)))


def _centres(mesh):
    return [np.asarray(getattr(mesh.cells, d), dtype=float) for d in mesh.region.dims]


def _want_freqs(n, cell, rfft):
    out = []
    for a, (k, c) in enumerate(zip(n, cell)):
        if rfft and a == len(n) - 1:
            out.append(np.fft.rfftfreq(k, c))
        else:
            out.append(np.fft.fftshift(np.fft.fftfreq(k, c)))
    return out


def _check_kmesh(ctx, kmesh, n, cell, rfft, clause, where):
    want = _want_freqs(n, cell, rfft)
    wn = [len(w) for w in want]
    ctx.require(list(kmesh.n) == wn, clause, "%s: k-mesh cell counts" % where, got=kmesh.n, want=wn)
    if list(kmesh.n) != wn:
        return
    got = _centres(kmesh)
    for a in range(len(n)):
        scale = max(np.max(np.abs(want[a])), (1.0 / cell[a]) if n[a] == 1 else 0.0)
        ok = bool(np.all(np.abs(got[a] - want[a]) <= 8 * EPS * scale))
        sig = None
        if not ok:
            if n[a] == 1 and abs(got[a][0] - 0.5 / cell[a]) <= 8 * EPS / cell[a]:
                sig = "single-cell-axis-k-centre-is-half-inverse-cell-not-zero"
            else:
                sig = "k-centres-differ-from-fftfreq"
        ctx.require(ok, clause, "%s: k-cell centres of axis %d are not the DFT sample frequencies" % (where, a), sig=sig,
                    axis=a, n=n[a], cell=cell[a], got=got[a], want=want[a])


def _check_names(ctx, kmesh, mesh, where):
    wd = ["k_" + d for d in mesh.region.dims]
    ctx.require(list(kmesh.region.dims) == wd, "C11.k_names", "%s: k-mesh dims" % where, got=list(kmesh.region.dims), want=wd)
    oku = all(isinstance(ku, str) and ku.startswith("(" + u + ")") and "-1" in ku[len(u) + 2:]
              for ku, u in zip(kmesh.region.units, mesh.region.units)) and len(kmesh.region.units) == len(mesh.region.units)
    ctx.require(oku, "C11.k_names", "%s: k-mesh units are not the reciprocal units" % where, got=list(kmesh.region.units), base=list(mesh.region.units))


def _check_inverse_mesh(ctx, imesh, mesh, where, clause="C11.inverse_mesh"):
    n = list(mesh.n)
    okn = list(imesh.n) == n
    ctx.require(okn, clause, "%s: cell counts of the inverse mesh" % where, got=imesh.n, want=n)
    cell = np.asarray(mesh.cell, dtype=float)
    ctx.require(okn and bool(np.all(np.abs(np.asarray(imesh.cell) - cell) <= 8 * EPS * cell)), clause,
                "%s: cell size of the inverse mesh" % where, got=imesh.cell, want=cell)
    edges = np.asarray(mesh.region.edges, dtype=float)
    ctx.require(okn and bool(np.all(np.abs(np.asarray(imesh.region.center)) <= 8 * EPS * edges)), clause,
                "%s: inverse mesh is not centred at the origin" % where, got=imesh.region.center)
    ctx.require(list(imesh.region.dims) == list(mesh.region.dims) and list(imesh.region.units) == list(mesh.region.units), clause,
                "%s: dims/units of the inverse mesh" % where, got=[list(imesh.region.dims), list(imesh.region.units)],
                want=[list(mesh.region.dims), list(mesh.region.units)])
    return okn


def _rename_fwd(f):
    if f.vdims is None:
        return None, {}
    vd = ["ft_" + v for v in f.vdims]
    mp = {"ft_" + v: "k_" + d for v, d in f.vdim_mapping.items()}
    return vd, mp


# ---------------------------------------------------------------------------------- checks
def check(kind, pr, ctx):
    n = list(pr["n"])
    nd = len(n)
    nv = pr["nvdim"]
    cplx = pr["complex"]
    if int(np.prod(n)) == 1:
        ctx.trivial()
    mesh = _build_mesh(pr)
    cell = np.asarray(mesh.cell, dtype=float)
    rng = np.random.default_rng(pr["seed"])
    if kind == "linear":
        return check_linear(pr, ctx, mesh, rng)
    data = _data(rng, n, nv, cplx)
    f = _build_field(mesh, pr, data)
    assert f.array.shape == (*n, nv) and np.array_equal(f.array, data)   # harness sanity, not a clause
    budget = 64 * EPS * np.sum(np.abs(data.reshape(-1, nv)), axis=0)      # per component
    vmax = float(np.max(np.abs(data)))
    zero_idx = tuple(k // 2 for k in n)
    plain_sum = data.reshape(-1, nv).sum(axis=0)

    # ---------------- full transform
    r, F = raises(Exception, f.fftn)
    ctx.require(not r, "C11.dft_values", "fftn raised", sig="fftn-raises", error=repr(F) if r else None)
    if r:
        return
    kmesh = F.mesh
    _check_kmesh(ctx, kmesh, n, cell, False, "C11.kmesh_freqs", "Field.fftn")
    _check_names(ctx, kmesh, mesh, "Field.fftn")
    km2 = mesh.fftn()
    ctx.require(km2 == kmesh, "C11.kmesh_freqs", "Mesh.fftn() differs from the mesh of Field.fftn()")
    shape_ok = F.array.shape == (*n, nv) and list(kmesh.n) == n
    ctx.require(shape_ok, "C11.dft_values", "fftn array shape", got=F.array.shape)
    if shape_ok:
        want = direct_dft(data, _centres(kmesh), cell)
        ctx.require(_cclose(F.array, want, budget), "C11.dft_values", "fftn differs from the direct Fourier sum at the k-cell centres",
                    worst_over_budget=_maxrel(F.array, want, budget))
        ctx.require(_cclose(F.array[zero_idx], plain_sum, budget), "C11.zero_freq", "fftn: zero-frequency cell is not the plain sum",
                    got=F.array[zero_idx], want=plain_sum)
    # renaming / per component
    wvd, wmp = _rename_fwd(f)
    ctx.require(F.vdims == wvd and F.vdim_mapping == wmp and F.nvdim == nv, "C11.rename", "fftn: vdims / vdim_mapping / nvdim",
                got=[F.vdims, F.vdim_mapping, F.nvdim], want=[wvd, wmp, nv])
    comp_ok = True
    for i in range(nv):
        fi = df.Field(mesh, nvdim=1, value=data[..., i:i + 1])
        Fi = fi.fftn()
        comp_ok &= Fi.nvdim == 1 and _cclose(Fi.array[..., 0], F.array[..., i], budget[i] / 4)
    ctx.require(comp_ok, "C11.per_component", "fftn of a single component differs from that component of the transform")
    # inverse
    r, G = raises(Exception, F.ifftn)
    ctx.require(not r, "C11.inverse_values", "ifftn raised", sig="ifftn-raises", error=repr(G) if r else None)
    if not r:
        okm = _check_inverse_mesh(ctx, G.mesh, mesh, "ifftn(fftn)")
        ctx.require(okm and _cclose(G.array, data, 64 * EPS * vmax), "C11.inverse_values", "ifftn(fftn(f)) != f",
                    worst_over_budget=_maxrel(G.array, data, 64 * EPS * vmax) if okm else None)
        ctx.require(G.vdims == f.vdims and G.vdim_mapping == f.vdim_mapping and G.nvdim == nv, "C11.rename",
                    "ifftn: vdims / vdim_mapping not restored", got=[G.vdims, G.vdim_mapping], want=[f.vdims, f.vdim_mapping])
        comp_ok = True
        for i in range(nv):
            Fi = df.Field(kmesh, nvdim=1, value=F.array[..., i:i + 1])
            comp_ok &= _cclose(Fi.ifftn().array[..., 0], G.array[..., i], 16 * EPS * vmax)
        ctx.require(comp_ok, "C11.per_component", "ifftn of a single component differs from that component of the inverse")
    _check_inverse_mesh(ctx, kmesh.ifftn(), mesh, "Mesh.fftn().ifftn()")

    if cplx:
        return
    # ---------------- real transform
    r, R = raises(Exception, f.rfftn)
    ctx.require(not r, "C11.rdft_values", "rfftn raised", sig="rfftn-raises", error=repr(R) if r else None)
    if r:
        return
    rk = R.mesh
    _check_kmesh(ctx, rk, n, cell, True, "C11.rkmesh_freqs", "Field.rfftn")
    _check_names(ctx, rk, mesh, "Field.rfftn")
    ctx.require(mesh.fftn(rfft=True) == rk, "C11.rkmesh_freqs", "Mesh.fftn(rfft=True) differs from the mesh of Field.rfftn()")
    nk = n[:-1] + [n[-1] // 2 + 1]
    shape_ok = R.array.shape == (*nk, nv) and list(rk.n) == nk
    ctx.require(shape_ok, "C11.rdft_values", "rfftn array shape", got=R.array.shape, want=nk)
    if shape_ok:
        want = direct_dft(data, _centres(rk), cell)
        ctx.require(_cclose(R.array, want, budget), "C11.rdft_values", "rfftn differs from the direct Fourier sum at the k-cell centres",
                    worst_over_budget=_maxrel(R.array, want, budget))
        ctx.require(_cclose(R.array[tuple(zero_idx[:-1]) + (0,)], plain_sum, budget), "C11.zero_freq",
                    "rfftn: zero-frequency cell is not the plain sum", got=R.array[tuple(zero_idx[:-1]) + (0,)], want=plain_sum)
        if F.array.shape == (*n, nv):
            # half of the full transform: frequency j/(n d) sits at shifted index j + n//2 ; Nyquist (even n) at index 0
            last = [(j + n[-1] // 2) if (j + n[-1] // 2) < n[-1] else 0 for j in range(nk[-1])]
            half = F.array[..., last, :]
            ctx.require(_cclose(R.array, half, budget), "C11.rfft_half", "rfftn is not the non-negative-frequency half of fftn",
                        worst_over_budget=_maxrel(R.array, half, budget))
    ctx.require(R.vdims == wvd and R.vdim_mapping == wmp and R.nvdim == nv, "C11.rename", "rfftn: vdims / vdim_mapping / nvdim",
                got=[R.vdims, R.vdim_mapping, R.nvdim], want=[wvd, wmp, nv])
    comp_ok = True
    for i in range(nv):
        Ri = df.Field(mesh, nvdim=1, value=data[..., i:i + 1]).rfftn()
        comp_ok &= Ri.nvdim == 1 and _cclose(Ri.array[..., 0], R.array[..., i], budget[i] / 4)
    ctx.require(comp_ok, "C11.per_component", "rfftn of a single component differs from that component of the transform")
    # inverse with the original shape
    r, H = raises(Exception, R.irfftn, shape=tuple(n))
    ctx.require(not r, "C11.inverse_values", "irfftn(shape=n) raised", sig="irfftn-shape-raises", error=repr(H) if r else None)
    if not r:
        okm = _check_inverse_mesh(ctx, H.mesh, mesh, "irfftn(rfftn, shape=n)")
        ctx.require(okm and not np.iscomplexobj(H.array) and _cclose(H.array, data, 64 * EPS * vmax), "C11.inverse_values",
                    "irfftn(rfftn(f), shape=n) != f", dtype=str(H.array.dtype),
                    worst_over_budget=_maxrel(H.array, data, 64 * EPS * vmax) if okm else None)
        ctx.require(H.vdims == f.vdims and H.vdim_mapping == f.vdim_mapping and H.nvdim == nv, "C11.rename",
                    "irfftn: vdims / vdim_mapping not restored", got=[H.vdims, H.vdim_mapping], want=[f.vdims, f.vdim_mapping])
        comp_ok = True
        for i in range(nv):
            Ri = df.Field(rk, nvdim=1, value=R.array[..., i:i + 1])
            comp_ok &= _cclose(Ri.irfftn(shape=tuple(n)).array[..., 0], H.array[..., i], 16 * EPS * vmax)
        ctx.require(comp_ok, "C11.per_component", "irfftn of a single component differs from that component of the inverse")
        if n[-1] % 2 == 1:
            ctx.require(okm and _cclose(H.array, data, 64 * EPS * vmax), "C11.irfftn_shape", "odd last axis not restored with shape=n")
    r, M = raises(Exception, rk.ifftn, rfft=True, shape=tuple(n))
    if ctx.require(not r, "C11.inverse_mesh", "Mesh.ifftn(rfft=True, shape=n) raised", error=repr(M) if r else None):
        _check_inverse_mesh(ctx, M, mesh, "Mesh.fftn(rfft).ifftn(rfft, shape=n)")
    # inverse without shape
    r, H0 = raises(Exception, R.irfftn)
    if n[-1] % 2 == 0:
        ctx.require(not r, "C11.irfftn_shape", "irfftn() without shape raised for an even last axis", error=repr(H0) if r else None)
        if not r:
            okm = _check_inverse_mesh(ctx, H0.mesh, mesh, "irfftn(rfftn) without shape", clause="C11.irfftn_shape")
            ctx.require(okm and _cclose(H0.array, data, 64 * EPS * vmax), "C11.irfftn_shape", "even last axis not restored without shape")
        r2, M0 = raises(Exception, rk.ifftn, rfft=True)
        ctx.require(not r2 and list(M0.n) == n, "C11.irfftn_shape", "Mesh.ifftn(rfft=True) without shape does not give the even count",
                    got=None if r2 else M0.n)
    elif n[-1] >= 3:
        # the statement: the original count is NEEDED for odd sizes -> without it the size is not recovered (or refused)
        ctx.require(r or list(H0.mesh.n) != n, "C11.irfftn_shape", "odd last axis 'restored' without shape ?!", got=None if r else H0.mesh.n)
        if not r:
            ctx.require(list(H0.mesh.n) == n[:-1] + [2 * (nk[-1] - 1)], "C11.irfftn_shape",
                        "irfftn() without shape: last axis is not 2*(nk-1)", got=H0.mesh.n)


def check_linear(pr, ctx, mesh, rng):
    n = list(pr["n"])
    nv = pr["nvdim"]
    cplx = pr["complex"]
    a = _data(rng, n, nv, cplx)
    b = _data(rng, n, nv, cplx)
    if cplx:
        al, be = complex(*pr["alpha"]), complex(*pr["beta"])
    else:
        al, be = float(pr["alpha"][0]), float(pr["beta"][0])
    fa, fb = _build_field(mesh, pr, a), _build_field(mesh, pr, b)
    fc = _build_field(mesh, pr, al * a + be * b)
    s = abs(al) * np.sum(np.abs(a.reshape(-1, nv)), axis=0) + abs(be) * np.sum(np.abs(b.reshape(-1, nv)), axis=0)
    Fa, Fb, Fc = fa.fftn(), fb.fftn(), fc.fftn()
    ctx.require(_cclose(Fc.array, al * Fa.array + be * Fb.array, 64 * EPS * s), "C11.linear", "fftn is not linear",
                worst_over_budget=_maxrel(Fc.array, al * Fa.array + be * Fb.array, 64 * EPS * s))
    # inverse on arbitrary (non-hermitian) k-space data: reuse a, b as k-space fields
    km = Fa.mesh
    ka, kb, kc = (df.Field(km, nvdim=nv, value=x) for x in (a, b, al * a + be * b))
    m = abs(al) * np.max(np.abs(a)) + abs(be) * np.max(np.abs(b))
    ctx.require(_cclose(kc.ifftn().array, al * ka.ifftn().array + be * kb.ifftn().array, 64 * EPS * m), "C11.linear", "ifftn is not linear")
    if not cplx:
        Ra, Rb, Rc = fa.rfftn(), fb.rfftn(), fc.rfftn()
        ctx.require(_cclose(Rc.array, al * Ra.array + be * Rb.array, 64 * EPS * s), "C11.linear", "rfftn is not linear")
        sh = tuple(n)
        # irfftn on k-space data (complex half spectra Ra, Rb)
        rk = Ra.mesh
        x, y = Ra.array, Rb.array
        ia = df.Field(rk, nvdim=nv, value=x).irfftn(shape=sh).array
        ib = df.Field(rk, nvdim=nv, value=y).irfftn(shape=sh).array
        ic = df.Field(rk, nvdim=nv, value=al * x + be * y).irfftn(shape=sh).array
        ctx.require(_cclose(ic, al * ia + be * ib, 64 * EPS * m), "C11.linear", "irfftn is not linear")
