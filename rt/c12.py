"""C12 bounded run-time tier: quarter-turn rotations move values, vectors, validity and geometry together.

Fields with a value that is a unique function of (global cell index, component), seeded validity masks and
cell-aligned subregions on anisotropic 2-4-d meshes are rotated by the real Region/Mesh/Field.rotate90 and compared with an
own integer oracle: exact quarter-turn matrix Q on coordinates and mapped vector components, explicit index permutation
(no use of numpy.rot90).  The component-to-axis mapping is presented to the library in every way the vdim_mapping setter accepts
(keys in any insertion order, any label spelling incl. labels that look like axis names, not-mapped components pointing to None or to a
name that is no axis, installed by the constructor or by the setter, more / fewer components than axes): the oracle looks the two
components up by VALUE in the mapping, never by position.  Bounded: <= 5 cells per axis, k in -5..5, seeded geometry.

The SCALE of the numbers is part of the input space: besides integer-valued fields of magnitude 1e-3 .. 1e3 the same rotations run on fields whose values are of the
order 1e-15 .. 1e15 (a displacement in metres on a nanometre sample), whose scale differs from cell to cell, from component to component or from entry to entry, and
that contain exact zeros (whole components, like (Ms, 0, 0), single entries, whole cells); on regions of 1e-12 .. 1e6 with references up to 1000 region sizes away.
A quarter turn only moves and negates numbers, so every value clause is stated per entry, to ULPS ulp of THAT entry (never an absolute budget, never a budget taken from
another component or cell); geometry clauses carry budgets relative to max(|corner|, |R|)."""
import itertools
import numpy as np
import discretisedfield as df
from .common import raises, ulp_close

PROPERTY = "C12"
CLAUSES = {
    "C12.point_map": "g(R+Q(p-R)) == Q f(p) at every cell centre p: the own containing-cell lookup of R+Q(p-R) in the result lattice is the permuted index, "
                     "every entry of the value there is the entry of Q applied to the two mapped components (Q only moves and negates: to 64 ulp of that entry itself, whatever the scale of the field - an exact zero stays zero, "
                     "1e-12 next to 1e12 stays 1e-12), unmapped components and scalars are unchanged (exact), validity moves with the cell (exact)",
    "C12.region": "region corners are min/max of R+Q(corner-R) (64 ulp of max(|corner|,|R|) on the two axes), other axes untouched (exact)",
    "C12.counts_units_names": "cell counts and units of the two axes swap for odd k and stay for even k; dims, vdims, vdim_mapping, unit, nvdim stay",
    "C12.subregions": "subregions keep their names and are rotated about the same reference (corners to 64 ulp), carrying the mesh's dims/units",
    "C12.k_mod_4": "rotation by k and by k mod 4 agree (geometry to 64 ulp, counts/units/validity exact, every value to 64 ulp of itself)",
    "C12.four_turns": "four successive quarter turns about the same reference are the identity (geometry to 64 ulp per step, every value to 64 ulp of itself, rest exact)",
    "C12.turn_reverse": "a turn followed by its reverse (-k, or the same k from b to a) about the same reference is the identity (geometry to 64 ulp per step, every value to 64 ulp of itself, rest exact)",
    "C12.consistent": "field.rotate90(..).mesh == mesh.rotate90(..) and mesh.rotate90(..).region == region.rotate90(..) (incl. units, subregions)",
    "C12.inplace_eq_copy": "the in-place form returns the object itself and leaves it equal to what the copying form returns (region, mesh, field; geometry to 64 ulp, every value to 64 ulp of itself, rest exact); the copying form leaves the receiver untouched",
    "C12.refuse_unmapped": "a vector field without component-to-axis mapping for a or b is refused (RuntimeError) in both forms and the object is left unchanged",
    "C12.mapping_presentation": "the result depends only on the component-to-axis mapping, not on how it is written: fields that differ only in the insertion order of the vdim_mapping dict, "
                                "in the spelling of the component labels, in what a not-mapped component points to (None / a name that is no axis) or in how the mapping was installed (constructor / setter) "
                                "rotate to bitwise the same array, validity and mesh (copy form vs copy form, in-place vs in-place) and keep their own vdims and mapping",
    "C12.accept": "rotation of a scalar field or of a vector field with both components mapped succeeds for every axis pair, k and reference point, whatever the size of the coordinates and of the values",
}
RULE = ("seeded fields on 2-4-d anisotropic meshes (different n and cell per axis, scales 1e-9/1e-3/1/1e6 with subregions (1e6: whole-number corners and cells), 10^U(-12,6) without; distinct units per axis, "
        "non-default dims), nvdim 1-6 with permuted / partial component-to-axis mappings written with the dict keys in vdims order or shuffled, 5 label spellings (default, reverse-sorting, "
        "axis names shifted by one, y/z/x, shuffled), not-mapped components -> None or a non-axis name, mapping installed by constructor or setter; every ordered axis pair x k in -5..5 x reference (default / arbitrary, up to 100 region sizes away) "
        "x (copy, in place); identities per (field, axis pair, reference); refusal per (field, unmapped axis pair); "
        "value scales: integers x 1e-3..1e3, and per (field, axis pair) one more rotate + identities case (reference default / near / 1000 region sizes away), every second presentation family and half of the refusals on one of "
        "6 scale classes in turn: one power of ten 1e-15..1e-8, one 1e8..1e15, a power of ten per cell, per component, per entry (ranges [-15..-6], [-12..0], [-12..12], [-10..12], [-3..12]; per entry with 10% exact zeros), "
        "exact zeros (25% of the entries, 40% of the components, 15% of the cells) at one scale 1e-12..1e12; fixed: a 1e-9 displacement field and a (8e5, 0, 0)-like field on a 100 nm sample; "
        "presentation families: 3 components on 3 axes (all 6 bijections x all 6 ordered axis pairs x all 6 key orders), 3 and 4 components on 2 axes (every placement of the two mapped components x both axis pairs "
        "x all 6 resp. 12 of 24 (thorough: all 24) key orders), 2 components on 3 and 4 axes, seeded 2-6 components on 2-4 axes; each variant x k x (copy, in place) against the own oracle and against the canonical writing. non-trivial = more than one cell; distinct by (kind, params)")
ASSUMPTIONS = [
    "bounded: 2-4 dimensions, <= 5 cells per axis, k in -5..5 (plus +-9, 1002 in thorough), seeded geometry, <= 3 subregions, <= 6 components",
    "a component mapped to a name that is not a dimension of the mesh counts as not mapped (e.g. the z component of a 3-component field on an x-y mesh); injective mappings only",
    "'to rounding' = 64 ulp relative to the operand scale: max(|corner|,|R|) for coordinates; for values the operand is the single entry that Q moves (64 ulp of that entry; the exact matrix has entries 0, 1, -1, "
    "so nothing of the partner component may arrive: a result of cos/sin(k*pi/2) evaluated in floating point that leaks eps*partner into the entry is reported with sig 'cos-sin-residue-leaks-partner-component')",
    "a mesh with subregions whose coordinates are >= 1e3 can only be built when its corners and cell sizes are whole numbers (the constructor's alignment test uses an absolute tolerance, property C14); "
    "a ROTATION refused for that reason is reported under C12.accept with its own sig",
]

DIMS = ["u", "w", "q", "t"]
UNITS = ["nm", "s", "T", "kg"]
VD = ["va", "vb", "vc", "vd", "ve", "vf"]
LABEL_CLASSES = ("VD", "revsort", "dimnames", "yzx", "shuffled")
QS = {0: ((1, 0), (0, 1)), 1: ((0, -1), (1, 0)), 2: ((-1, 0), (0, -1)), 3: ((0, 1), (-1, 0))}
ULPS = 64
EPS = float(np.finfo(float).eps)
RESIDUE_SIG = "cos-sin-residue-leaks-partner-component"


# ------------------------------------------------------------------------------------------ helpers
class Agg:
    def __init__(self, ctx):
        self.ctx, self.ok, self.bad = ctx, {}, {}

    def req(self, cond, clause, what="", sig=None, **detail):
        try:
            cond = bool(cond)
        except Exception:
            cond = False
        if cond:
            self.ok[clause] = self.ok.get(clause, 0) + 1
        else:
            key = (clause, sig)
            if key in self.bad:
                self.bad[key][2] += 1
            else:
                self.bad[key] = [what, detail, 1]
        return cond

    def flush(self):
        badc = {k[0] for k in self.bad}
        for clause in self.ok:
            if clause not in badc:
                self.ctx.require(True, clause)
        for (clause, sig), (what, detail, cnt) in self.bad.items():
            self.ctx.require(False, clause, what, sig=sig, failures_in_case=cnt, **detail)


def asig(v, default=None):
    """signature of a refused rotation that has to be accepted"""
    if isinstance(v, ValueError) and "is not aligned with the mesh" in str(v):
        return "rotated-subregion-refused-by-absolute-alignment-tolerance"      # Mesh.is_aligned: |difference| < 1e-12 whatever the size of the coordinates
    return default


def errtxt(v):
    """text of an exception; nothing for a returned object (the repr of a Field renders an html template, ~50 ms)"""
    return repr(v)[:200] if isinstance(v, BaseException) else None


def build(pr):
    p1, p2 = np.array(pr["p1"], float), np.array(pr["p2"], float)
    n = np.array(pr["n"], int)
    nd = len(n)
    dims = tuple(pr.get("dims") or DIMS[:nd])
    units = tuple(pr.get("units") or UNITS[:nd])
    nvdim = int(pr["nvdim"])
    pmin, pmax = np.minimum(p1, p2), np.maximum(p1, p2)
    cell = (pmax - pmin) / n
    region = df.Region(p1=tuple(p1), p2=tuple(p2), dims=dims, units=units)
    subs = {"r%d" % i: df.Region(p1=tuple(pmin + np.array(lo) * cell), p2=tuple(pmin + np.array(hi) * cell)) for i, (lo, hi) in enumerate(pr.get("subs") or [])}
    mesh = df.Mesh(region=region, n=tuple(int(k) for k in n), subregions=subs)
    array = values(pr, tuple(int(k) for k in n), nvdim)
    valid = np.random.default_rng(pr.get("vseed", 0)).random(tuple(n)) < 0.6
    kw = {}
    vmap = pr.get("vmap")
    later = None
    if pr.get("vdims", nvdim > 1):
        labels = list(pr.get("vlabels") or VD[:nvdim])
        kw["vdims"] = labels
        if vmap is not None:
            # vmap[c]: axis index | None | a name that is no axis.  vorder: the order in which the keys are inserted into the dict
            order = pr.get("vorder") or list(range(nvdim))
            mapping = {labels[c]: (dims[vmap[c]] if isinstance(vmap[c], int) else vmap[c]) for c in order}
            if pr.get("via") == "setter":
                later = mapping
            else:
                kw["vdim_mapping"] = mapping
    field = df.Field(mesh, nvdim=nvdim, value=array.copy(), valid=valid.copy(), unit="A/m", **kw)
    if later is not None:
        field.vdim_mapping = later
    return field


def values(pr, n, nvdim):
    """the field values: a function of (global cell index, component) that takes every non-zero value once.
    vclass None: (1 + nvdim*cell + c) * (-1)^c * vscale (integers times one scale).  The other classes put the SCALE of the values under test:
    distinct mantissas in (1, 1.5] times a power of ten that is the same everywhere ('uniform', 1e-15 .. 1e15), differs from cell to cell ('cellmix'),
    from component to component ('compmix') or from entry to entry ('allmix', with exact zeros), or with whole components / single entries exactly zero ('zeros')"""
    lin = np.arange(int(np.prod(n))).reshape(n)
    comp = np.arange(nvdim)
    vclass = pr.get("vclass")
    vscale = float(pr.get("vscale", 1.0))
    if vclass is None:
        return (1.0 + nvdim * lin[..., None] + comp) * np.where(comp % 2, -1.0, 1.0) * vscale
    rng = np.random.default_rng([int(pr.get("vseed", 0)), 12])
    mant = 1.0 + (1.0 + nvdim * lin[..., None] + comp) / (2.0 * lin.size * nvdim + 2.0)
    lo, hi = pr.get("vexp") or (-12, 12)
    sign = np.where(rng.random((*n, nvdim)) < 0.5, -1.0, 1.0)
    if vclass == "uniform":
        return mant * sign * vscale
    if vclass == "cellmix":
        e = np.broadcast_to(rng.integers(lo, hi + 1, size=n)[..., None], (*n, nvdim))
    elif vclass == "compmix":
        e = np.broadcast_to(np.resize(rng.permutation(np.arange(lo, hi + 1)), nvdim), (*n, nvdim))
    elif vclass == "allmix":
        e = rng.integers(lo, hi + 1, size=(*n, nvdim))
    elif vclass == "zeros":
        e = np.zeros((*n, nvdim), int)
    else:
        raise AssertionError("unknown value class %r" % (vclass,))
    arr = mant * sign * vscale * 10.0 ** e.astype(float)
    if vclass in ("allmix", "zeros"):
        arr[rng.random((*n, nvdim)) < (0.1 if vclass == "allmix" else 0.25)] = 0.0
    if vclass == "zeros":
        arr[..., rng.random(nvdim) < 0.4] = 0.0                 # whole components that vanish, like the field (Ms, 0, 0)
        arr[rng.random(n) < 0.15] = 0.0                         # cells without any value
    return arr


def snap(obj):
    """deep description of the observable state of a region / mesh / field"""
    if isinstance(obj, df.Region):
        return {"pmin": np.array(obj.pmin, float), "pmax": np.array(obj.pmax, float), "dims": tuple(obj.dims), "units": tuple(obj.units)}
    if isinstance(obj, df.Mesh):
        return {"region": snap(obj.region), "n": np.array(obj.n).copy(), "subs": [(k, snap(v)) for k, v in obj.subregions.items()]}
    return {"mesh": snap(obj.mesh), "array": obj.array.copy(), "valid": np.array(obj.valid).copy(), "vdims": None if obj.vdims is None else list(obj.vdims),
            "vmap": dict(obj.vdim_mapping), "unit": obj.unit, "nvdim": obj.nvdim}


def diff(a, b, scale=None, vscale=None, pre=""):
    """names of the state items in which two snapshots differ; coordinates to ULPS of `scale` (None: exact), values exact (vscale None) or every entry to ULPS ulp of
    the entry itself (vscale "rel"; never a budget taken from another entry, another cell or an absolute number)"""
    out = []
    if "pmin" in a:
        for key in ("pmin", "pmax"):
            same = a[key].shape == b[key].shape and (np.array_equal(a[key], b[key]) if scale is None else ulp_close(a[key], b[key], ULPS, scale))
            if not same:
                out.append(pre + key)
        for key in ("dims", "units"):
            if a[key] != b[key]:
                out.append(pre + key)
    elif "region" in a:
        out += diff(a["region"], b["region"], scale, vscale, pre)
        if not np.array_equal(a["n"], b["n"]):
            out.append(pre + "n")
        if [k for k, _ in a["subs"]] != [k for k, _ in b["subs"]]:
            out.append(pre + "sub.names")
        else:
            for (k, x), (_, y) in zip(a["subs"], b["subs"]):
                out += sorted({("sub." + d) for d in diff(x, y, scale, vscale, "")})
    else:
        out += diff(a["mesh"], b["mesh"], scale, vscale, pre)
        if a["array"].shape != b["array"].shape or not (np.array_equal(a["array"], b["array"]) if vscale is None else ulp_close(a["array"], b["array"], ULPS, None if vscale == "rel" else vscale)):
            out.append("array")
        if a["valid"].shape != b["valid"].shape or a["valid"].dtype != b["valid"].dtype or not np.array_equal(a["valid"], b["valid"]):
            out.append("valid")
        for key in ("vdims", "vmap", "unit", "nvdim"):
            if a[key] != b[key]:
                out.append(key)
    return sorted(set(out))


def value_mismatch(got, want, pair, steps=1):
    """(why, sig) if the values `got` are not `want` (None if they are): a quarter turn only moves and negates numbers, so every entry of the two rotated components
    must agree with the wanted entry to ULPS ulp of THAT ENTRY (an exact zero stays an exact zero, 1e-12 next to 1e12 stays 1e-12), all other components bit for bit.
    sig RESIDUE_SIG: every failing entry is off by no more than 2*steps*eps times the magnitude of the partner component in the same cell (what cos/sin of k*pi/2
    evaluated in floating point, 6e-17 .. 1.8e-16 instead of 0, leaks from the partner into the entry)"""
    if got.shape != want.shape:
        return "shape", None
    nv = want.shape[-1]
    pair = [c for c in (pair or ()) if c is not None]
    rest = [c for c in range(nv) if c not in pair]
    if not np.array_equal(got[..., rest], want[..., rest]):
        return ("a component that is not mapped to a or b changed" if pair else "scalar value at the image point differs"), None
    if pair:
        d = np.abs(got[..., pair] - want[..., pair])
        bad = ~(d <= ULPS * EPS * np.abs(want[..., pair]))
        if bad.any():
            partner = np.max(np.abs(want[..., pair]), axis=-1)[..., None]
            leak = d <= 2 * steps * EPS * partner
            i = tuple(int(x[0]) for x in np.nonzero(bad))
            return ("the two mapped components at the image point are not Q applied to the two mapped components of f(p) (entry %s of the rotated pair: got %r, want %r, partner magnitude %r)"
                    % (list(i), float(got[..., pair][i]), float(want[..., pair][i]), float(partner[i[:-1]][0]))), (RESIDUE_SIG if bool(np.all(leak[bad])) else None)
    return None, None


def rot_point(p, R, a, b, Q):
    out = np.array(p, float).copy()
    da, db = p[a] - R[a], p[b] - R[b]
    out[a] = R[a] + Q[0][0] * da + Q[0][1] * db
    out[b] = R[b] + Q[1][0] * da + Q[1][1] * db
    return out


def rot_box(pmin, pmax, R, a, b, Q):
    c1, c2 = rot_point(pmin, R, a, b, Q), rot_point(pmax, R, a, b, Q)
    return np.minimum(c1, c2), np.maximum(c1, c2)


def rot_indices(n, a, b, k):
    """destination index of every source cell after k quarter turns a->b (explicit permutation), and the new n"""
    idx = list(np.indices(tuple(n)))
    nn = list(int(x) for x in n)
    for _ in range(k % 4):
        ia, ib = idx[a], idx[b]
        idx[a], idx[b] = nn[b] - 1 - ib, ia
        nn[a], nn[b] = nn[b], nn[a]
    return nn, idx


def scale_ab(s, R, a, b):
    return float(max(abs(s["pmin"][a]), abs(s["pmax"][a]), abs(s["pmin"][b]), abs(s["pmax"][b]), abs(R[a]), abs(R[b])))


def rot_kwargs(dims, a, b, k, ref):
    kw = {"ax1": dims[a], "ax2": dims[b], "k": k}
    if ref is not None:
        kw["reference_point"] = tuple(ref)
    return kw


def comp_of(field_snap, dims, a):
    """index of the vector component mapped to axis a (None if none)"""
    if field_snap["vdims"] is None:
        return None
    for v, d in field_snap["vmap"].items():
        if d == dims[a]:
            return field_snap["vdims"].index(v)
    return None


# ------------------------------------------------------------------------------------------ cases
def geometry(rng, nd, with_sub, nmax):
    n = rng.permutation(np.arange(1, nmax + 1))[:nd] if nmax >= nd else rng.integers(1, nmax + 1, size=nd)   # distinct counts per axis
    if with_sub:
        s = float(rng.choice([1e-9, 1e-3, 1.0, 1e6]))
        off = rng.uniform(-3, 3, size=nd) * s * float(rng.choice([1.0, 10.0]))
    else:
        s = 10.0 ** rng.uniform(-12, 6)
        off = rng.uniform(-3, 3, size=nd) * s * (10.0 ** rng.integers(0, 3))
    e = rng.uniform(0.3, 1.7, size=nd) * s
    if with_sub and s >= 1e3:
        # kilometre-sized sample with subregions: corners and cell sizes are whole numbers, so that pmin + i*cell is exact and the mesh constructor's own
        # alignment test of the subregions (absolute tolerance) has nothing to complain about on the way in
        e = n * rng.integers(300, 1700, size=nd).astype(float) * (s / 1e3 / n.max())
        e = n * np.round(e / n)
        off = np.round(off)
    flip = rng.integers(0, 2, size=nd).astype(bool)
    return np.where(flip, off + e, off).tolist(), np.where(flip, off, off + e).tolist(), [int(x) for x in n], s


VALUE_CLASSES = ("small", "cellmix", "compmix", "large", "allmix", "zeros")


def value_class(rng, i):
    """the i-th way of scaling the field values (see values()): parameters for build()"""
    name = VALUE_CLASSES[i % len(VALUE_CLASSES)]
    if name == "small":        # e.g. a displacement in metres on a nanometre sample
        return {"vclass": "uniform", "vscale": float(10.0 ** int(rng.integers(-15, -7)))}
    if name == "large":
        return {"vclass": "uniform", "vscale": float(10.0 ** int(rng.integers(8, 16)))}
    if name == "zeros":
        return {"vclass": "zeros", "vscale": float(10.0 ** int(rng.integers(-12, 13)))}
    lo = int(rng.choice([-12, -15, -10, -3]))
    return {"vclass": name, "vscale": 1.0, "vexp": [lo, int(rng.choice([-6, 0, 12])) if lo < -3 else 12]}


def random_vmap(rng, nvdim, nd, a=None, b=None):
    """component -> axis index or None: a random injective partial mapping"""
    axes = list(rng.permutation(nd))
    vm = [None] * nvdim
    comps = list(rng.permutation(nvdim))
    m = int(rng.integers(0, min(nvdim, nd) + 1))
    for c, ax in zip(comps[:m], axes[:m]):
        vm[int(c)] = int(ax)
    return vm


def index_boxes(rng, n, count):
    out = []
    for _ in range(count):
        lo = [int(rng.integers(0, k)) for k in n]
        out.append([lo, [int(rng.integers(l + 1, k + 1)) for l, k in zip(lo, n)]])
    return out


def make_labels(rng, cls, nvdim, dims):
    """component labels of one spelling class (None = VD[:nvdim])"""
    if cls == "revsort":            # alphabetical order is the reverse of the component order
        return ["zf", "ye", "xd", "wc", "vb", "ua"][:nvdim]
    if cls == "dimnames":           # the axis names shifted by one: component 0 is spelled like axis 1 ...
        rot = list(dims[1:]) + list(dims[:1])
        return (rot + [v for v in VD if v not in rot])[:nvdim]
    if cls == "yzx":
        return ["y", "z", "x", "t0", "t1", "t2"][:nvdim]
    if cls == "shuffled":
        return [VD[int(i)] for i in rng.permutation(len(VD))[:nvdim]]
    return None


def shuffled_order(rng, nvdim):
    while True:
        o = [int(i) for i in rng.permutation(nvdim)]
        if o != list(range(nvdim)) or nvdim < 2:
            return o


def foreignise(rng, vm, dims):
    """not-mapped components point to None or (half of the time) to a name that is not an axis of the mesh"""
    names = [x for x in ("z", "out", "n", "x9") if x not in dims]
    return [(names[int(rng.integers(len(names)))] if (j is None and rng.random() < 0.5) else j) for j in vm]


def presentation(rng, nvdim, dims):
    """a random way of writing the mapping down: key order, label spelling, constructor / setter"""
    cls = LABEL_CLASSES[int(rng.integers(len(LABEL_CLASSES)))]
    return {"vorder": shuffled_order(rng, nvdim) if rng.random() < 0.8 else None, "vlabels": make_labels(rng, cls, nvdim, dims),
            "via": "setter" if rng.random() < 0.3 else "ctor"}


def variant_list(rng, nvdim, dims, vm, count):
    """ways of writing one and the same mapping vm: key orders x label spellings x None/foreign name x constructor/setter"""
    perms = [list(o) for o in itertools.permutations(range(nvdim))]
    ident = list(range(nvdim))
    if len(perms) * len(LABEL_CLASSES) <= 12:
        combos = [(o, c) for o in perms for c in LABEL_CLASSES if not (o == ident and c == "VD")]
    else:
        if len(perms) > count:
            fixed = [ident, ident[::-1], ident[1:] + ident[:1], ident[-1:] + ident[:-1]]
            orders = [o for i, o in enumerate(fixed) if o not in fixed[:i]]
            while len(orders) < count:
                o = shuffled_order(rng, nvdim)
                if o not in orders:
                    orders.append(o)
        else:
            orders = perms
        combos = [(o, LABEL_CLASSES[(i + 1) % len(LABEL_CLASSES)]) for i, o in enumerate(orders)]      # identity order gets a non-default spelling, a shuffled order the default one
    out = []
    for i, (o, c) in enumerate(combos):
        v = {"vorder": o, "vlabels": make_labels(rng, c, nvdim, dims), "via": "setter" if i % 3 == 2 else "ctor"}
        if any(j is None for j in vm):
            v["vmap"] = foreignise(rng, vm, dims) if i % 2 else list(vm)
        out.append(v)
    return out


def family_cases(ctx, ks):
    """presentation families: the combinatorics is exhaustive, only the geometry is seeded"""
    rng = ctx.rng
    quick = ctx.tier == "quick"

    nbase = [0]

    def base_for(nd, nmax, named):
        p1, p2, n, s = geometry(rng, nd, True, nmax)
        b = {"p1": p1, "p2": p2, "n": n, "vseed": int(rng.integers(1 << 30)), "vscale": float(10.0 ** rng.integers(-3, 4)), "subs": index_boxes(rng, n, 1)}
        nbase[0] += 1
        if nbase[0] % 2 == 0:          # every other family on values whose scale is far from 1 / mixed
            b.update(value_class(rng, nbase[0] // 2))
        if named:
            b["dims"] = ["x", "y", "z"][:nd] if nd <= 3 else ["x0", "x1", "x2", "x3"]
        return b, 0.5 * (np.array(p1) + np.array(p2)), np.abs(np.array(p1) - np.array(p2))

    def ref_for(i, centre, size):
        return None if i % 2 == 0 else (centre + rng.uniform(-1, 1, len(centre)) * size).tolist()

    i = 0
    # 3 components on 3 axes: every bijection x every ordered axis pair x every key order
    for perm in itertools.permutations(range(3)):
        base, centre, size = base_for(3, 3, i % 2 == 0)
        dims = base.get("dims") or DIMS[:3]
        for a, b in itertools.permutations(range(3), 2):
            i += 1
            yield "presentation", dict(base, nvdim=3, vmap=list(perm), a=a, b=b, ks=ks, ref=ref_for(i, centre, size), variants=variant_list(rng, 3, dims, list(perm), 6))
    # more components than axes: 3 and 4 components on 2 axes, every placement of the two mapped components
    for nv in (3, 4):
        for ca, cb in itertools.permutations(range(nv), 2):
            base, centre, size = base_for(2, 4, i % 2 == 0)
            dims = base.get("dims") or DIMS[:2]
            for a, b in ((0, 1), (1, 0)):
                i += 1
                vm = [None] * nv
                vm[ca], vm[cb] = a, b
                yield "presentation", dict(base, nvdim=nv, vmap=vm, a=a, b=b, ks=ks, ref=ref_for(i, centre, size),
                                           variants=variant_list(rng, nv, dims, vm, 6 if nv == 3 else (12 if quick else 24)))
                # refusal must not depend on the writing either: one of the two components is taken out, labels spelled like the axes
                for miss in (("a", "b", "both")[i % 3],) if quick else ("a", "b", "both"):
                    vr = [None if ((j == a and miss in ("a", "both")) or (j == b and miss in ("b", "both"))) else j for j in vm]
                    cls = ("dimnames", "yzx", "revsort")[i % 3]
                    yield "refuse", dict(base, nvdim=nv, vmap=foreignise(rng, vr, dims), vorder=shuffled_order(rng, nv), vlabels=make_labels(rng, cls, nv, dims),
                                         via="setter" if i % 4 == 0 else "ctor", a=a, b=b, k=int(rng.choice(ks)), ref=ref_for(i + 1, centre, size))
    # fewer components than axes: 2 components on 3 and 4 axes
    for nd in (3, 4):
        base, centre, size = base_for(nd, 3, nd == 3)
        dims = base.get("dims") or DIMS[:nd]
        for a, b in itertools.permutations(range(nd), 2):
            i += 1
            if quick and nd == 4 and i % 2:
                continue
            vm = [a, b] if i % 4 < 2 else [b, a]
            yield "presentation", dict(base, nvdim=2, vmap=vm, a=a, b=b, ks=ks, ref=ref_for(i, centre, size), variants=variant_list(rng, 2, dims, vm, 6))
    # seeded: 2-6 components on 2-4 axes, partial mappings
    for nd in (2, 3, 4):
        for rep in range(3 if quick else 16):
            base, centre, size = base_for(nd, 4, rep % 2 == 1)
            dims = base.get("dims") or DIMS[:nd]
            nv = int(rng.integers(2, 7))
            pairs = list(itertools.permutations(range(nd), 2))
            for a, b in (pairs if not quick else [pairs[int(j)] for j in rng.permutation(len(pairs))[:3]]):
                i += 1
                vm = random_vmap(rng, nv, nd)
                vm = [None if j in (a, b) else j for j in vm]
                ca, cb = (int(x) for x in rng.permutation(nv)[:2])
                vm[ca], vm[cb] = a, b
                yield "presentation", dict(base, nvdim=nv, vmap=vm, a=a, b=b, ks=ks, ref=ref_for(i, centre, size), variants=variant_list(rng, nv, dims, vm, 5 if quick else 8))


def cases(ctx):
    rng = ctx.rng
    quick = ctx.tier == "quick"
    reps = 3 if quick else 12
    ks = list(range(-5, 6)) + ([] if quick else [9, -9, 1002])
    nscaled = 0
    for nd in (2, 3, 4):
        nmax = {2: 5, 3: 4, 4: 4}[nd] if quick else {2: 5, 3: 5, 4: 4}[nd]
        for rep in range(reps):
            with_sub = rep % 3 != 2
            p1, p2, n, s = geometry(rng, nd, with_sub, nmax)
            nvdim = int(rng.choice([1, 2, 3, 4])) if rep else nd
            base = {"p1": p1, "p2": p2, "n": n, "nvdim": nvdim, "vseed": int(rng.integers(1 << 30)), "vscale": float(10.0 ** rng.integers(-3, 4)),
                    "subs": index_boxes(rng, n, int(rng.integers(1, 4))) if with_sub else []}
            if rep % 2:
                base["dims"] = ["x", "y", "z"][:nd] if nd <= 3 else ["x0", "x1", "x2", "x3"]
            size = np.abs(np.array(p1) - np.array(p2))
            centre = 0.5 * (np.array(p1) + np.array(p2))
            for a, b in itertools.permutations(range(nd), 2):
                # a mapping that covers a and b (permuted, otherwise partial) for vector fields
                pr = dict(base)
                if nvdim > 1:
                    vm = random_vmap(rng, nvdim, nd)
                    free = [c for c in range(nvdim)]
                    ca, cb = (int(x) for x in rng.permutation(free)[:2])
                    vm = [None if j in (a, b) else j for j in vm]
                    vm[ca], vm[cb] = a, b
                    if rep == 0:
                        vm = None          # library default mapping (nvdim == ndim)
                    else:                  # the mapping is written down in a seeded way (key order, label spelling, None / non-axis name, constructor / setter)
                        vm = foreignise(rng, vm, base.get("dims") or DIMS[:nd])
                        pr.update(presentation(rng, nvdim, base.get("dims") or DIMS[:nd]))
                    pr["vmap"] = vm
                else:
                    pr["vdims"] = bool(rng.integers(0, 2))
                    pr["vmap"] = [int(rng.integers(nd))] if pr["vdims"] else None
                for far in (None, 1.0, 100.0):
                    ref = None if far is None else (centre + rng.uniform(-1, 1, nd) * size * far).tolist()
                    if quick and far == 100.0 and (a + b + rep) % 2:
                        continue
                    yield "rotate", dict(pr, a=a, b=b, ks=ks, ref=ref)
                    if far != 100.0:
                        yield "identities", dict(pr, a=a, b=b, ks=ks, ref=ref)
                # the same field with values whose scale is far from 1, mixed between cells / components, with exact zeros; reference default / near / 1000 region sizes away
                nscaled += 1
                ps = dict(pr, **value_class(rng, nscaled))
                far = (None, 1.0, 1000.0)[(nscaled // len(VALUE_CLASSES) + nscaled) % 3]
                ref = None if far is None else (centre + rng.uniform(-1, 1, nd) * size * far).tolist()
                yield "rotate", dict(ps, a=a, b=b, ks=ks, ref=ref)
                yield "identities", dict(ps, a=a, b=b, ks=ks, ref=ref if far != 1000.0 else None)
                # refusal: a vector field whose mapping misses a, b or both
                if nvdim > 1 or rep == 1:
                    nv = max(nvdim, 2)
                    for miss in ("a", "b", "both", "empty"):
                        vm = random_vmap(rng, nv, nd)
                        vm = [None if j in (a, b) else j for j in vm]
                        if miss == "a":
                            vm[int(rng.integers(nv))] = b
                        elif miss == "b":
                            vm[int(rng.integers(nv))] = a
                        if miss == "empty":
                            vm = "empty"
                        if quick and miss in ("both", "empty") and (a + b) % 2:
                            continue
                        pres = {}
                        if vm != "empty":
                            vm = foreignise(rng, vm, base.get("dims") or DIMS[:nd])
                            pres = presentation(rng, nv, base.get("dims") or DIMS[:nd])
                        if miss in ("a", "both"):
                            pres.update(value_class(rng, nscaled + (miss == "both")))
                        yield "refuse", dict(base, nvdim=nv, vmap=vm, a=a, b=b, k=int(rng.choice(ks)), ref=None if rng.random() < 0.5 else centre.tolist(), **pres)
    yield from family_cases(ctx, ks)
    # fixed: the documented example and default 3-d vector field
    yield "rotate", {"p1": [0.0, 0.0, 0.0], "p2": [10.0, 8.0, 6.0], "n": [10, 4, 6], "nvdim": 3, "vseed": 5, "subs": [[[0, 0, 0], [5, 2, 6]]], "vmap": None,
                     "a": 0, "b": 1, "ks": ks, "ref": None, "dims": ["x", "y", "z"]}
    # fixed: a displacement field in metres on a nanometre sample; a saturated magnetisation along one axis (two components exactly zero)
    for extra in ({"vclass": "uniform", "vscale": 1e-9}, {"vclass": "zeros", "vscale": 8e5}):
        for a, b in ((0, 1), (2, 0)):
            fx = dict({"p1": [0.0, 0.0, 0.0], "p2": [100e-9, 60e-9, 20e-9], "n": [5, 3, 2], "nvdim": 3, "vseed": 11, "subs": [[[0, 0, 0], [2, 3, 1]]], "vmap": None,
                       "a": a, "b": b, "ks": ks, "ref": [20e-9, -35e-9, 5e-9], "dims": ["x", "y", "z"]}, **extra)
            yield "rotate", fx
            yield "identities", fx
    yield "refuse", {"p1": [0.0, 0.0, 0.0], "p2": [10.0, 8.0, 6.0], "n": [5, 4, 3], "nvdim": 2, "vseed": 5, "subs": [], "vmap": "empty",
                     "a": 0, "b": 2, "k": 1, "ref": None, "dims": ["x", "y", "z"]}


# ------------------------------------------------------------------------------------------ checks
def make(pr):
    p = dict(pr)
    if p.get("vmap") == "empty":
        p["vmap"] = None
        f = build(p)
        f.vdim_mapping = {}
        return f
    return build(p)


def check(kind, pr, ctx):
    if int(np.prod(pr["n"])) == 1:
        ctx.trivial()
    ag = Agg(ctx)
    {"rotate": check_rotate, "identities": check_identities, "refuse": check_refuse, "presentation": check_presentation}[kind](pr, ag)
    ag.flush()


def expected_field(s0, dims, a, b, k, R):
    """own oracle: snapshot-like description of the rotated field"""
    Q = QS[k % 4]
    odd = k % 2 == 1
    m0 = s0["mesh"]
    r0 = m0["region"]
    pmin, pmax = rot_box(r0["pmin"], r0["pmax"], R, a, b, Q)
    units = list(r0["units"])
    if odd:
        units[a], units[b] = units[b], units[a]
    nn, idx = rot_indices(m0["n"], a, b, k)
    nv = s0["nvdim"]
    ca, cb = comp_of(s0, dims, a), comp_of(s0, dims, b)
    val = s0["array"].copy()
    if nv > 1:
        val[..., ca] = Q[0][0] * s0["array"][..., ca] + Q[0][1] * s0["array"][..., cb]
        val[..., cb] = Q[1][0] * s0["array"][..., ca] + Q[1][1] * s0["array"][..., cb]
    arr = np.full((*nn, nv), np.nan)
    arr[tuple(idx)] = val
    vld = np.zeros(tuple(nn), bool)
    vld[tuple(idx)] = s0["valid"]
    subs = []
    for name, s in m0["subs"]:
        lo, hi = rot_box(s["pmin"], s["pmax"], R, a, b, Q)
        subs.append((name, {"pmin": lo, "pmax": hi, "dims": r0["dims"], "units": tuple(units)}))
    return {"mesh": {"region": {"pmin": pmin, "pmax": pmax, "dims": r0["dims"], "units": tuple(units)}, "n": np.array(nn), "subs": subs},
            "array": arr, "valid": vld, "vdims": s0["vdims"], "vmap": s0["vmap"], "unit": s0["unit"], "nvdim": nv}, idx, (ca, cb)


def check_rotate(pr, ag):
    a, b, ref = pr["a"], pr["b"], pr["ref"]
    f0 = make(pr)
    s0 = snap(f0)
    dims = s0["mesh"]["region"]["dims"]
    nd = len(dims)
    r0 = s0["mesh"]["region"]
    R = 0.5 * (r0["pmin"] + r0["pmax"]) if ref is None else np.array(ref, float)
    sc = scale_ab(r0, R, a, b)
    others = [j for j in range(nd) if j not in (a, b)]
    for k in pr["ks"]:
        kw = rot_kwargs(dims, a, b, k, ref)
        ksig = "large-k-trigonometric-rounding" if abs(k) > 64 else None      # the library evaluates cos/sin(k*pi/2) without reducing k
        exp, idx, (ca, cb) = expected_field(s0, dims, a, b, k, R)
        r, g = raises(Exception, lambda: f0.rotate90(**kw))
        if not ag.req(not r, "C12.accept", "Field.rotate90 (copy) raised", sig=asig(g) or ksig, k=k, a=a, b=b, error=errtxt(g)):
            continue
        ag.req(not diff(snap(f0), s0), "C12.inplace_eq_copy", "the copying form modified the receiver", sig="copy-modifies-receiver", k=k, changed=diff(snap(f0), s0))
        sg = snap(g)
        rg, eg = sg["mesh"]["region"], exp["mesh"]["region"]
        # --- region
        okr = ulp_close(rg["pmin"][[a, b]], eg["pmin"][[a, b]], ULPS, sc) and ulp_close(rg["pmax"][[a, b]], eg["pmax"][[a, b]], ULPS, sc) \
            and np.array_equal(rg["pmin"][others], r0["pmin"][others]) and np.array_equal(rg["pmax"][others], r0["pmax"][others])
        ag.req(okr, "C12.region", "rotated region corners differ from min/max of R+Q(corner-R)", sig=ksig, k=k, a=a, b=b, got=[rg["pmin"], rg["pmax"]], want=[eg["pmin"], eg["pmax"]], R=R)
        # --- counts, units, names
        okc = np.array_equal(sg["mesh"]["n"], exp["mesh"]["n"]) and rg["units"] == eg["units"] and rg["dims"] == dims \
            and sg["vdims"] == s0["vdims"] and sg["vmap"] == s0["vmap"] and sg["unit"] == s0["unit"] and sg["nvdim"] == s0["nvdim"]
        ag.req(okc, "C12.counts_units_names", "cell counts / units / names after rotation are wrong", k=k, a=a, b=b, n=sg["mesh"]["n"], want_n=exp["mesh"]["n"],
               units=rg["units"], want_units=eg["units"], dims=rg["dims"], vdims=sg["vdims"], vmap=sg["vmap"])
        # --- subregions
        oks = [x for x, _ in sg["mesh"]["subs"]] == [x for x, _ in exp["mesh"]["subs"]]
        if oks:
            for (_, x), (_, y) in zip(sg["mesh"]["subs"], exp["mesh"]["subs"]):
                oks &= ulp_close(x["pmin"], y["pmin"], ULPS, sc) and ulp_close(x["pmax"], y["pmax"], ULPS, sc) and x["dims"] == rg["dims"] and x["units"] == rg["units"]
        ag.req(oks, "C12.subregions", "subregions not rotated with the mesh / wrong names, dims or units", sig=ksig, k=k, a=a, b=b,
               got=[(x, y["pmin"], y["pmax"], y["units"]) for x, y in sg["mesh"]["subs"]], want=[(x, y["pmin"], y["pmax"]) for x, y in exp["mesh"]["subs"]])
        # --- point map: own lookup of R+Q(p-R) in the result lattice, values, validity
        okp = np.array_equal(sg["mesh"]["n"], exp["mesh"]["n"]) and sg["array"].shape == exp["array"].shape and sg["valid"].shape == exp["valid"].shape
        why, vsig = "shape", None
        if okp:
            Q = QS[k % 4]
            n0 = s0["mesh"]["n"]
            cell0 = (r0["pmax"] - r0["pmin"]) / n0
            src = list(np.indices(tuple(n0)))
            P = [r0["pmin"][j] + (src[j] + 0.5) * cell0[j] for j in range(nd)]          # centres p of all source cells
            Pn = list(P)
            Pn[a] = R[a] + Q[0][0] * (P[a] - R[a]) + Q[0][1] * (P[b] - R[b])
            Pn[b] = R[b] + Q[1][0] * (P[a] - R[a]) + Q[1][1] * (P[b] - R[b])
            celln = (rg["pmax"] - rg["pmin"]) / sg["mesh"]["n"]
            look = [np.floor((Pn[j] - rg["pmin"][j]) / celln[j]).astype(int) for j in range(nd)]
            if not all(np.array_equal(look[j], idx[j]) for j in range(nd)):
                okp, why = False, "the image point R+Q(p-R) does not lie in the permuted cell of the result lattice"
            else:
                got = sg["array"][tuple(idx)]                # g at the image cell of every source cell
                want = exp["array"][tuple(idx)]
                whyv, vsig = value_mismatch(got, want, [ca, cb] if s0["nvdim"] > 1 else None)
                if whyv:
                    okp, why = False, "value at the image point is not Q f(p): " + whyv
                elif not (sg["valid"].dtype == bool and np.array_equal(sg["valid"][tuple(idx)], s0["valid"])):
                    okp, why = False, "validity does not move with the cell"
        ag.req(okp, "C12.point_map", "g(R+Q(p-R)) != Q f(p): " + why, sig=vsig or ksig, k=k, a=a, b=b, R=R, comps=[ca, cb])
        # --- consistency region / mesh / field
        rm, gm = raises(Exception, lambda: f0.mesh.rotate90(**kw))
        rr, gr = raises(Exception, lambda: f0.mesh.region.rotate90(**kw))
        okq = not rm and not rr and not diff(snap(gm), sg["mesh"]) and not diff(snap(gr), snap(gm.region))
        ag.req(okq, "C12.consistent", "region, mesh and field do not rotate consistently", k=k, a=a, b=b,
               diff_mesh=None if rm else diff(snap(gm), sg["mesh"]), diff_region=None if (rr or rm) else diff(snap(gr), snap(gm.region)))
        # --- in place == copy   (field, mesh, region each on a private copy)
        for what, mk, cp in (("field", lambda: make(pr), g), ("mesh", lambda: make(pr).mesh, None if rm else gm), ("region", lambda: make(pr).mesh.region, None if rr else gr)):
            if cp is None:
                continue
            obj = mk()
            ri, ret = raises(Exception, lambda: obj.rotate90(inplace=True, **kw))
            if not ag.req(not ri, "C12.inplace_eq_copy", "in-place rotation raised where the copying form succeeds", sig="inplace-raises-" + what, k=k, error=errtxt(ret)):
                continue
            ag.req(ret is obj, "C12.inplace_eq_copy", "in-place rotation does not return the object itself", sig="inplace-returns-other-" + what, k=k)
            d = diff(snap(obj), snap(cp), sc, "rel")
            sig = None
            if d and set(d) <= {"units", "sub.units"} and k % 2 == 1 and tuple(region_units(obj)) == tuple(r0["units"]):
                sig = "inplace-rotate90-odd-k-units-not-swapped"
            ag.req(not d, "C12.inplace_eq_copy", "state after the in-place form differs from the copy form's result (%s)" % what, sig=sig, k=k, a=a, b=b, differs=d)


def region_units(obj):
    if isinstance(obj, df.Region):
        return obj.units
    if isinstance(obj, df.Mesh):
        return obj.region.units
    return obj.mesh.region.units


def ident_diff(s, s0, sc, pair, steps):
    """(differing items, sig) of a state that has to be the state s0 again: geometry to ULPS of sc, every value to ULPS ulp of the value itself, rest exact"""
    d = diff(s, s0, sc, "rel")
    if "array" not in d:
        return d, None
    why, vsig = value_mismatch(s["array"], s0["array"], pair, steps)
    return d + [str(why)], (vsig if d == ["array"] else None)


def check_identities(pr, ag):
    a, b, ref = pr["a"], pr["b"], pr["ref"]
    f0 = make(pr)
    s0 = snap(f0)
    r0 = s0["mesh"]["region"]
    dims = r0["dims"]
    C = 0.5 * (r0["pmin"] + r0["pmax"])
    R = C if ref is None else np.array(ref, float)
    sc = 4 * scale_ab(r0, R, a, b) + 4 * float(np.max(np.abs(R - C)))     # four steps, every intermediate box within |R| + |x-R|
    pair = [comp_of(s0, dims, a), comp_of(s0, dims, b)] if s0["nvdim"] > 1 else []
    # k vs k mod 4
    base = {}
    for k in pr["ks"]:
        r, g = raises(Exception, lambda: f0.rotate90(**rot_kwargs(dims, a, b, k, ref)))
        if not ag.req(not r, "C12.accept", "Field.rotate90 raised", sig=asig(g) or ("large-k-trigonometric-rounding" if abs(k) > 64 else None), k=k, error=errtxt(g)):
            continue
        m = k % 4
        if m not in base:
            rb, gb = raises(Exception, lambda: f0.rotate90(**rot_kwargs(dims, a, b, m, ref)))
            base[m] = None if rb else snap(gb)
        if base[m] is None:
            continue
        d = diff(snap(g), base[m], sc, "rel")
        ksig = "large-k-trigonometric-rounding" if abs(k) > 64 else None
        ag.req(not d, "C12.k_mod_4", "rotation by k differs from rotation by k mod 4", sig=ksig, k=k, differs=d)
        # region and mesh alone
        rr, gr = raises(Exception, lambda: f0.mesh.rotate90(**rot_kwargs(dims, a, b, k, ref)))
        ag.req(not rr and not diff(snap(gr), base[m]["mesh"], sc), "C12.k_mod_4", "mesh rotation by k differs from k mod 4", sig=ksig, k=k)
    # four quarter turns about the same reference (explicit point; for the default reference the centre is passed implicitly every time)
    for k1 in (1, -1):
        g, ok = f0, True
        for _ in range(4):
            r, g = raises(Exception, lambda: g.rotate90(**rot_kwargs(dims, a, b, k1, ref)))
            if r:
                ok = False
                break
        d, sig = (["raised: " + repr(g)[:120]], asig(g)) if not ok else ident_diff(snap(g), s0, sc, pair, 4)
        ag.req(not d, "C12.four_turns", "four quarter turns are not the identity", sig=sig, k=k1, differs=d)
        # in place, on a private copy
        h = make(pr)
        ok, err = True, None
        for _ in range(4):
            r, e = raises(Exception, lambda: h.rotate90(inplace=True, **rot_kwargs(dims, a, b, k1, ref)))
            if r:
                ok, err = False, e
                break
        d, sig = (["raised: " + repr(err)[:120]], asig(err)) if not ok else ident_diff(snap(h), s0, sc, pair, 4)
        ag.req(not d, "C12.four_turns", "four in-place quarter turns are not the identity", sig=sig, k=k1, differs=d)
    # turn + reverse
    for k in pr["ks"]:
        r, g = raises(Exception, lambda: f0.rotate90(**rot_kwargs(dims, a, b, k, ref)))
        if r:
            continue
        r1, h1 = raises(Exception, lambda: g.rotate90(**rot_kwargs(dims, a, b, -k, ref)))
        r2, h2 = raises(Exception, lambda: g.rotate90(**rot_kwargs(dims, b, a, k, ref)))
        d1, sig1 = (["raised: " + repr(h1)[:120]], asig(h1)) if r1 else ident_diff(snap(h1), s0, sc, pair, 2)
        d2, sig2 = (["raised: " + repr(h2)[:120]], asig(h2)) if r2 else ident_diff(snap(h2), s0, sc, pair, 2)
        ksig = "large-k-trigonometric-rounding" if abs(k) > 64 else None
        ag.req(not d1, "C12.turn_reverse", "rotation by k then by -k is not the identity", sig=sig1 or ksig, k=k, differs=d1)
        ag.req(not d2, "C12.turn_reverse", "rotation a->b by k then b->a by k is not the identity", sig=sig2 or ksig, k=k, differs=d2)


def check_refuse(pr, ag):
    a, b, k, ref = pr["a"], pr["b"], pr["k"], pr["ref"]
    f0 = make(pr)
    s0 = snap(f0)
    dims = s0["mesh"]["region"]["dims"]
    kw = rot_kwargs(dims, a, b, k, ref)
    ca, cb = comp_of(s0, dims, a), comp_of(s0, dims, b)
    assert ca is None or cb is None
    try:
        f0.rotate90(**kw)
        refused, err = False, None
    except RuntimeError as e:
        refused, err = True, e
    except Exception as e:
        refused, err = False, e
    ag.req(refused, "C12.refuse_unmapped", "vector field without mapping for a or b not refused with RuntimeError (copy form)", k=k, a=a, b=b, vmap=s0["vmap"], error=errtxt(err))
    ag.req(not diff(snap(f0), s0), "C12.refuse_unmapped", "refused copy-form rotation modified the field", sig="copy-refusal-modifies", differs=diff(snap(f0), s0))
    try:
        f0.rotate90(inplace=True, **kw)
        refused, err = False, None
    except RuntimeError as e:
        refused, err = True, e
    except Exception as e:
        refused, err = False, e
    ag.req(refused, "C12.refuse_unmapped", "vector field without mapping for a or b not refused with RuntimeError (in-place form)", k=k, a=a, b=b, vmap=s0["vmap"], error=errtxt(err))
    d = diff(snap(f0), s0)
    shape_ok = f0.array.shape == (*f0.mesh.n, f0.nvdim)
    sig = "inplace-refusal-after-mesh-already-rotated" if d and "array" not in d and "valid" not in d else None
    ag.req(not d, "C12.refuse_unmapped", "refused in-place rotation left the field modified", sig=sig, k=k, a=a, b=b, differs=d, array_shape_matches_mesh=shape_ok)
    # the mesh and region of such a field still rotate (nothing to map there)
    r, gm = raises(Exception, lambda: make(pr).mesh.rotate90(**kw))
    ag.req(not r, "C12.accept", "mesh of an unmapped vector field cannot be rotated", sig=asig(gm), error=errtxt(gm))


def oracle_mismatch(sg, exp, s0, comps, sc):
    """(why, sig): why the state sg is not the own oracle's rotated field exp (None if it is): mesh (geometry to ULPS of sc, rest exact), values (every entry of the rotated
    pair to ULPS ulp of the entry itself, everything else exact), validity (exact), names (exact)"""
    dm = diff(sg["mesh"], exp["mesh"], sc)
    if dm:
        return "mesh: " + ",".join(dm), None
    if sg["array"].shape != exp["array"].shape or sg["valid"].shape != exp["valid"].shape:
        return "shape", None
    why, vsig = value_mismatch(sg["array"], exp["array"], list(comps) if s0["nvdim"] > 1 else None)
    if why:
        return why, vsig
    if sg["valid"].dtype != bool or not np.array_equal(sg["valid"], exp["valid"]):
        return "validity does not move with the cell", None
    for key in ("vdims", "vmap", "unit", "nvdim"):
        if sg[key] != exp[key]:
            return "names: " + key, None
    return None, None


def point_sig(pr):
    """signature of a point-map failure in a presentation family: on the integer-valued fields the only thing that varies is the writing of the mapping"""
    return "wrong-components-for-reordered-or-relabelled-mapping" if pr.get("vclass") is None else None


def check_presentation(pr, ag):
    """one mapping, many ways of writing it down: each writing against the own oracle and against the canonical writing (keys in vdims order, default labels, None, constructor)"""
    a, b, ref = pr["a"], pr["b"], pr["ref"]
    nv = pr["nvdim"]
    canon = {key: val for key, val in pr.items() if key not in ("variants", "vorder", "vlabels", "via")}
    canon["vmap"] = [j if isinstance(j, int) else None for j in pr["vmap"]]
    variants = []
    for v in pr["variants"]:
        p = dict(canon, **v)
        assert [j if isinstance(j, int) else None for j in p["vmap"]] == canon["vmap"], "a variant must describe the same mapping"
        variants.append(p)
    fc = make(canon)
    sc0 = snap(fc)
    r0 = sc0["mesh"]["region"]
    dims = r0["dims"]
    R = 0.5 * (r0["pmin"] + r0["pmax"]) if ref is None else np.array(ref, float)
    sc = scale_ab(r0, R, a, b)
    fields = [(p, make(p)) for p in variants]
    snaps = [snap(f) for _, f in fields]
    for p, s in zip(variants, snaps):        # the variants are the same field up to the writing of the mapping (a statement about this module's builder)
        assert np.array_equal(s["array"], sc0["array"]) and np.array_equal(s["valid"], sc0["valid"]) and not diff(s["mesh"], sc0["mesh"])
        assert list(s["vmap"]) == [s["vdims"][c] for c in (p.get("vorder") or range(nv))], "the builder did not produce the requested key order"
    for k in pr["ks"]:
        kw = rot_kwargs(dims, a, b, k, ref)
        ksig = "large-k-trigonometric-rounding" if abs(k) > 64 else None
        # canonical writing, both forms
        rc, gc = raises(Exception, lambda: fc.rotate90(**kw))
        hc = make(canon)
        rci, _ = raises(Exception, lambda: hc.rotate90(inplace=True, **kw))
        if not ag.req(not rc and not rci, "C12.accept", "rotation of the canonically written field raised", sig=asig(gc) or ksig, k=k, a=a, b=b, error=errtxt(gc)):
            continue
        sgc, shc = snap(gc), snap(hc)
        for p, (_, f), s0 in zip(variants, fields, snaps):
            tag = {"vdims": s0["vdims"], "vdim_mapping": list(f.vdim_mapping.items()), "via": p.get("via", "ctor")}
            exp, idx, comps = expected_field(s0, dims, a, b, k, R)
            # copying form
            r, g = raises(Exception, lambda: f.rotate90(**kw))
            if not ag.req(not r, "C12.accept", "Field.rotate90 (copy) raised for a field with both components mapped", sig=asig(g) or ksig or "accept-depends-on-writing-of-mapping", k=k, a=a, b=b, error=errtxt(g), **tag):
                continue
            ag.req(not diff(snap(f), s0), "C12.inplace_eq_copy", "the copying form modified the receiver", sig="copy-modifies-receiver", k=k, changed=diff(snap(f), s0), **tag)
            sg = snap(g)
            why, vsig = oracle_mismatch(sg, exp, s0, comps, sc)
            ag.req(why is None, "C12.point_map", "g(R+Q(p-R)) != Q f(p) (copy form): %s" % why, sig=vsig or ksig or point_sig(pr), k=k, a=a, b=b, R=R, comps=list(comps),
                   f_first_cell=s0["array"][(0,) * len(dims)], g_image_cell=sg["array"][tuple(int(i[(0,) * len(dims)]) for i in idx)] if sg["array"].shape == exp["array"].shape else None,
                   want=exp["array"][tuple(int(i[(0,) * len(dims)]) for i in idx)], **tag)
            same = np.array_equal(sg["array"], sgc["array"]) and np.array_equal(sg["valid"], sgc["valid"]) and not diff(sg["mesh"], sgc["mesh"]) \
                and sg["vdims"] == s0["vdims"] and sg["vmap"] == s0["vmap"] and sg["unit"] == sgc["unit"]
            ag.req(same, "C12.mapping_presentation", "the copy-form result depends on how the mapping is written (differs from the result for the canonical writing)", k=k, a=a, b=b,
                   array_same=np.array_equal(sg["array"], sgc["array"]), valid_same=np.array_equal(sg["valid"], sgc["valid"]), mesh_diff=diff(sg["mesh"], sgc["mesh"]), got_vmap=sg["vmap"], **tag)
            # in-place form on a private copy
            h = make(p)
            ri, ret = raises(Exception, lambda: h.rotate90(inplace=True, **kw))
            if not ag.req(not ri, "C12.inplace_eq_copy", "in-place rotation raised where the copying form succeeds", sig="inplace-raises-field", k=k, error=errtxt(ret), **tag):
                continue
            ag.req(ret is h, "C12.inplace_eq_copy", "in-place rotation does not return the object itself", sig="inplace-returns-other-field", k=k)
            sh = snap(h)
            why, vsig = oracle_mismatch(sh, exp, s0, comps, sc)
            ag.req(why is None, "C12.point_map", "g(R+Q(p-R)) != Q f(p) (in-place form): %s" % why, sig=vsig or ksig or point_sig(pr), k=k, a=a, b=b, R=R, comps=list(comps), **tag)
            d = diff(sh, sg, sc, "rel")
            ag.req(not d, "C12.inplace_eq_copy", "state after the in-place form differs from the copy form's result (field)", k=k, a=a, b=b, differs=d, **tag)
            same = np.array_equal(sh["array"], shc["array"]) and np.array_equal(sh["valid"], shc["valid"]) and not diff(sh["mesh"], shc["mesh"]) \
                and sh["vdims"] == s0["vdims"] and sh["vmap"] == s0["vmap"] and sh["unit"] == shc["unit"]
            ag.req(same, "C12.mapping_presentation", "the in-place result depends on how the mapping is written (differs from the result for the canonical writing)", k=k, a=a, b=b,
                   array_same=np.array_equal(sh["array"], shc["array"]), valid_same=np.array_equal(sh["valid"], shc["valid"]), mesh_diff=diff(sh["mesh"], shc["mesh"]), got_vmap=sh["vmap"], **tag)
