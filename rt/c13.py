"""C13 bounded run-time tier: geometric invariants and in-place == copy after any transformation sequence.

Seeded random histories of translate / scale / rotate90 calls (mixed in-place and copying, negative and per-axis scale factors,
far reference points, interleaved degenerate / malformed steps) on regions, meshes with subregions and fields.  After every step the
real object is compared with an own affine oracle computed from its state before the step, the class invariants are evaluated, both
forms are compared with each other and the receiver of the copying form is compared with its snapshot.
Aliasing cases: several meshes / fields are made from ONE set of caller objects (the same Region object under two subregion names, a subregion that is the
object passed as region=, one dict or the same Region objects given to two meshes, a mesh's live `subregions` dict handed to another mesh through the
constructor or the setter, corners that are the same ndarray objects, dims / units / tolerance of the handed objects equal to or different from the mesh's,
further meshes spawned from a holder in the middle of a history).  Every step must realise its map exactly once on every region / subregion of the receiver,
and nothing but the receiver may change: the other holders, the caller's own objects, earlier receivers of copying steps, the argument containers.
Bounded: histories of <= 8 (quick) / <= 20 (thorough) steps, 1-4 dimensions, <= 5 cells per axis (aliasing: <= 6 / 12 steps, <= 4 holders, <= 8 cells per axis)."""
import copy
import numpy as np
import discretisedfield as df
from .common import raises, ulp_close

PROPERTY = "C13"
CLAUSES = {
    "C13.invariants": "after every step: region and subregions have pmin<pmax in all directions, len(dims)==len(units)==ndim, unique dims; mesh n positive integers, "
                      "cell>0 and cell*n == edges (16 ulp); field array shape (*n, nvdim), validity Boolean of shape n",
    "C13.translate": "translation adds the vector to every corner (region, subregions; 64 ulp of |x|+|v|), keeps n, units, dims, values and validity",
    "C13.scale": "scaling maps every corner x to R+s*(x-R) (R default = centre of the object's region; corners re-ordered for s<0; 64 ulp of |R|+|s|(|x|+|R|)), keeps n, units, dims",
    "C13.rotate": "rotation as in C12: corners R+Q(x-R) (64 ulp), n and units of the two axes swap for odd k, subregions follow, field values/validity permuted and mapped components turned by Q",
    "C13.inplace_returns_self": "the in-place form returns the object itself",
    "C13.inplace_eq_copy": "the in-place form leaves the object equal to what the copying form returns (coordinates to 64 ulp of the step scale, everything else exact)",
    "C13.copy_pure": "the copying form returns a new object and leaves the receiver untouched (exact snapshot comparison)",
    "C13.frame": "a call changes nothing but its receiver (in-place form) / nothing at all (copying form, rejected call, construction of a mesh from existing objects): "
                 "the Region objects, subregion dicts and arrays the caller handed to constructors / setters, every other mesh / field built from the same objects, "
                 "earlier receivers of copying steps and the argument containers keep their exact state",
    "C13.accept": "a well-formed step with non-zero factors is carried out in both forms",
    "C13.reject": "a step that would produce a degenerate region (zero factor) or has malformed arguments is rejected (ValueError/TypeError; RuntimeError for the "
                  "unmapped vector rotation) in both forms and the object is not modified",
}
RULE = ("seeded histories on regions (1-4 d), meshes with 0-3 subregions (1-4 d, scales 1e-9 / 1 / 10^U(-12,6) without subregions) and fields (2-3 d, scalar and mapped vector); "
        "every step drawn from translate / scale (scalar or per-axis, either sign, |s| in 10^U(-1.5,1.5)) / rotate90 (k in -5..5), reference default / near / 1e3 sizes away, "
        "in place with probability 1/2, argument containers tuple / list / ndarray; one in four steps is preceded by a degenerate or malformed request; "
        "aliasing cases: pattern (10: same object under two names / subregion is the region= object / both / one dict for two meshes / same Region objects in two dicts / "
        "another mesh's live subregions dict through constructor / through setter / shared corner ndarrays / field over an aliased mesh / mesh spawned mid-history) x "
        "attributes of the handed Region objects (default / custom equal to the mesh's / different) x first in-place operation, tolerance_factor default / equal / different, "
        "1-3 d (thorough 1-4 d), 1-2 initial holders (region= the same object or an equal one, same or twice finer lattice) + spawned ones, dyadic coordinates "
        "(unit 1 as Python ints or floats, 1/4, 2^-30) so that translations and scalings (factors +-1/4 .. +-4, 3, 1) are exact, steps addressed to any holder, "
        "in place with probability 0.65, identity steps (zero vector, factor 1, k = 0, +-4) included; "
        "non-trivial = history with at least two well-formed steps; distinct by (kind, params)")
ASSUMPTIONS = [
    "bounded: histories of at most 8 (quick) / 20 (thorough) well-formed steps, 1-4 dimensions, <= 5 cells per axis",
    "Field has no translate/scale of its own: these steps are applied to field.mesh in place (the only public route); field.mesh.rotate90(inplace=True) is NOT part of the histories "
    "(it desynchronises array and mesh by construction: representation exposure, reported separately)",
    "non-finite factors (nan/inf) are not generated",
    "after a step whose in-place form violates a clause the history continues from the copying form's result, so that later steps are still explored",
    "the library keeps the object passed as region= by reference (mesh.region is that object; design decision, representation exposure reported as an observation): "
    "C13.frame therefore lets that very object, and the region of every other mesh the CALLER built with the same object, move along with an in-place step; such a "
    "co-holder (its region moved, its subregions rightly not) is only watched from then on and receives no further steps. Objects made by the library itself "
    "(results of copying steps) have no such licence",
    "aliasing cases use exactly representable coordinates and bounded magnitudes (|x| <= 256 units, edges >= 1/16 unit) so that the constructor's re-validation of "
    "subregions in the copying form is not disturbed by the absolute 1e-12 tolerance of is_aligned (known finding of C14); a mesh spawned from a holder whose "
    "constructor refuses the (rounded) subregions ends the history without a verdict",
]

DIMS = ["u", "w", "q", "t"]
UNITS = ["nm", "s", "T", "kg"]
VD = ["va", "vb", "vc", "vd"]
QS = {0: ((1, 0), (0, 1)), 1: ((0, -1), (1, 0)), 2: ((-1, 0), (0, -1)), 3: ((0, 1), (-1, 0))}
ULPS = 64
REJECT = (ValueError, TypeError)


class Agg:
    def __init__(self, ctx):
        self.ctx, self.ok, self.bad = ctx, {}, {}

    def req(self, cond, clause, what="", sig=None, **detail):
        try:
            cond = bool(cond)
        except Exception:
            cond = False
        if cond:
            self.ok[clause] = self.ok.get(clause, 0) + 1
        else:
            key = (clause, sig)
            if key in self.bad:
                self.bad[key][2] += 1
            else:
                self.bad[key] = [what, detail, 1]
        return cond

    def flush(self):
        badc = {k[0] for k in self.bad}
        for clause in self.ok:
            if clause not in badc:
                self.ctx.require(True, clause)
        for (clause, sig), (what, detail, cnt) in self.bad.items():
            self.ctx.require(False, clause, what, sig=sig, failures_in_case=cnt, **detail)


# ------------------------------------------------------------------------------------------ objects and snapshots
def build(pr, world=None):
    p1, p2 = pr["p1"], pr["p2"]
    nd = len(p1)
    dims = tuple(pr.get("dims") or DIMS[:nd])
    units = tuple(pr.get("units") or UNITS[:nd])
    region = df.Region(p1=tuple(p1), p2=tuple(p2), dims=dims, units=units)
    if pr["obj"] == "region":
        return region
    n = np.array(pr["n"], int)
    pmin, pmax = np.minimum(p1, p2).astype(float), np.maximum(p1, p2).astype(float)
    cell = (pmax - pmin) / n
    subs = {"r%d" % i: df.Region(p1=tuple(pmin + np.array(lo) * cell), p2=tuple(pmin + np.array(hi) * cell)) for i, (lo, hi) in enumerate(pr.get("subs") or [])}
    if world is not None:
        world.give("region= object", region)
        for k, v in subs.items():
            world.give("subregion object " + k, v)
        world.give_dict("subregions dict", subs)
    mesh = df.Mesh(region=region, n=tuple(int(k) for k in n), subregions=subs)
    if world is not None:
        world.license(region, mesh)
    if pr["obj"] == "mesh":
        return mesh
    return make_field(mesh, pr, dims, world)


def make_field(mesh, pr, dims, world=None):
    n = np.array(mesh.n, int)
    nvdim = int(pr["nvdim"])
    lin = np.arange(int(np.prod(n))).reshape(tuple(n))
    array = (1.0 + nvdim * lin[..., None] + np.arange(nvdim)) * np.where(np.arange(nvdim) % 2, -1.0, 1.0)
    valid = np.random.default_rng(pr.get("vseed", 0)).random(tuple(n)) < 0.6
    kw = {}
    if nvdim > 1:
        kw["vdims"] = VD[:nvdim]
        kw["vdim_mapping"] = {VD[c]: (dims[j] if j is not None else None) for c, j in enumerate(pr["vmap"])}
    if world is not None:
        world.give("value array", array)
        world.give("valid array", valid)
    return df.Field(mesh, nvdim=nvdim, value=array, valid=valid, unit="A/m", **kw)


def alias_attrs(pr, which):
    """constructor keywords of the mesh region ("region") / of the Region objects handed over as subregions ("pool")"""
    nd, kw = pr["nd"], {}
    if pr["attrs"] == "custom" or (pr["attrs"] == "mismatch" and which == "region"):
        kw.update(dims=tuple(DIMS[:nd]), units=tuple(UNITS[:nd]))
    if pr["tol"] == "equal" or (pr["tol"] == "differ" and which == "region"):
        kw["tolerance_factor"] = 1e-10
    return kw


def build_alias(pr):
    """several meshes / fields made from ONE set of caller objects: a Region R, a pool of Region objects on R's cell lattice, subregion dicts.
    All coordinates are integers times a power of two, so that every translation / scaling of the history is exact in doubles."""
    w = World()
    nd, n0 = pr["nd"], [int(k) for k in pr["n"]]
    org, cm, unit = np.array(pr["origin"], int), np.array(pr["cellm"], int), float(pr["unit"])
    cache = {}

    def corner(idx):
        v = org + np.array(idx, int) * cm
        c = tuple(int(x) for x in v) if pr["ints"] else tuple(float(x) * unit for x in v)
        if not pr["arrays"]:
            return c
        if c not in cache:                      # one ndarray object per distinct corner, shared by all Region constructors
            cache[c] = np.array(c)
        return cache[c]

    def box(lo, hi, **kw):
        p1 = [hi[j] if pr["flip"][j] else lo[j] for j in range(nd)]
        p2 = [lo[j] if pr["flip"][j] else hi[j] for j in range(nd)]
        return df.Region(p1=corner(p1), p2=corner(p2), **kw)

    R = box([0] * nd, n0, **alias_attrs(pr, "region"))
    pool = [box(lo, hi, **alias_attrs(pr, "pool")) for lo, hi in pr["pool"]]
    w.give("caller's Region R", R)
    for i, r in enumerate(pool):
        w.give("caller's Region pool[%d]" % i, r)
    for a in cache.values():
        w.give("caller's corner array", a)
    dicts = {}
    for k, hs in enumerate(pr["holders"]):
        reg = R
        if hs["region"] != "R":
            reg = box([0] * nd, n0, **alias_attrs(pr, "region"))
            w.give("region= object of holder %d" % k, reg)
        if hs.get("adopt") is not None:
            d = mesh_of(w.holders[hs["adopt"]]).subregions          # the live dict of another mesh
        else:
            if hs["dict"] not in dicts:
                dicts[hs["dict"]] = {name: (R if ref == "R" else pool[ref]) for name, ref in hs["subs"]}
                w.give_dict("caller's subregions dict %d" % hs["dict"], dicts[hs["dict"]])
            d = dicts[hs["dict"]]
        n = tuple(int(a * b) for a, b in zip(n0, hs["fine"]))
        if hs["via"] == "ctor":
            mesh = df.Mesh(region=reg, n=n, subregions=d)
        else:
            mesh = df.Mesh(region=reg, n=n)
            mesh.subregions = d
        w.license(reg, mesh)
        w.hold(make_field(mesh, hs, mesh.region.dims, w) if hs.get("nvdim") else mesh)
    return w


def snap(obj):
    if isinstance(obj, df.Region):
        return {"pmin": np.array(obj.pmin, float), "pmax": np.array(obj.pmax, float), "dims": tuple(obj.dims), "units": tuple(obj.units)}
    if isinstance(obj, df.Mesh):
        return {"region": snap(obj.region), "n": np.array(obj.n).copy(), "subs": [(k, snap(v)) for k, v in obj.subregions.items()]}
    return {"mesh": snap(obj.mesh), "array": obj.array.copy(), "valid": np.array(obj.valid).copy(), "vdims": None if obj.vdims is None else list(obj.vdims),
            "vmap": dict(obj.vdim_mapping), "unit": obj.unit, "nvdim": obj.nvdim}


def diff(a, b, scale=None, vscale=None):
    """names of the state items in which two snapshots differ; coordinates to ULPS of `scale` (None: exact)"""
    out = []
    if "pmin" in a:
        for key in ("pmin", "pmax"):
            same = a[key].shape == b[key].shape and (np.array_equal(a[key], b[key]) if scale is None else ulp_close(a[key], b[key], ULPS, scale))
            if not same:
                out.append(key)
        for key in ("dims", "units"):
            if a[key] != b[key]:
                out.append(key)
    elif "region" in a:
        out += diff(a["region"], b["region"], scale)
        if not np.array_equal(a["n"], b["n"]):
            out.append("n")
        if [k for k, _ in a["subs"]] != [k for k, _ in b["subs"]]:
            out.append("sub.names")
        else:
            for (k, x), (_, y) in zip(a["subs"], b["subs"]):
                out += ["sub." + d for d in diff(x, y, scale)]
    else:
        out += diff(a["mesh"], b["mesh"], scale)
        if a["array"].shape != b["array"].shape or not (np.array_equal(a["array"], b["array"]) if vscale is None else ulp_close(a["array"], b["array"], ULPS, vscale)):
            out.append("array")
        if a["valid"].shape != b["valid"].shape or a["valid"].dtype != b["valid"].dtype or not np.array_equal(a["valid"], b["valid"]):
            out.append("valid")
        for key in ("vdims", "vmap", "unit", "nvdim"):
            if a[key] != b[key]:
                out.append(key)
    return sorted(set(out))


def top_region(s):
    return s if "pmin" in s else (s["region"] if "region" in s else s["mesh"]["region"])


def invariants(obj):
    """list of broken invariants of the statement (empty = all hold)"""
    bad = []
    regs = []
    mesh = None
    if isinstance(obj, df.Region):
        regs = [("region", obj)]
    else:
        mesh = obj if isinstance(obj, df.Mesh) else obj.mesh
        regs = [("region", mesh.region)] + [("sub:" + k, v) for k, v in mesh.subregions.items()]
    for name, r in regs:
        pmin, pmax = np.asarray(r.pmin), np.asarray(r.pmax)
        if not (pmin.shape == pmax.shape and pmin.ndim == 1 and np.all(pmin < pmax)):
            bad.append(name + ": not pmin<pmax")
        nd = len(pmin)
        if not (len(r.dims) == nd and len(r.units) == nd and len(set(r.dims)) == nd and all(isinstance(x, str) for x in tuple(r.dims) + tuple(r.units))):
            bad.append(name + ": dims/units not unique, equally long strings")
    if mesh is not None:
        n = np.asarray(mesh.n)
        if not (n.shape == (mesh.region.ndim,) and np.issubdtype(n.dtype, np.integer) and np.all(n > 0)):
            bad.append("n not positive integers")
        else:
            edges = np.asarray(mesh.region.pmax, float) - np.asarray(mesh.region.pmin, float)
            r, cell = raises(Exception, lambda: np.asarray(mesh.cell, float))
            sc = np.maximum(np.abs(mesh.region.pmin), np.abs(mesh.region.pmax)).astype(float)
            if r or not (np.all(cell > 0) and ulp_close(cell * n, edges, 16, sc)):
                bad.append("cell*n != edges or cell<=0")
    if isinstance(obj, df.Field):
        if obj.array.shape != (*mesh.n, obj.nvdim):
            bad.append("array shape %r != (*n, nvdim) %r" % (obj.array.shape, (*mesh.n.tolist(), obj.nvdim)))
        v = np.asarray(obj.valid)
        if v.dtype != bool or v.shape != tuple(mesh.n):
            bad.append("validity not Boolean of shape n")
    return bad


# ------------------------------------------------------------------------------------------ the world around the receiver of a step
def region_of(o):
    return o if isinstance(o, df.Region) else (o.region if isinstance(o, df.Mesh) else o.mesh.region)


def mesh_of(o):
    return o.mesh if isinstance(o, df.Field) else o


def wsnap(x):
    return x.copy() if isinstance(x, np.ndarray) else snap(x)


def same_container(c, c0):
    if isinstance(c, np.ndarray):
        return c.dtype == c0.dtype and c.shape == c0.shape and bool(np.all(c == c0))
    return type(c) is type(c0) and len(c) == len(c0) and all(type(a) is type(b) and a == b for a, b in zip(c, c0))


class World:
    """Everything that exists besides the receiver of a call: the other holders (meshes / fields addressed by the steps), the objects the caller handed to
    constructors and setters (Region objects, subregion dicts, value arrays), earlier receivers of copying steps, the argument containers of the call.
    `changed` lists those whose state differs (exactly) from the last `freeze`.  The one exception: the Region object passed as region= is kept by reference
    by the library (documented design, see ASSUMPTIONS); when the CALLER built the moved mesh with region=r, then r itself and the region of every other mesh
    the caller built with the same r may move along (`license`).  Objects made by the library (results of copying steps) never have that licence."""

    def __init__(self):
        self.holders, self.given, self.dicts, self.old, self.args, self.frozen, self.sharers = [], [], [], [], [], {}, {}

    def license(self, region, mesh):
        self.sharers.setdefault(id(region), set()).add(id(mesh))

    def give(self, label, x):
        self.given.append((label, x))
        self.frozen[id(x)] = wsnap(x)

    def give_dict(self, label, d):
        self.dicts.append((label, d, list(d.items())))

    def hold(self, o):
        self.holders.append(o)
        self.frozen[id(o)] = wsnap(o)

    def retire(self, label, o):
        self.old.append((label, o))
        self.frozen[id(o)] = wsnap(o)

    def things(self):
        for j, o in enumerate(self.holders):
            yield "holder %d (%s)" % (j, type(o).__name__), o
        yield from self.given
        yield from self.old

    def freeze(self):
        self.frozen = {id(x): wsnap(x) for _, x in self.things()}
        self.args = []

    def changed(self, moved=None, skip=None):
        out = []
        mreg, licensed = None, ()
        if moved is not None and not isinstance(self.holders[moved], df.Region):
            mreg = region_of(self.holders[moved])
            licensed = self.sharers.get(id(mreg), ())
            if id(mesh_of(self.holders[moved])) not in licensed:
                licensed = ()
        for label, x in self.things():
            if (moved is not None and x is self.holders[moved]) or (skip is not None and x is self.holders[skip]) or id(x) not in self.frozen or (x is mreg and licensed):
                continue
            if isinstance(x, np.ndarray):
                d = [] if (x.shape == self.frozen[id(x)].shape and np.array_equal(x, self.frozen[id(x)])) else ["content"]
            else:
                d = diff(wsnap(x), self.frozen[id(x)])
                if not isinstance(x, df.Region) and region_of(x) is mreg and id(mesh_of(x)) in licensed:
                    d = [k for k in d if k not in ("pmin", "pmax", "units")]
            if d:
                out.append("%s: %s" % (label, ",".join(d)))
        for label, d, items in self.dicts:
            now = list(d.items())
            if len(now) != len(items) or any(k != k0 or v is not v0 for (k, v), (k0, v0) in zip(now, items)):
                out.append(label + ": entries")
        for c, c0 in self.args:
            if not same_container(c, c0):
                out.append("argument %s" % type(c).__name__)
        return out


# ------------------------------------------------------------------------------------------ oracle
def rot_point(p, R, a, b, Q):
    out = np.array(p, float).copy()
    da, db = p[a] - R[a], p[b] - R[b]
    out[a] = R[a] + Q[0][0] * da + Q[0][1] * db
    out[b] = R[b] + Q[1][0] * da + Q[1][1] * db
    return out


def map_box(lo, hi, step, R):
    op = step["op"]
    if op == "translate":
        v = np.array(step["vector"], float).reshape(-1)
        return lo + v, hi + v
    if op == "scale":
        s = np.array(step["factor"], float)
        c1, c2 = R + s * (lo - R), R + s * (hi - R)
        return np.minimum(c1, c2), np.maximum(c1, c2)
    Q = QS[step["k"] % 4]
    c1, c2 = rot_point(lo, R, step["a"], step["b"], Q), rot_point(hi, R, step["a"], step["b"], Q)
    return np.minimum(c1, c2), np.maximum(c1, c2)


def step_scale(lo, hi, step, R):
    """per-axis operand scale of the step (for the ulp budget)"""
    m = np.maximum(np.abs(lo), np.abs(hi))
    op = step["op"]
    if op == "translate":
        return m + np.abs(np.array(step["vector"], float).reshape(-1))
    if op == "scale":
        return np.abs(R) + np.maximum(np.abs(np.array(step["factor"], float)), 1.0) * (m + np.abs(R))
    a, b = step["a"], step["b"]
    out = m.copy()
    out[a] = out[b] = max(m[a], m[b], abs(R[a]), abs(R[b]))
    return out


def rot_indices(n, a, b, k):
    idx = list(np.indices(tuple(n)))
    nn = [int(x) for x in n]
    for _ in range(k % 4):
        ia, ib = idx[a], idx[b]
        idx[a], idx[b] = nn[b] - 1 - ib, ia
        nn[a], nn[b] = nn[b], nn[a]
    return nn, idx


def expected(pre, step):
    """own oracle: snapshot expected after a well-formed step, and the per-axis coordinate scale"""
    r0 = top_region(pre)
    lo0, hi0 = r0["pmin"], r0["pmax"]
    R = 0.5 * (lo0 + hi0) if step.get("ref") is None else np.array(step["ref"], float).reshape(-1)
    sc = step_scale(lo0, hi0, step, R)
    odd = step["op"] == "rotate90" and step["k"] % 2 == 1

    def reg(r):
        lo, hi = map_box(r["pmin"], r["pmax"], step, R)
        units = list(r["units"])
        if odd:
            units[step["a"]], units[step["b"]] = units[step["b"]], units[step["a"]]
        return {"pmin": lo, "pmax": hi, "dims": r["dims"], "units": tuple(units)}

    if "pmin" in pre:
        return reg(pre), sc

    def mesh(m):
        n = m["n"].copy()
        if odd:
            n[step["a"]], n[step["b"]] = n[step["b"]], n[step["a"]]
        return {"region": reg(m["region"]), "n": n, "subs": [(k, reg(v)) for k, v in m["subs"]]}

    if "region" in pre:
        return mesh(pre), sc
    out = dict(pre)
    out["mesh"] = mesh(pre["mesh"])
    if step["op"] == "rotate90":
        a, b, k = step["a"], step["b"], step["k"]
        Q = QS[k % 4]
        nn, idx = rot_indices(pre["mesh"]["n"], a, b, k)
        val = pre["array"].copy()
        if pre["nvdim"] > 1:
            dims = r0["dims"]
            comp = {d: pre["vdims"].index(v) for v, d in pre["vmap"].items() if d is not None}
            ca, cb = comp[dims[a]], comp[dims[b]]
            val[..., ca] = Q[0][0] * pre["array"][..., ca] + Q[0][1] * pre["array"][..., cb]
            val[..., cb] = Q[1][0] * pre["array"][..., ca] + Q[1][1] * pre["array"][..., cb]
        arr = np.full((*nn, pre["nvdim"]), np.nan)
        arr[tuple(idx)] = val
        vld = np.zeros(tuple(nn), bool)
        vld[tuple(idx)] = pre["valid"]
        out["array"], out["valid"] = arr, vld
    return out, sc


# ------------------------------------------------------------------------------------------ applying steps
def container(x, form):
    if x is None or isinstance(x, (str, int, float)):
        return x
    return {"tuple": tuple, "list": list, "array": np.array}[form](x)


def apply(obj, step, inplace, dims, keep=None):
    """call the real method for a (well-formed or malformed) step"""
    form = step.get("form", "tuple")
    op = step["op"]
    target = obj
    if isinstance(obj, df.Field) and op in ("translate", "scale"):
        target = obj.mesh

    def cont(x):
        c = container(x, form)
        if keep is not None and isinstance(c, (list, np.ndarray)):
            keep.append((c, copy.deepcopy(c)))
        return c

    if op == "translate":
        return target.translate(cont(step["vector"]), inplace=inplace)
    if op == "scale":
        kw = {}
        if step.get("ref") is not None:
            kw["reference_point"] = cont(step["ref"])
        return target.scale(cont(step["factor"]), inplace=inplace, **kw)
    kw = {}
    if step.get("ref") is not None:
        kw["reference_point"] = cont(step["ref"])
    ax1 = dims[step["a"]] if isinstance(step["a"], int) else step["a"]
    ax2 = dims[step["b"]] if isinstance(step["b"], int) else step["b"]
    return target.rotate90(ax1, ax2, k=step["k"], inplace=inplace, **kw)


# ------------------------------------------------------------------------------------------ cases
def rand_step(rng, nd, size, centre, can_rotate, vec_ok_pairs=None):
    ops = ["translate", "scale"] + (["rotate90", "rotate90"] if can_rotate else [])
    op = str(rng.choice(ops))
    form = str(rng.choice(["tuple", "list", "array"]))
    far = float(rng.choice([1.0, 1.0, 1e3]))
    ref = None if rng.random() < 0.4 else (centre + rng.uniform(-1, 1, nd) * size * far).tolist()
    st = {"op": op, "inplace": bool(rng.integers(0, 2)), "form": form}
    if op == "translate":
        st["vector"] = (rng.uniform(-2, 2, nd) * size * float(rng.choice([1.0, 1e-3, 1e3]))).tolist()
        if nd == 1 and rng.random() < 0.3:
            st["vector"] = st["vector"][0]
    elif op == "scale":
        mag = 10.0 ** rng.uniform(-1.5, 1.5, nd)
        sgn = np.where(rng.random(nd) < 0.35, -1.0, 1.0)
        st["factor"] = (mag * sgn).tolist() if rng.random() < 0.5 else float(mag[0] * sgn[0])
        if rng.random() < 0.15:
            st["factor"] = int(rng.choice([-3, -1, 2, 5]))
        st["ref"] = ref
    else:
        if vec_ok_pairs:
            a, b = vec_ok_pairs[int(rng.integers(len(vec_ok_pairs)))]
        else:
            a, b = (int(x) for x in rng.permutation(nd)[:2])
        st.update(a=a, b=b, k=int(rng.integers(-5, 6)), ref=ref)
    return st


def bad_step(rng, nd, can_rotate, obj, unmapped_pairs=None):
    """a degenerate or malformed request: {"op":..., "why":...}"""
    pool = [
        {"op": "scale", "factor": 0, "why": "zero-factor"},
        {"op": "scale", "factor": 0.0, "ref": [0.0] * nd, "why": "zero-factor"},
        {"op": "scale", "factor": [1.5] * (nd - 1) + [0.0], "why": "zero-factor"} if nd > 1 else {"op": "scale", "factor": [0.0], "why": "zero-factor"},
        {"op": "scale", "factor": [2.0] * (nd + 1), "why": "factor-length"},
        {"op": "scale", "factor": "2", "why": "factor-type"},
        {"op": "scale", "factor": [2.0] * (nd - 1) + ["a"], "form": "list", "why": "factor-element-type"},
        {"op": "scale", "factor": 2.0, "ref": [0.0] * (nd + 1), "why": "reference-length"},
        {"op": "scale", "factor": 2.0, "ref": "centre", "why": "reference-type"},
        {"op": "translate", "vector": [1.0] * (nd + 1), "why": "vector-length"},
        {"op": "translate", "vector": "xyz"[:nd] if nd <= 3 else "abcd", "why": "vector-type"},
        {"op": "translate", "vector": [1.0] * (nd - 1) + ["b"], "form": "list", "why": "vector-element-type"},
        {"op": "translate", "vector": None, "why": "vector-none"},
    ]
    if can_rotate:
        pool += [
            {"op": "rotate90", "a": 0, "b": 0, "k": 1, "why": "same-axis"},
            {"op": "rotate90", "a": 0, "b": "nope", "k": 1, "why": "unknown-axis"},
            {"op": "rotate90", "a": 0, "b": 1, "k": 1.0, "why": "k-not-int"},
            {"op": "rotate90", "a": 1, "b": 0, "k": 1, "ref": [0.0] * (nd + 1), "why": "reference-length"},
            {"op": "rotate90", "a": 0, "b": 1, "k": 2, "ref": 3.0, "why": "reference-type"},
        ] * 2
        if unmapped_pairs:
            a, b = unmapped_pairs[int(rng.integers(len(unmapped_pairs)))]
            pool += [{"op": "rotate90", "a": a, "b": b, "k": int(rng.choice([-1, 1, 2, 3])), "why": "unmapped-vector"}] * 6
    st = dict(pool[int(rng.integers(len(pool)))])
    st["bad"] = True
    return st


def geometry(rng, nd, kind):
    if kind == "nano":
        s, mult = 1e-9, float(rng.choice([1.0, 10.0]))
    elif kind == "unit":
        s, mult = 1.0, float(rng.choice([1.0, 10.0]))
    else:
        s, mult = 10.0 ** rng.uniform(-12, 6), 10.0 ** rng.integers(0, 3)
    off = rng.uniform(-3, 3, size=nd) * s * mult
    e = rng.uniform(0.3, 1.7, size=nd) * s
    flip = rng.integers(0, 2, size=nd).astype(bool)
    return np.where(flip, off + e, off).tolist(), np.where(flip, off, off + e).tolist()


def index_boxes(rng, n, count):
    out = []
    for _ in range(count):
        lo = [int(rng.integers(0, k)) for k in n]
        out.append([lo, [int(rng.integers(l + 1, k + 1)) for l, k in zip(lo, n)]])
    return out


# ---------------------------------------------------------------- aliasing: several holders made from one set of caller objects
ALIAS_PATTERNS = ["twice", "whole", "twice+whole", "dict2", "objs2", "adopt", "adopt-setter", "arrays", "field", "spawn"]
ALIAS_ATTRS = ["default", "custom", "mismatch"]
ALIAS_OPS = ["translate", "scale", "rotate90"]
FACTORS = [2.0, 0.5, -1.0, -2.0, -0.5, 4.0, 0.25, 3.0, 1.0]


def alias_step(rng, pr, lo, hi, op=None):
    """one well-formed step whose translation / scaling is exact for the dyadic coordinates of the aliasing cases; the transformed box stays
    within 256 units with edges >= 1/16 unit (so that the copying form's re-validation of subregions never meets the absolute 1e-12 of is_aligned)"""
    nd, unit = pr["nd"], float(pr["unit"])
    for _ in range(8):
        o = op or str(rng.choice(ALIAS_OPS if nd >= 2 else ALIAS_OPS[:2]))
        st = {"op": o, "form": str(rng.choice(["tuple", "list", "array"]))}
        u = rng.random()
        if u < 0.35:
            ref = None
        elif u < 0.75:
            ref = (lo + rng.integers(-2, 7, nd) * (hi - lo) / 4).tolist()
        else:
            ref = (rng.integers(-64, 65, nd) * unit).tolist()
        if o == "translate":
            mult = float(rng.choice([1.0, 0.5, 16.0]))
            iv = rng.integers(-8, 9, nd) * (0 if rng.random() < 0.1 else 1)
            st["vector"] = [int(x) for x in iv] if (pr["ints"] and mult == 1.0 and rng.random() < 0.5) else (iv * mult * unit).tolist()
            if nd == 1 and rng.random() < 0.3:
                st["vector"] = st["vector"][0]
        elif o == "scale":
            f = [float(x) for x in rng.choice(FACTORS, nd)]
            if rng.random() < 0.3:
                f = [int(x) if float(x).is_integer() else x for x in f]
            st["factor"] = f if rng.random() < 0.5 else f[0]
            st["ref"] = ref
        else:
            a, b = (int(x) for x in rng.permutation(nd)[:2])
            st.update(a=a, b=b, k=int(rng.integers(-5, 6)), ref=ref)
        R = 0.5 * (lo + hi) if st.get("ref") is None else np.array(st["ref"], float)
        nlo, nhi = map_box(lo, hi, st, R)
        if max(np.abs(nlo).max(), np.abs(nhi).max()) <= 256 * unit and (nhi - nlo).min() >= unit / 16:
            return st, nlo, nhi
    return {"op": "translate", "form": "tuple", "vector": [0.0] * nd}, lo.copy(), hi.copy()


def alias_case(rng, i, maxlen, nds):
    pat = ALIAS_PATTERNS[i % len(ALIAS_PATTERNS)]
    first_op = ALIAS_OPS[(i // 30) % 3]
    nd = int(rng.choice(nds))
    if first_op == "rotate90" and nd == 1:
        nd = 2
    unit = float(rng.choice([1.0, 0.25, 2.0 ** -30]))
    n0 = [int(x) for x in rng.integers(1, {1: 5, 2: 5, 3: 4, 4: 3}[nd], nd)]
    pr = {"pattern": pat, "nd": nd, "unit": unit, "ints": bool(unit == 1.0 and rng.random() < 0.5), "n": n0,
          "origin": [int(x) for x in rng.integers(-6, 7, nd)], "cellm": [int(x) for x in rng.integers(1, 4, nd)], "flip": [bool(x) for x in rng.integers(0, 2, nd)],
          "attrs": ALIAS_ATTRS[(i // 10) % 3], "tol": str(rng.choice(["default", "default", "equal", "differ"])), "arrays": bool(pat == "arrays" or rng.random() < 0.2)}
    pr["pool"] = index_boxes(rng, n0, int(rng.integers(1, 4)))
    if rng.random() < 0.3:
        pr["pool"].append([[0] * nd, list(n0)])
    npool = len(pr["pool"])

    def rand_subs(prefix):
        return [[prefix + str(j), ("R" if rng.random() < 0.2 else int(rng.integers(npool)))] for j in range(int(rng.integers(1, 4)))]

    def fine():
        return [int(x) for x in rng.choice([1, 1, 2], nd)]

    h0 = {"region": "R", "fine": [1] * nd, "via": str(rng.choice(["ctor", "ctor", "setter"])), "dict": 0}
    if pat == "twice":
        h0["subs"] = [["a", 0], ["b", 0]] + (rand_subs("s") if rng.random() < 0.5 else [])
    elif pat == "whole":
        h0["subs"] = [["tot", "R"]] + (rand_subs("s") if rng.random() < 0.5 else [])
    elif pat == "twice+whole":
        h0["subs"] = [["tot", "R"], ["a", 0], ["all", "R"], ["b", 0]]
    else:
        h0["subs"] = rand_subs("s")
    holders = [h0]
    second = str(rng.choice(["dict2", "objs2", "adopt", "adopt-setter"])) if (pat in ("twice", "whole", "twice+whole", "arrays", "field") and rng.random() < 0.3) else pat
    if second == "dict2":
        holders.append({"region": str(rng.choice(["R", "eq"])), "fine": fine(), "via": str(rng.choice(["ctor", "setter"])), "dict": 0, "subs": h0["subs"]})
    elif second == "objs2":
        holders.append({"region": str(rng.choice(["R", "eq"])), "fine": fine(), "via": str(rng.choice(["ctor", "setter"])), "dict": 1,
                        "subs": [["t" + str(j), ref] for j, (_, ref) in enumerate(h0["subs"])] + rand_subs("u")})
    elif second in ("adopt", "adopt-setter"):
        holders.append({"region": str(rng.choice(["R", "eq"])), "fine": fine(), "via": "ctor" if second == "adopt" else "setter", "adopt": 0})
    if pat == "field" or rng.random() < 0.2:
        nv = 1 if (nd == 1 or rng.random() < 0.5) else nd
        h0.update(nvdim=nv, vmap=[int(x) for x in rng.permutation(nd)] if nv > 1 else [None], vseed=int(rng.integers(1 << 30)))
    pr["holders"] = holders
    # ------------------------------------------------ steps, with the region box of every holder followed through the history
    org, cm = np.array(pr["origin"], float), np.array(pr["cellm"], float)
    key = ["R" if hs["region"] == "R" else "h%d" % k for k, hs in enumerate(holders)]
    boxes = {k: (org * unit, (org + np.array(n0) * cm) * unit) for k in key}
    stale = [False] * len(holders)       # the region= object of the holder was moved through another holder (kept by reference): the holder is only watched from then on
    isfield = [bool(hs.get("nvdim")) for hs in holders]
    steps, fresh = [], 0
    for t in range(int(rng.integers(2, maxlen + 1))):
        live = [h for h in range(len(key)) if not stale[h]]
        h = 0 if t == 0 else int(rng.choice(live))
        if t > 0 and rng.random() < 0.15:
            st = bad_step(rng, nd, nd >= 2, None)
            st["h"] = h
            steps.append(st)
        if (pat == "spawn" and t == 1) or (t > 0 and len(key) < 4 and rng.random() < 0.12):
            same = bool(rng.random() < 0.4)
            steps.append({"op": "spawn", "from": h, "region": "same" if same else "eq", "via": str(rng.choice(["ctor", "setter"])), "live": bool(rng.random() < 0.6),
                          "fine": [int(x) for x in rng.choice([1, 1, 1, 2], nd)]})
            fresh += 1
            key.append(key[h] if same else "s%d" % fresh)
            boxes[key[-1]] = boxes[key[h]]
            stale.append(False)
            isfield.append(False)
            continue
        lo, hi = boxes[key[h]]
        st, nlo, nhi = alias_step(rng, pr, lo, hi, first_op if t == 0 else None)
        st["h"] = h
        st["inplace"] = True if t == 0 else bool(rng.random() < 0.65)
        if st["inplace"] or (isfield[h] and st["op"] != "rotate90"):
            for j in range(len(key)):
                if j != h and key[j] == key[h]:
                    stale[j] = True
        else:
            fresh += 1
            key[h] = "c%d" % fresh
        boxes[key[h]] = (nlo, nhi)
        steps.append(st)
    pr["steps"] = steps
    return pr


def cases(ctx):
    rng = ctx.rng
    quick = ctx.tier == "quick"
    nhist = {"region": 150, "mesh": 250, "field": 150} if quick else {"region": 2500, "mesh": 4000, "field": 2500}
    maxlen = 8 if quick else 20
    for obj in ("region", "mesh", "field"):
        for h in range(nhist[obj]):
            nd = int(rng.integers(2, 4)) if obj == "field" else int(rng.integers(1, 5))
            gk = ["nano", "unit", "any"][h % 3]
            with_sub = obj != "region" and gk != "any" and h % 4 != 3
            p1, p2 = geometry(rng, nd, gk)
            pr = {"obj": obj, "p1": p1, "p2": p2}
            if obj == "region" and h % 7 == 0:      # integer corners
                pr["p1"] = [int(x) for x in rng.integers(-5, 0, nd)]
                pr["p2"] = [int(x) for x in rng.integers(1, 6, nd)]
            if h % 2:
                pr["dims"] = ["x", "y", "z"][:nd] if nd <= 3 else ["x0", "x1", "x2", "x3"]
            ok_pairs = unm_pairs = None
            if obj != "region":
                nmax = {1: 5, 2: 5, 3: 4, 4: 3}[nd]
                pr["n"] = [int(x) for x in rng.integers(1, nmax + 1, nd)]
                pr["subs"] = index_boxes(rng, pr["n"], int(rng.integers(1, 4))) if with_sub else []
            if obj == "field":
                nv = int(rng.choice([1, 2, 3]))
                pr["nvdim"], pr["vseed"] = nv, int(rng.integers(1 << 30))
                if nv > 1:
                    axes = [int(x) for x in rng.permutation(nd)]
                    m = int(rng.integers(2, min(nv, nd) + 1))
                    comps = [int(x) for x in rng.permutation(nv)]
                    vm = [None] * nv
                    for c, ax in zip(comps[:m], axes[:m]):
                        vm[c] = ax
                    pr["vmap"] = vm
                    mapped = [j for j in vm if j is not None]
                    ok_pairs = [(a, b) for a in mapped for b in mapped if a != b]
                    unm_pairs = [(a, b) for a in range(nd) for b in range(nd) if a != b and not (a in mapped and b in mapped)]
            size = np.abs(np.array(pr["p1"], float) - np.array(pr["p2"], float))
            centre = 0.5 * (np.array(pr["p1"], float) + np.array(pr["p2"], float))
            steps = []
            ln = int(rng.integers(2, maxlen + 1))
            for _ in range(ln):
                if rng.random() < 0.25:
                    steps.append(bad_step(rng, nd, nd >= 2, obj, unm_pairs))
                steps.append(rand_step(rng, nd, size, centre, nd >= 2, ok_pairs))
            pr["steps"] = steps
            yield "history", pr
    # fixed histories for the documented weak spots
    yield "history", {"obj": "region", "p1": [0.0, 0.0, 0.0], "p2": [10.0, 8.0, 6.0], "dims": ["x", "y", "z"], "steps": [
        {"op": "scale", "factor": -2.0, "inplace": True}, {"op": "scale", "factor": 0, "bad": True, "why": "zero-factor"},
        {"op": "rotate90", "a": 0, "b": 1, "k": 1, "inplace": True}, {"op": "translate", "vector": [1.0, 2.0, 3.0], "inplace": True}]}
    yield "history", {"obj": "mesh", "p1": [0.0, 0.0], "p2": [10e-9, 6e-9], "n": [5, 3], "subs": [[[0, 0], [2, 3]], [[2, 1], [5, 2]]], "dims": ["x", "y"], "steps": [
        {"op": "rotate90", "a": 0, "b": 1, "k": 3, "inplace": True}, {"op": "scale", "factor": [-1.0, 2.0], "inplace": False},
        {"op": "scale", "factor": [1.0, -0.5], "inplace": True, "ref": [1e-6, -1e-6]}, {"op": "translate", "vector": [1e-9, 0.0], "inplace": True}]}
    yield "history", {"obj": "field", "p1": [0.0, 0.0, 0.0], "p2": [4.0, 3.0, 2.0], "n": [4, 3, 2], "subs": [], "nvdim": 2, "vmap": [0, None], "vseed": 3, "dims": ["x", "y", "z"], "steps": [
        {"op": "rotate90", "a": 0, "b": 1, "k": 1, "bad": True, "why": "unmapped-vector"}, {"op": "translate", "vector": [1.0, 1.0, 1.0], "inplace": True}]}
    # aliasing between the objects handed to meshes
    for i in range(360 if quick else 5400):
        yield "alias", alias_case(rng, i, 6 if quick else 12, [1, 2, 2, 3, 3] if quick else [1, 2, 2, 3, 3, 4])


# ------------------------------------------------------------------------------------------ check
def check(kind, pr, ctx):
    ag = Agg(ctx)
    if sum(1 for s in pr["steps"] if not s.get("bad") and s["op"] != "spawn") < 2:
        ctx.trivial()
    if kind == "alias":
        run_steps(build_alias(pr), pr["steps"], ag)
    else:
        run_history(pr, ag)
    ag.flush()


def reject_sig(step, form, obj):
    why = step.get("why", "")
    if why == "zero-factor" and form == "inplace":
        return "inplace-scale-zero-factor-accepted"
    return None


def run_history(pr, ag):
    world = World()
    world.hold(build(pr, world))
    run_steps(world, pr["steps"], ag)


def kind_of(o):
    return "region" if isinstance(o, df.Region) else ("mesh" if isinstance(o, df.Mesh) else "field")


def frame(world, ag, label, when, moved=None, skip=None):
    ch = world.changed(moved=moved, skip=skip)
    return ag.req(not ch, "C13.frame", "objects that are not the receiver of the step changed (%s)" % when, changed=ch, **label)


def spawn(world, step, ag, label):
    """a further mesh made from the present state of a holder (its region object or an equal one, its live subregions dict or a copy of it)"""
    src = mesh_of(world.holders[step["from"]])
    world.freeze()
    try:
        r = src.region
        if step["region"] != "same":
            r = df.Region(p1=r.pmin, p2=r.pmax, dims=r.dims, units=r.units, tolerance_factor=r.tolerance_factor)
        d = src.subregions if step["live"] else dict(src.subregions)
        n = tuple(int(a * b) for a, b in zip(src.n, step["fine"]))
        if step["via"] == "ctor":
            new = df.Mesh(region=r, n=n, subregions=d)
        else:
            new = df.Mesh(region=r, n=n)
            new.subregions = d
    except ValueError:
        return False        # the constructor's validation of (rounded) subregions is C14's business; the history ends here
    if r is not src.region:
        world.give("region= object of holder %d" % len(world.holders), r)
    world.license(r, new)
    world.license(r, src)           # the caller hands src's own region object to the new mesh
    iv = invariants(new)
    ag.req(not iv, "C13.invariants", "freshly built object violates the invariants", broken=iv, **label)
    frame(world, ag, label, "a mesh was constructed from the region / subregions of a holder")
    world.hold(new)
    return True


def run_steps(world, steps, ag):
    objs = world.holders
    for o in objs:
        iv = invariants(o)
        ag.req(not iv, "C13.invariants", "freshly built object violates the invariants", broken=iv)
    ch = world.changed()
    ag.req(not ch, "C13.frame", "objects handed to a constructor / setter were modified by it", changed=ch)
    for t, step in enumerate(steps):
        h = step.get("h", 0)
        if step["op"] == "spawn":
            if not spawn(world, step, ag, {"step": t, "op": "spawn", "request": step}):
                return
            continue
        obj = objs[h]
        kindname = kind_of(obj)
        pre = snap(obj)
        dims = top_region(pre)["dims"]
        is_field_mesh_step = kindname == "field" and step["op"] in ("translate", "scale")
        label = {"step": t, "op": step["op"], "object": kindname, "request": {k: v for k, v in step.items() if k not in ("form",)}}
        # ---------------------------------------------------------------- degenerate / malformed request
        if step.get("bad"):
            types = REJECT + ((RuntimeError,) if step.get("why") == "unmapped-vector" else ())
            for form in (("copy", "inplace") if not is_field_mesh_step else ("inplace",)):
                work = obj
                world.freeze()
                try:
                    apply(work, step, form == "inplace", dims, world.args)
                    refused, err = False, None
                except types as e:
                    refused, err = True, e
                except Exception as e:
                    refused, err = False, e
                d = diff(snap(work), pre)
                ag.req(refused, "C13.reject", "degenerate/malformed step accepted or refused with an undocumented exception (%s form)" % form,
                       sig=reject_sig(step, form, kindname) if err is None else None, why=step.get("why"), error=repr(err)[:160], **label)
                sig = None
                if d and step.get("why") == "unmapped-vector" and form == "inplace" and "array" not in d and "valid" not in d:
                    sig = "inplace-refusal-after-mesh-already-rotated"
                elif d and step.get("why") == "zero-factor" and form == "inplace":
                    sig = "inplace-scale-zero-factor-accepted"
                ag.req(not d, "C13.reject", "object modified by a degenerate/malformed step (%s form)" % form, sig=sig, why=step.get("why"), differs=d, **label)
                okf = frame(world, ag, label, "rejected step, %s form" % form, skip=h)
                if d or not okf:
                    return          # the object is corrupted; nothing sensible can follow
            continue
        # ---------------------------------------------------------------- well-formed step
        exp, sc = expected(pre, step)
        clause = {"translate": "C13.translate", "scale": "C13.scale", "rotate90": "C13.rotate"}[step["op"]]
        vs = float(np.abs(pre["array"]).max()) if "array" in pre else None
        cpy = None
        if not is_field_mesh_step:
            world.freeze()
            r, cpy = raises(Exception, lambda: apply(obj, step, False, dims, world.args))
            if r:
                msg = str(cpy)
                # signature only: the subregion validation of the constructor refuses boxes that the (unvalidated) in-place form produces correctly to rounding
                sig = None
                if isinstance(cpy, ValueError) and "Subregion" in msg:
                    tw = twin(obj)
                    r2, _ = raises(Exception, lambda: apply(tw, step, True, dims))
                    if not r2 and set(diff(normalised(snap(tw)), exp, sc, vs)) <= {"units", "sub.units"}:     # (in-place odd turns do not swap units: separate finding)
                        sig = "copy-form-rejects-correctly-transformed-subregions"
                ag.req(False, "C13.accept", "well-formed step refused by the copying form", sig=sig, error=repr(cpy)[:200], **label)
                return
            ag.req(True, "C13.accept")
            d0 = diff(snap(obj), pre)
            ag.req(cpy is not obj and not d0, "C13.copy_pure", "the copying form modified the receiver or returned it", differs=d0, **label)
            okf = frame(world, ag, label, "copying form", skip=h)
            dc = diff(snap(cpy), exp, sc, vs)
            ag.req(not dc, clause, "result of the copying form differs from the documented affine map", differs=dc, got=region_brief(snap(cpy)), want=region_brief(exp), **label)
            iv = invariants(cpy)
            ag.req(not iv, "C13.invariants", "invariants broken after a copying step", broken=iv, **label)
            if dc or iv or d0 or not okf:
                return
        if step["inplace"] or is_field_mesh_step:
            target = obj.mesh if is_field_mesh_step else obj
            world.freeze()
            r, ret = raises(Exception, lambda: apply(obj, step, True, dims, world.args))
            if not ag.req(not r, "C13.accept", "well-formed step refused by the in-place form", error=repr(ret)[:200], **label):
                return
            ag.req(ret is target, "C13.inplace_returns_self", "in-place form does not return the object itself", **label)
            post = snap(obj)
            iv = invariants(obj)
            neg = step["op"] == "scale" and bool(np.any(np.array(step["factor"], float) < 0))
            isig = "inplace-negative-scale-leaves-pmin-gt-pmax" if (iv and neg and any("pmin<pmax" in x for x in iv) and all("pmin<pmax" in x or "cell" in x for x in iv)) else None
            okiv = ag.req(not iv, "C13.invariants", "invariants broken after an in-place step", sig=isig, broken=iv, **label)
            for j, other in enumerate(objs):
                if j != h:
                    ivo = invariants(other)
                    okiv = ag.req(not ivo, "C13.invariants", "invariants of another mesh / field broken after an in-place step", broken=ivo, holder=j, **label) and okiv
            de = diff(post, exp, sc, vs)
            sig = classify(de, step, pre, post, neg)
            oke = ag.req(not de, clause, "state after the in-place form differs from the documented affine map", sig=sig, differs=de, got=region_brief(post), want=region_brief(exp), **label)
            okc = True
            if cpy is not None:
                dd = diff(post, snap(cpy), sc, vs)
                okc = ag.req(not dd, "C13.inplace_eq_copy", "in-place result differs from the copying form's result", sig=classify(dd, step, pre, post, neg), differs=dd, **label)
            okf = frame(world, ag, label, "in-place form", moved=h)
            if not (okiv and oke and okc and okf):
                if cpy is None or len(objs) > 1 or not okf:
                    return
                world.retire("receiver of step %d" % t, obj)
                objs[h] = cpy         # continue the history from the sound state
        else:
            world.retire("receiver of step %d" % t, obj)
            objs[h] = cpy


def twin(obj):
    """independent deep copy of a region / mesh / field (Field itself cannot be deep-copied)"""
    if isinstance(obj, df.Field):
        return df.Field(copy.deepcopy(obj.mesh), nvdim=obj.nvdim, value=obj.array.copy(), valid=np.array(obj.valid).copy(), vdims=obj.vdims, unit=obj.unit,
                        vdim_mapping=dict(obj.vdim_mapping))
    return copy.deepcopy(obj)


def normalised(s):
    """snapshot with every corner pair re-ordered (the in-place negative scaling leaves them reversed)"""
    if "pmin" in s:
        return dict(s, pmin=np.minimum(s["pmin"], s["pmax"]), pmax=np.maximum(s["pmin"], s["pmax"]))
    if "region" in s:
        return dict(s, region=normalised(s["region"]), subs=[(k, normalised(v)) for k, v in s["subs"]])
    return dict(s, mesh=normalised(s["mesh"]))


def classify(d, step, pre, post, neg):
    if not d:
        return None
    if step["op"] == "rotate90" and step["k"] % 2 == 1 and set(d) <= {"units", "sub.units"} and top_region(post)["units"] == top_region(pre)["units"]:
        return "inplace-rotate90-odd-k-units-not-swapped"
    if step["op"] == "scale" and neg and set(d) <= {"pmin", "pmax", "sub.pmin", "sub.pmax"}:
        r = top_region(post)
        if np.any(r["pmin"] > r["pmax"]):
            return "inplace-negative-scale-leaves-pmin-gt-pmax"
    return None


def region_brief(s):
    r = top_region(s)
    out = {"pmin": r["pmin"], "pmax": r["pmax"], "units": r["units"]}
    m = s if "n" in s else s.get("mesh")
    if m is not None:
        out["n"] = m["n"]
        if m["subs"]:
            out["subregions"] = {k: [v["pmin"], v["pmax"]] for k, v in m["subs"]}
    return out
