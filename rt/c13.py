"""C13 bounded run-time tier: geometric invariants and in-place == copy after any transformation sequence.

Seeded random histories of translate / scale / rotate90 calls (mixed in-place and copying, negative and per-axis scale factors,
far reference points, interleaved degenerate / malformed steps) on regions, meshes with subregions and fields.  After every step the
real object is compared with an own affine oracle computed from its state before the step, the class invariants are evaluated, both
forms are compared with each other and the receiver of the copying form is compared with its snapshot.
Bounded: histories of <= 8 (quick) / <= 20 (thorough) steps, 1-4 dimensions, <= 5 cells per axis."""
import copy
import numpy as np
import discretisedfield as df
from .common import raises, ulp_close

PROPERTY = "C13"
CLAUSES = {
    "C13.invariants": "after every step: region and subregions have pmin<pmax in all directions, len(dims)==len(units)==ndim, unique dims; mesh n positive integers, "
                      "cell>0 and cell*n == edges (16 ulp); field array shape (*n, nvdim), validity Boolean of shape n",
    "C13.translate": "translation adds the vector to every corner (region, subregions; 64 ulp of |x|+|v|), keeps n, units, dims, values and validity",
    "C13.scale": "scaling maps every corner x to R+s*(x-R) (R default = centre of the object's region; corners re-ordered for s<0; 64 ulp of |R|+|s|(|x|+|R|)), keeps n, units, dims",
    "C13.rotate": "rotation as in C12: corners R+Q(x-R) (64 ulp), n and units of the two axes swap for odd k, subregions follow, field values/validity permuted and mapped components turned by Q",
    "C13.inplace_returns_self": "the in-place form returns the object itself",
    "C13.inplace_eq_copy": "the in-place form leaves the object equal to what the copying form returns (coordinates to 64 ulp of the step scale, everything else exact)",
    "C13.copy_pure": "the copying form returns a new object and leaves the receiver untouched (exact snapshot comparison)",
    "C13.accept": "a well-formed step with non-zero factors is carried out in both forms",
    "C13.reject": "a step that would produce a degenerate region (zero factor) or has malformed arguments is rejected (ValueError/TypeError; RuntimeError for the "
                  "unmapped vector rotation) in both forms and the object is not modified",
}
RULE = ("seeded histories on regions (1-4 d), meshes with 0-3 subregions (1-4 d, scales 1e-9 / 1 / 10^U(-12,6) without subregions) and fields (2-3 d, scalar and mapped vector); "
        "every step drawn from translate / scale (scalar or per-axis, either sign, |s| in 10^U(-1.5,1.5)) / rotate90 (k in -5..5), reference default / near / 1e3 sizes away, "
        "in place with probability 1/2, argument containers tuple / list / ndarray; one in four steps is preceded by a degenerate or malformed request; "
        "non-trivial = history with at least two well-formed steps; distinct by (kind, params)")
ASSUMPTIONS = [
    "bounded: histories of at most 8 (quick) / 20 (thorough) well-formed steps, 1-4 dimensions, <= 5 cells per axis",
    "Field has no translate/scale of its own: these steps are applied to field.mesh in place (the only public route); field.mesh.rotate90(inplace=True) is NOT part of the histories "
    "(it desynchronises array and mesh by construction: representation exposure, reported separately)",
    "non-finite factors (nan/inf) are not generated",
    "after a step whose in-place form violates a clause the history continues from the copying form's result, so that later steps are still explored",
]

DIMS = ["u", "w", "q", "t"]
UNITS = ["nm", "s", "T", "kg"]
VD = ["va", "vb", "vc", "vd"]
QS = {0: ((1, 0), (0, 1)), 1: ((0, -1), (1, 0)), 2: ((-1, 0), (0, -1)), 3: ((0, 1), (-1, 0))}
ULPS = 64
REJECT = (ValueError, TypeError)


class Agg:
    def __init__(self, ctx):
        self.ctx, self.ok, self.bad = ctx, {}, {}

    def req(self, cond, clause, what="", sig=None, **detail):
        try:
            cond = bool(cond)
        except Exception:
            cond = False
        if cond:
            self.ok[clause] = self.ok.get(clause, 0) + 1
        else:
            key = (clause, sig)
            if key in self.bad:
                self.bad[key][2] += 1
            else:
                self.bad[key] = [what, detail, 1]
        return cond

    def flush(self):
        badc = {k[0] for k in self.bad}
        for clause in self.ok:
            if clause not in badc:
                self.ctx.require(True, clause)
        for (clause, sig), (what, detail, cnt) in self.bad.items():
            self.ctx.require(False, clause, what, sig=sig, failures_in_case=cnt, **detail)


# ------------------------------------------------------------------------------------------ objects and snapshots
def build(pr):
    p1, p2 = pr["p1"], pr["p2"]
    nd = len(p1)
    dims = tuple(pr.get("dims") or DIMS[:nd])
    units = tuple(pr.get("units") or UNITS[:nd])
    region = df.Region(p1=tuple(p1), p2=tuple(p2), dims=dims, units=units)
    if pr["obj"] == "region":
        return region
    n = np.array(pr["n"], int)
    pmin, pmax = np.minimum(p1, p2).astype(float), np.maximum(p1, p2).astype(float)
    cell = (pmax - pmin) / n
    subs = {"r%d" % i: df.Region(p1=tuple(pmin + np.array(lo) * cell), p2=tuple(pmin + np.array(hi) * cell)) for i, (lo, hi) in enumerate(pr.get("subs") or [])}
    mesh = df.Mesh(region=region, n=tuple(int(k) for k in n), subregions=subs)
    if pr["obj"] == "mesh":
        return mesh
    nvdim = int(pr["nvdim"])
    lin = np.arange(int(np.prod(n))).reshape(tuple(n))
    array = (1.0 + nvdim * lin[..., None] + np.arange(nvdim)) * np.where(np.arange(nvdim) % 2, -1.0, 1.0)
    valid = np.random.default_rng(pr.get("vseed", 0)).random(tuple(n)) < 0.6
    kw = {}
    if nvdim > 1:
        kw["vdims"] = VD[:nvdim]
        kw["vdim_mapping"] = {VD[c]: (dims[j] if j is not None else None) for c, j in enumerate(pr["vmap"])}
    return df.Field(mesh, nvdim=nvdim, value=array, valid=valid, unit="A/m", **kw)


def snap(obj):
    if isinstance(obj, df.Region):
        return {"pmin": np.array(obj.pmin, float), "pmax": np.array(obj.pmax, float), "dims": tuple(obj.dims), "units": tuple(obj.units)}
    if isinstance(obj, df.Mesh):
        return {"region": snap(obj.region), "n": np.array(obj.n).copy(), "subs": [(k, snap(v)) for k, v in obj.subregions.items()]}
    return {"mesh": snap(obj.mesh), "array": obj.array.copy(), "valid": np.array(obj.valid).copy(), "vdims": None if obj.vdims is None else list(obj.vdims),
            "vmap": dict(obj.vdim_mapping), "unit": obj.unit, "nvdim": obj.nvdim}


def diff(a, b, scale=None, vscale=None):
    """names of the state items in which two snapshots differ; coordinates to ULPS of `scale` (None: exact)"""
    out = []
    if "pmin" in a:
        for key in ("pmin", "pmax"):
            same = a[key].shape == b[key].shape and (np.array_equal(a[key], b[key]) if scale is None else ulp_close(a[key], b[key], ULPS, scale))
            if not same:
                out.append(key)
        for key in ("dims", "units"):
            if a[key] != b[key]:
                out.append(key)
    elif "region" in a:
        out += diff(a["region"], b["region"], scale)
        if not np.array_equal(a["n"], b["n"]):
            out.append("n")
        if [k for k, _ in a["subs"]] != [k for k, _ in b["subs"]]:
            out.append("sub.names")
        else:
            for (k, x), (_, y) in zip(a["subs"], b["subs"]):
                out += ["sub." + d for d in diff(x, y, scale)]
    else:
        out += diff(a["mesh"], b["mesh"], scale)
        if a["array"].shape != b["array"].shape or not (np.array_equal(a["array"], b["array"]) if vscale is None else ulp_close(a["array"], b["array"], ULPS, vscale)):
            out.append("array")
        if a["valid"].shape != b["valid"].shape or a["valid"].dtype != b["valid"].dtype or not np.array_equal(a["valid"], b["valid"]):
            out.append("valid")
        for key in ("vdims", "vmap", "unit", "nvdim"):
            if a[key] != b[key]:
                out.append(key)
    return sorted(set(out))


def top_region(s):
    return s if "pmin" in s else (s["region"] if "region" in s else s["mesh"]["region"])


def invariants(obj):
    """list of broken invariants of the statement (empty = all hold)"""
    bad = []
    regs = []
    mesh = None
    if isinstance(obj, df.Region):
        regs = [("region", obj)]
    else:
        mesh = obj if isinstance(obj, df.Mesh) else obj.mesh
        regs = [("region", mesh.region)] + [("sub:" + k, v) for k, v in mesh.subregions.items()]
    for name, r in regs:
        pmin, pmax = np.asarray(r.pmin), np.asarray(r.pmax)
        if not (pmin.shape == pmax.shape and pmin.ndim == 1 and np.all(pmin < pmax)):
            bad.append(name + ": not pmin<pmax")
        nd = len(pmin)
        if not (len(r.dims) == nd and len(r.units) == nd and len(set(r.dims)) == nd and all(isinstance(x, str) for x in tuple(r.dims) + tuple(r.units))):
            bad.append(name + ": dims/units not unique, equally long strings")
    if mesh is not None:
        n = np.asarray(mesh.n)
        if not (n.shape == (mesh.region.ndim,) and np.issubdtype(n.dtype, np.integer) and np.all(n > 0)):
            bad.append("n not positive integers")
        else:
            edges = np.asarray(mesh.region.pmax, float) - np.asarray(mesh.region.pmin, float)
            r, cell = raises(Exception, lambda: np.asarray(mesh.cell, float))
            sc = np.maximum(np.abs(mesh.region.pmin), np.abs(mesh.region.pmax)).astype(float)
            if r or not (np.all(cell > 0) and ulp_close(cell * n, edges, 16, sc)):
                bad.append("cell*n != edges or cell<=0")
    if isinstance(obj, df.Field):
        if obj.array.shape != (*mesh.n, obj.nvdim):
            bad.append("array shape %r != (*n, nvdim) %r" % (obj.array.shape, (*mesh.n.tolist(), obj.nvdim)))
        v = np.asarray(obj.valid)
        if v.dtype != bool or v.shape != tuple(mesh.n):
            bad.append("validity not Boolean of shape n")
    return bad


# ------------------------------------------------------------------------------------------ oracle
def rot_point(p, R, a, b, Q):
    out = np.array(p, float).copy()
    da, db = p[a] - R[a], p[b] - R[b]
    out[a] = R[a] + Q[0][0] * da + Q[0][1] * db
    out[b] = R[b] + Q[1][0] * da + Q[1][1] * db
    return out


def map_box(lo, hi, step, R):
    op = step["op"]
    if op == "translate":
        v = np.array(step["vector"], float).reshape(-1)
        return lo + v, hi + v
    if op == "scale":
        s = np.array(step["factor"], float)
        c1, c2 = R + s * (lo - R), R + s * (hi - R)
        return np.minimum(c1, c2), np.maximum(c1, c2)
    Q = QS[step["k"] % 4]
    c1, c2 = rot_point(lo, R, step["a"], step["b"], Q), rot_point(hi, R, step["a"], step["b"], Q)
    return np.minimum(c1, c2), np.maximum(c1, c2)


def step_scale(lo, hi, step, R):
    """per-axis operand scale of the step (for the ulp budget)"""
    m = np.maximum(np.abs(lo), np.abs(hi))
    op = step["op"]
    if op == "translate":
        return m + np.abs(np.array(step["vector"], float).reshape(-1))
    if op == "scale":
        return np.abs(R) + np.maximum(np.abs(np.array(step["factor"], float)), 1.0) * (m + np.abs(R))
    a, b = step["a"], step["b"]
    out = m.copy()
    out[a] = out[b] = max(m[a], m[b], abs(R[a]), abs(R[b]))
    return out


def rot_indices(n, a, b, k):
    idx = list(np.indices(tuple(n)))
    nn = [int(x) for x in n]
    for _ in range(k % 4):
        ia, ib = idx[a], idx[b]
        idx[a], idx[b] = nn[b] - 1 - ib, ia
        nn[a], nn[b] = nn[b], nn[a]
    return nn, idx


def expected(pre, step):
    """own oracle: snapshot expected after a well-formed step, and the per-axis coordinate scale"""
    r0 = top_region(pre)
    lo0, hi0 = r0["pmin"], r0["pmax"]
    R = 0.5 * (lo0 + hi0) if step.get("ref") is None else np.array(step["ref"], float).reshape(-1)
    sc = step_scale(lo0, hi0, step, R)
    odd = step["op"] == "rotate90" and step["k"] % 2 == 1

    def reg(r):
        lo, hi = map_box(r["pmin"], r["pmax"], step, R)
        units = list(r["units"])
        if odd:
            units[step["a"]], units[step["b"]] = units[step["b"]], units[step["a"]]
        return {"pmin": lo, "pmax": hi, "dims": r["dims"], "units": tuple(units)}

    if "pmin" in pre:
        return reg(pre), sc

    def mesh(m):
        n = m["n"].copy()
        if odd:
            n[step["a"]], n[step["b"]] = n[step["b"]], n[step["a"]]
        return {"region": reg(m["region"]), "n": n, "subs": [(k, reg(v)) for k, v in m["subs"]]}

    if "region" in pre:
        return mesh(pre), sc
    out = dict(pre)
    out["mesh"] = mesh(pre["mesh"])
    if step["op"] == "rotate90":
        a, b, k = step["a"], step["b"], step["k"]
        Q = QS[k % 4]
        nn, idx = rot_indices(pre["mesh"]["n"], a, b, k)
        val = pre["array"].copy()
        if pre["nvdim"] > 1:
            dims = r0["dims"]
            comp = {d: pre["vdims"].index(v) for v, d in pre["vmap"].items() if d is not None}
            ca, cb = comp[dims[a]], comp[dims[b]]
            val[..., ca] = Q[0][0] * pre["array"][..., ca] + Q[0][1] * pre["array"][..., cb]
            val[..., cb] = Q[1][0] * pre["array"][..., ca] + Q[1][1] * pre["array"][..., cb]
        arr = np.full((*nn, pre["nvdim"]), np.nan)
        arr[tuple(idx)] = val
        vld = np.zeros(tuple(nn), bool)
        vld[tuple(idx)] = pre["valid"]
        out["array"], out["valid"] = arr, vld
    return out, sc


# ------------------------------------------------------------------------------------------ applying steps
def container(x, form):
    if x is None or isinstance(x, (str, int, float)):
        return x
    return {"tuple": tuple, "list": list, "array": np.array}[form](x)


def apply(obj, step, inplace, dims):
    """call the real method for a (well-formed or malformed) step"""
    form = step.get("form", "tuple")
    op = step["op"]
    target = obj
    if isinstance(obj, df.Field) and op in ("translate", "scale"):
        target = obj.mesh
    if op == "translate":
        return target.translate(container(step["vector"], form), inplace=inplace)
    if op == "scale":
        kw = {}
        if step.get("ref") is not None:
            kw["reference_point"] = container(step["ref"], form)
        return target.scale(container(step["factor"], form), inplace=inplace, **kw)
    kw = {}
    if step.get("ref") is not None:
        kw["reference_point"] = container(step["ref"], form)
    ax1 = dims[step["a"]] if isinstance(step["a"], int) else step["a"]
    ax2 = dims[step["b"]] if isinstance(step["b"], int) else step["b"]
    return target.rotate90(ax1, ax2, k=step["k"], inplace=inplace, **kw)


# ------------------------------------------------------------------------------------------ cases
def rand_step(rng, nd, size, centre, can_rotate, vec_ok_pairs=None):
    ops = ["translate", "scale"] + (["rotate90", "rotate90"] if can_rotate else [])
    op = str(rng.choice(ops))
    form = str(rng.choice(["tuple", "list", "array"]))
    far = float(rng.choice([1.0, 1.0, 1e3]))
    ref = None if rng.random() < 0.4 else (centre + rng.uniform(-1, 1, nd) * size * far).tolist()
    st = {"op": op, "inplace": bool(rng.integers(0, 2)), "form": form}
    if op == "translate":
        st["vector"] = (rng.uniform(-2, 2, nd) * size * float(rng.choice([1.0, 1e-3, 1e3]))).tolist()
        if nd == 1 and rng.random() < 0.3:
            st["vector"] = st["vector"][0]
    elif op == "scale":
        mag = 10.0 ** rng.uniform(-1.5, 1.5, nd)
        sgn = np.where(rng.random(nd) < 0.35, -1.0, 1.0)
        st["factor"] = (mag * sgn).tolist() if rng.random() < 0.5 else float(mag[0] * sgn[0])
        if rng.random() < 0.15:
            st["factor"] = int(rng.choice([-3, -1, 2, 5]))
        st["ref"] = ref
    else:
        if vec_ok_pairs:
            a, b = vec_ok_pairs[int(rng.integers(len(vec_ok_pairs)))]
        else:
            a, b = (int(x) for x in rng.permutation(nd)[:2])
        st.update(a=a, b=b, k=int(rng.integers(-5, 6)), ref=ref)
    return st


def bad_step(rng, nd, can_rotate, obj, unmapped_pairs=None):
    """a degenerate or malformed request: {"op":..., "why":...}"""
    pool = [
        {"op": "scale", "factor": 0, "why": "zero-factor"},
        {"op": "scale", "factor": 0.0, "ref": [0.0] * nd, "why": "zero-factor"},
        {"op": "scale", "factor": [1.5] * (nd - 1) + [0.0], "why": "zero-factor"} if nd > 1 else {"op": "scale", "factor": [0.0], "why": "zero-factor"},
        {"op": "scale", "factor": [2.0] * (nd + 1), "why": "factor-length"},
        {"op": "scale", "factor": "2", "why": "factor-type"},
        {"op": "scale", "factor": [2.0] * (nd - 1) + ["a"], "form": "list", "why": "factor-element-type"},
        {"op": "scale", "factor": 2.0, "ref": [0.0] * (nd + 1), "why": "reference-length"},
        {"op": "scale", "factor": 2.0, "ref": "centre", "why": "reference-type"},
        {"op": "translate", "vector": [1.0] * (nd + 1), "why": "vector-length"},
        {"op": "translate", "vector": "xyz"[:nd] if nd <= 3 else "abcd", "why": "vector-type"},
        {"op": "translate", "vector": [1.0] * (nd - 1) + ["b"], "form": "list", "why": "vector-element-type"},
        {"op": "translate", "vector": None, "why": "vector-none"},
    ]
    if can_rotate:
        pool += [
            {"op": "rotate90", "a": 0, "b": 0, "k": 1, "why": "same-axis"},
            {"op": "rotate90", "a": 0, "b": "nope", "k": 1, "why": "unknown-axis"},
            {"op": "rotate90", "a": 0, "b": 1, "k": 1.0, "why": "k-not-int"},
            {"op": "rotate90", "a": 1, "b": 0, "k": 1, "ref": [0.0] * (nd + 1), "why": "reference-length"},
            {"op": "rotate90", "a": 0, "b": 1, "k": 2, "ref": 3.0, "why": "reference-type"},
        ] * 2
        if unmapped_pairs:
            a, b = unmapped_pairs[int(rng.integers(len(unmapped_pairs)))]
            pool += [{"op": "rotate90", "a": a, "b": b, "k": int(rng.choice([-1, 1, 2, 3])), "why": "unmapped-vector"}] * 6
    st = dict(pool[int(rng.integers(len(pool)))])
    st["bad"] = True
    return st


def geometry(rng, nd, kind):
    if kind == "nano":
        s, mult = 1e-9, float(rng.choice([1.0, 10.0]))
    elif kind == "unit":
        s, mult = 1.0, float(rng.choice([1.0, 10.0]))
    else:
        s, mult = 10.0 ** rng.uniform(-12, 6), 10.0 ** rng.integers(0, 3)
    off = rng.uniform(-3, 3, size=nd) * s * mult
    e = rng.uniform(0.3, 1.7, size=nd) * s
    flip = rng.integers(0, 2, size=nd).astype(bool)
    return np.where(flip, off + e, off).tolist(), np.where(flip, off, off + e).tolist()


def index_boxes(rng, n, count):
    out = []
    for _ in range(count):
        lo = [int(rng.integers(0, k)) for k in n]
        out.append([lo, [int(rng.integers(l + 1, k + 1)) for l, k in zip(lo, n)]])
    return out


def cases(ctx):
    rng = ctx.rng
    quick = ctx.tier == "quick"
    nhist = {"region": 150, "mesh": 250, "field": 150} if quick else {"region": 2500, "mesh": 4000, "field": 2500}
    maxlen = 8 if quick else 20
    for obj in ("region", "mesh", "field"):
        for h in range(nhist[obj]):
            nd = int(rng.integers(2, 4)) if obj == "field" else int(rng.integers(1, 5))
            gk = ["nano", "unit", "any"][h % 3]
            with_sub = obj != "region" and gk != "any" and h % 4 != 3
            p1, p2 = geometry(rng, nd, gk)
            pr = {"obj": obj, "p1": p1, "p2": p2}
            if obj == "region" and h % 7 == 0:      # integer corners
                pr["p1"] = [int(x) for x in rng.integers(-5, 0, nd)]
                pr["p2"] = [int(x) for x in rng.integers(1, 6, nd)]
            if h % 2:
                pr["dims"] = ["x", "y", "z"][:nd] if nd <= 3 else ["x0", "x1", "x2", "x3"]
            ok_pairs = unm_pairs = None
            if obj != "region":
                nmax = {1: 5, 2: 5, 3: 4, 4: 3}[nd]
                pr["n"] = [int(x) for x in rng.integers(1, nmax + 1, nd)]
                pr["subs"] = index_boxes(rng, pr["n"], int(rng.integers(1, 4))) if with_sub else []
            if obj == "field":
                nv = int(rng.choice([1, 2, 3]))
                pr["nvdim"], pr["vseed"] = nv, int(rng.integers(1 << 30))
                if nv > 1:
                    axes = [int(x) for x in rng.permutation(nd)]
                    m = int(rng.integers(2, min(nv, nd) + 1))
                    comps = [int(x) for x in rng.permutation(nv)]
                    vm = [None] * nv
                    for c, ax in zip(comps[:m], axes[:m]):
                        vm[c] = ax
                    pr["vmap"] = vm
                    mapped = [j for j in vm if j is not None]
                    ok_pairs = [(a, b) for a in mapped for b in mapped if a != b]
                    unm_pairs = [(a, b) for a in range(nd) for b in range(nd) if a != b and not (a in mapped and b in mapped)]
            size = np.abs(np.array(pr["p1"], float) - np.array(pr["p2"], float))
            centre = 0.5 * (np.array(pr["p1"], float) + np.array(pr["p2"], float))
            steps = []
            ln = int(rng.integers(2, maxlen + 1))
            for _ in range(ln):
                if rng.random() < 0.25:
                    steps.append(bad_step(rng, nd, nd >= 2, obj, unm_pairs))
                steps.append(rand_step(rng, nd, size, centre, nd >= 2, ok_pairs))
            pr["steps"] = steps
            yield "history", pr
    # fixed histories for the documented weak spots
    yield "history", {"obj": "region", "p1": [0.0, 0.0, 0.0], "p2": [10.0, 8.0, 6.0], "dims": ["x", "y", "z"], "steps": [
        {"op": "scale", "factor": -2.0, "inplace": True}, {"op": "scale", "factor": 0, "bad": True, "why": "zero-factor"},
        {"op": "rotate90", "a": 0, "b": 1, "k": 1, "inplace": True}, {"op": "translate", "vector": [1.0, 2.0, 3.0], "inplace": True}]}
    yield "history", {"obj": "mesh", "p1": [0.0, 0.0], "p2": [10e-9, 6e-9], "n": [5, 3], "subs": [[[0, 0], [2, 3]], [[2, 1], [5, 2]]], "dims": ["x", "y"], "steps": [
        {"op": "rotate90", "a": 0, "b": 1, "k": 3, "inplace": True}, {"op": "scale", "factor": [-1.0, 2.0], "inplace": False},
        {"op": "scale", "factor": [1.0, -0.5], "inplace": True, "ref": [1e-6, -1e-6]}, {"op": "translate", "vector": [1e-9, 0.0], "inplace": True}]}
    yield "history", {"obj": "field", "p1": [0.0, 0.0, 0.0], "p2": [4.0, 3.0, 2.0], "n": [4, 3, 2], "subs": [], "nvdim": 2, "vmap": [0, None], "vseed": 3, "dims": ["x", "y", "z"], "steps": [
        {"op": "rotate90", "a": 0, "b": 1, "k": 1, "bad": True, "why": "unmapped-vector"}, {"op": "translate", "vector": [1.0, 1.0, 1.0], "inplace": True}]}


# ------------------------------------------------------------------------------------------ check
def check(kind, pr, ctx):
    ag = Agg(ctx)
    if sum(1 for s in pr["steps"] if not s.get("bad")) < 2:
        ctx.trivial()
    run_history(pr, ag)
    ag.flush()


def reject_sig(step, form, obj):
    why = step.get("why", "")
    if why == "zero-factor" and form == "inplace":
        return "inplace-scale-zero-factor-accepted"
    return None


def run_history(pr, ag):
    obj = build(pr)
    kindname = pr["obj"]
    ag.req(not invariants(obj), "C13.invariants", "freshly built object violates the invariants", broken=invariants(obj))
    for t, step in enumerate(pr["steps"]):
        pre = snap(obj)
        dims = top_region(pre)["dims"]
        is_field_mesh_step = kindname == "field" and step["op"] in ("translate", "scale")
        label = {"step": t, "op": step["op"], "object": kindname, "request": {k: v for k, v in step.items() if k not in ("form",)}}
        # ---------------------------------------------------------------- degenerate / malformed request
        if step.get("bad"):
            types = REJECT + ((RuntimeError,) if step.get("why") == "unmapped-vector" else ())
            for form in (("copy", "inplace") if not is_field_mesh_step else ("inplace",)):
                work = obj
                try:
                    apply(work, step, form == "inplace", dims)
                    refused, err = False, None
                except types as e:
                    refused, err = True, e
                except Exception as e:
                    refused, err = False, e
                d = diff(snap(work), pre)
                ag.req(refused, "C13.reject", "degenerate/malformed step accepted or refused with an undocumented exception (%s form)" % form,
                       sig=reject_sig(step, form, kindname) if err is None else None, why=step.get("why"), error=repr(err)[:160], **label)
                sig = None
                if d and step.get("why") == "unmapped-vector" and form == "inplace" and "array" not in d and "valid" not in d:
                    sig = "inplace-refusal-after-mesh-already-rotated"
                elif d and step.get("why") == "zero-factor" and form == "inplace":
                    sig = "inplace-scale-zero-factor-accepted"
                ag.req(not d, "C13.reject", "object modified by a degenerate/malformed step (%s form)" % form, sig=sig, why=step.get("why"), differs=d, **label)
                if d:
                    return          # the object is corrupted; nothing sensible can follow
            continue
        # ---------------------------------------------------------------- well-formed step
        exp, sc = expected(pre, step)
        clause = {"translate": "C13.translate", "scale": "C13.scale", "rotate90": "C13.rotate"}[step["op"]]
        vs = float(np.abs(pre["array"]).max()) if "array" in pre else None
        cpy = None
        if not is_field_mesh_step:
            r, cpy = raises(Exception, lambda: apply(obj, step, False, dims))
            if r:
                msg = str(cpy)
                # signature only: the subregion validation of the constructor refuses boxes that the (unvalidated) in-place form produces correctly to rounding
                sig = None
                if isinstance(cpy, ValueError) and "Subregion" in msg:
                    tw = twin(obj)
                    r2, _ = raises(Exception, lambda: apply(tw, step, True, dims))
                    if not r2 and set(diff(normalised(snap(tw)), exp, sc, vs)) <= {"units", "sub.units"}:     # (in-place odd turns do not swap units: separate finding)
                        sig = "copy-form-rejects-correctly-transformed-subregions"
                ag.req(False, "C13.accept", "well-formed step refused by the copying form", sig=sig, error=repr(cpy)[:200], **label)
                return
            ag.req(True, "C13.accept")
            d0 = diff(snap(obj), pre)
            ag.req(cpy is not obj and not d0, "C13.copy_pure", "the copying form modified the receiver or returned it", differs=d0, **label)
            dc = diff(snap(cpy), exp, sc, vs)
            ag.req(not dc, clause, "result of the copying form differs from the documented affine map", differs=dc, got=region_brief(snap(cpy)), want=region_brief(exp), **label)
            iv = invariants(cpy)
            ag.req(not iv, "C13.invariants", "invariants broken after a copying step", broken=iv, **label)
            if dc or iv or d0:
                return
        if step["inplace"] or is_field_mesh_step:
            target = obj.mesh if is_field_mesh_step else obj
            r, ret = raises(Exception, lambda: apply(obj, step, True, dims))
            if not ag.req(not r, "C13.accept", "well-formed step refused by the in-place form", error=repr(ret)[:200], **label):
                return
            ag.req(ret is target, "C13.inplace_returns_self", "in-place form does not return the object itself", **label)
            post = snap(obj)
            iv = invariants(obj)
            neg = step["op"] == "scale" and bool(np.any(np.array(step["factor"], float) < 0))
            isig = "inplace-negative-scale-leaves-pmin-gt-pmax" if (iv and neg and any("pmin<pmax" in x for x in iv) and all("pmin<pmax" in x or "cell" in x for x in iv)) else None
            okiv = ag.req(not iv, "C13.invariants", "invariants broken after an in-place step", sig=isig, broken=iv, **label)
            de = diff(post, exp, sc, vs)
            sig = classify(de, step, pre, post, neg)
            oke = ag.req(not de, clause, "state after the in-place form differs from the documented affine map", sig=sig, differs=de, got=region_brief(post), want=region_brief(exp), **label)
            okc = True
            if cpy is not None:
                dd = diff(post, snap(cpy), sc, vs)
                okc = ag.req(not dd, "C13.inplace_eq_copy", "in-place result differs from the copying form's result", sig=classify(dd, step, pre, post, neg), differs=dd, **label)
            if not (okiv and oke and okc):
                if cpy is None:
                    return
                obj = cpy         # continue the history from the sound state
        else:
            obj = cpy


def twin(obj):
    """independent deep copy of a region / mesh / field (Field itself cannot be deep-copied)"""
    if isinstance(obj, df.Field):
        return df.Field(copy.deepcopy(obj.mesh), nvdim=obj.nvdim, value=obj.array.copy(), valid=np.array(obj.valid).copy(), vdims=obj.vdims, unit=obj.unit,
                        vdim_mapping=dict(obj.vdim_mapping))
    return copy.deepcopy(obj)


def normalised(s):
    """snapshot with every corner pair re-ordered (the in-place negative scaling leaves them reversed)"""
    if "pmin" in s:
        return dict(s, pmin=np.minimum(s["pmin"], s["pmax"]), pmax=np.maximum(s["pmin"], s["pmax"]))
    if "region" in s:
        return dict(s, region=normalised(s["region"]), subs=[(k, normalised(v)) for k, v in s["subs"]])
    return dict(s, mesh=normalised(s["mesh"]))


def classify(d, step, pre, post, neg):
    if not d:
        return None
    if step["op"] == "rotate90" and step["k"] % 2 == 1 and set(d) <= {"units", "sub.units"} and top_region(post)["units"] == top_region(pre)["units"]:
        return "inplace-rotate90-odd-k-units-not-swapped"
    if step["op"] == "scale" and neg and set(d) <= {"pmin", "pmax", "sub.pmin", "sub.pmax"}:
        r = top_region(post)
        if np.any(r["pmin"] > r["pmax"]):
            return "inplace-negative-scale-leaves-pmin-gt-pmax"
    return None


def region_brief(s):
    r = top_region(s)
    out = {"pmin": r["pmin"], "pmax": r["pmax"], "units": r["units"]}
    if "n" in s:
        out["n"] = s["n"]
    if "mesh" in s:
        out["n"] = s["mesh"]["n"]
    return out
