"""C14 bounded run-time tier: subregions always stay inside, aligned with and measured in cells of their mesh.

Meshes of 1-4 dimensions with sets of (overlapping / touching) cell-aligned index boxes as subregions.  The real setter, the
transformations, selections, persistence (JSON side-car, OVF/VTK route, HDF5) and Mesh.is_aligned are compared with an own
description in index space: a stored subregion must map back (own lattice arithmetic, to rounding) to an integer box inside
0..n, and that box must be the expected one (same box after translation / positive scaling, mirrored / rotated box otherwise,
intersection with the selected cells for selections).
Bounded: <= 6 cells per axis, <= 4 subregions, seeded geometry at scales 1e-12 .. 1e6."""
import json
import os
import tempfile
import numpy as np
import discretisedfield as df
from .common import raises, ulp_close

PROPERTY = "C14"
CLAUSES = {
    "C14.accept_aligned": "a set of cell-aligned boxes inside the region (overlapping or touching, given with foreign dims/units) is accepted at construction and by assignment",
    "C14.stored": "stored subregions keep names, order and corners (exact), carry the mesh's dims and units, lie inside the region, consist of whole cells and sit on the lattice "
                  "(own lattice arithmetic: corner offsets are integers of cells to 64 ulp of the coordinate scale)",
    "C14.reject": "a misaligned (shifted by 0.1..0.9 cell), fractional (non-whole number of cells), oversized (sticking out by >= 1 cell) or malformed candidate is rejected "
                  "(ValueError / TypeError) at construction and by assignment",
    "C14.reject_keeps_previous": "after a rejected assignment the previous subregions are kept (same names, same corners, same dims/units)",
    "C14.named_mesh": "mesh['name'] has exactly that subregion as region (==), the parent's cell size (16 ulp of the coordinate scale) and n = size of the index box; unknown names raise KeyError",
    "C14.transform": "after translate / scale / rotate90 (copy and in place) every subregion is inside, whole-celled, on the lattice, carries the mesh's dims/units and has the expected "
                     "index box (unchanged; mirrored for negative factors; rotated for quarter turns); names and order kept",
    "C14.sel_plane": "a plane selection keeps exactly the subregions whose index box contains the selected cell, with the remaining axes' box, dims and units of the new mesh",
    "C14.sel_range": "a range selection (bounds at centres, on cell faces = subregion faces, inside cells) succeeds and keeps exactly the subregions overlapping the kept cells, clipped to them",
    "C14.persist_json": "save_subregions / load_subregions (JSON side-car; also through Field.to_file/.from_file for OVF and VTK) restore names, order and corners exactly with the mesh's dims/units; "
                        "the side-car is a JSON object name -> {pmin, pmax, ...} with the exact corner values",
    "C14.persist_hdf5": "an HDF5 round trip restores names, order and corners of the subregions exactly, with the mesh's dims/units, still on the lattice",
    "C14.is_aligned_true": "meshes with equal cell size whose origins differ by whole cells are reported aligned (both directions), at every scale",
    "C14.is_aligned_false": "meshes whose origins differ by 0.1..0.9 cell along an axis, or whose cell sizes differ (by >= 1%), are reported not aligned (both directions), at every scale",
}
RULE = ("seeded meshes of 1-4 dimensions (<= 6 cells per axis) in the geometry classes nano (1e-9), unit (1), tiny (cells of 1e-13..1e-12), large (unit cells at offsets 1e4..1e6) and "
        "any (10^U(-12,6)); subregion layouts of 1-4 random index boxes plus a touching pair; per mesh: setter accept/reject with all four kinds of bad candidates on every axis, "
        "named extraction of every subregion, 8 single transformations (copy and in place), all plane selections and all index ranges per axis, JSON / OVF / VTK / HDF5 round trips, "
        "and is_aligned for whole-cell, fractional and different-cell partners. non-trivial = mesh with more than one cell; distinct by (kind, params)")
ASSUMPTIONS = [
    "bounded: 1-4 dimensions, <= 6 cells per axis, <= 4 subregions, seeded geometry",
    "'to rounding' = 64 ulp of the coordinate scale (max |corner|, |reference|) for lattice membership of stored subregions; cell-size agreement to 16 ulp of the coordinate scale",
    "transformations / selections / persistence are exercised in the nano and unit geometry classes only (the setter's own tolerance problems at tiny / large scales are isolated in the setter and is_aligned cases)",
    "OVF and VTK routes only exist for 3-d meshes",
]

DIMS = ["u", "w", "q", "t"]
UNITS = ["nm", "s", "T", "kg"]
ULPS = 64
QS = {0: ((1, 0), (0, 1)), 1: ((0, -1), (1, 0)), 2: ((-1, 0), (0, -1)), 3: ((0, 1), (-1, 0))}


class Agg:
    def __init__(self, ctx):
        self.ctx, self.ok, self.bad = ctx, {}, {}

    def req(self, cond, clause, what="", sig=None, **detail):
        try:
            cond = bool(cond)
        except Exception:
            cond = False
        if cond:
            self.ok[clause] = self.ok.get(clause, 0) + 1
        else:
            key = (clause, sig)
            if key in self.bad:
                self.bad[key][2] += 1
            else:
                self.bad[key] = [what, detail, 1]
        return cond

    def flush(self):
        badc = {k[0] for k in self.bad}
        for clause in self.ok:
            if clause not in badc:
                self.ctx.require(True, clause)
        for (clause, sig), (what, detail, cnt) in self.bad.items():
            self.ctx.require(False, clause, what, sig=sig, failures_in_case=cnt, **detail)


def rej(fn, types=(ValueError,)):
    try:
        fn()
    except types:
        return True
    except Exception:
        return False
    return False


# ------------------------------------------------------------------------------------------ geometry
def geometry(rng, nd, cls):
    if cls == "nano":
        s, off = 1e-9, rng.uniform(-3, 3, nd) * 1e-9 * float(rng.choice([1.0, 10.0]))
    elif cls == "unit":
        s, off = 1.0, rng.uniform(-3, 3, nd) * float(rng.choice([1.0, 10.0]))
    elif cls == "tiny":
        s, off = 1e-12, rng.uniform(-3, 3, nd) * 1e-12
    elif cls == "large":
        s, off = 1.0, rng.uniform(1, 3, nd) * 10.0 ** rng.integers(4, 7, nd) * rng.choice([-1.0, 1.0], nd)
    else:
        s = 10.0 ** rng.uniform(-12, 6)
        off = rng.uniform(-3, 3, nd) * s * 10.0 ** rng.integers(0, 3)
    e = rng.uniform(0.3, 1.7, nd) * s
    flip = rng.integers(0, 2, nd).astype(bool)
    return np.where(flip, off + e, off).tolist(), np.where(flip, off, off + e).tolist()


def index_boxes(rng, n, count):
    out = []
    for _ in range(count):
        lo = [int(rng.integers(0, k)) for k in n]
        out.append([lo, [int(rng.integers(l + 1, k + 1)) for l, k in zip(lo, n)]])
    # a touching pair along the first axis with more than one cell
    for a, k in enumerate(n):
        if k > 1:
            cut = int(rng.integers(1, k))
            lo1, hi1, lo2, hi2 = [0] * len(n), list(n), [0] * len(n), list(n)
            hi1[a], lo2[a] = cut, cut
            out += [[lo1, hi1], [lo2, hi2]]
            break
    return out


class Lat:
    """own description of a mesh lattice, rebuilt from params"""

    def __init__(self, pr):
        self.p1, self.p2 = np.array(pr["p1"]), np.array(pr["p2"])
        self.n = np.array(pr["n"], int)
        self.nd = len(self.n)
        self.dims = tuple(pr.get("dims") or DIMS[: self.nd])
        self.units = tuple(pr.get("units") or UNITS[: self.nd])
        self.pmin, self.pmax = np.minimum(self.p1, self.p2).astype(float), np.maximum(self.p1, self.p2).astype(float)
        self.cell = (self.pmax - self.pmin) / self.n
        self.scale = np.maximum(np.abs(self.pmin), np.abs(self.pmax))
        self.boxes = [(np.array(lo), np.array(hi)) for lo, hi in pr.get("subs") or []]
        self.names = ["r%d" % i for i in range(len(self.boxes))]

    def region(self):
        return df.Region(p1=tuple(self.p1.tolist()), p2=tuple(self.p2.tolist()), dims=self.dims, units=self.units)

    def corner(self, idx):
        idx = np.asarray(idx)
        return np.where(idx == self.n, self.pmax, self.pmin + idx * self.cell)

    def sub_regions(self, foreign=True):
        # given with default (foreign) dims/units on purpose: the mesh must re-label them
        return {nm: df.Region(p1=tuple(self.corner(lo)), p2=tuple(self.corner(hi))) for nm, (lo, hi) in zip(self.names, self.boxes)}

    def mesh(self, subs=True):
        return df.Mesh(region=self.region(), n=tuple(int(k) for k in self.n), subregions=self.sub_regions() if subs else None)


def box_of(sub, pmin, pmax, n, scale, ulps=ULPS):
    """own lattice arithmetic: (lo, hi, ok) index box of a stored subregion in the lattice (pmin, pmax, n); ok = corners are integer cell offsets to rounding,
    inside 0..n, at least one cell per axis, pmin<pmax"""
    pmin, pmax, n = np.asarray(pmin, float), np.asarray(pmax, float), np.asarray(n)
    cell = (pmax - pmin) / n
    a, b = np.asarray(sub.pmin, float), np.asarray(sub.pmax, float)
    if a.shape != pmin.shape:
        return None, None, False
    qlo, qhi = (a - pmin) / cell, (b - pmin) / cell
    lo, hi = np.round(qlo), np.round(qhi)
    sc = np.maximum(np.maximum(np.abs(pmin), np.abs(pmax)), scale)
    tol = ulps * np.spacing(sc) / cell + ulps * np.spacing(np.maximum(np.abs(qhi), 1.0))
    ok = bool(np.all(np.abs(qlo - lo) <= tol) and np.all(np.abs(qhi - hi) <= tol) and np.all(lo >= 0) and np.all(hi <= n) and np.all(hi - lo >= 1) and np.all(a < b))
    return lo.astype(int), hi.astype(int), ok


def stored_ok(mesh, want_names, want_boxes, scale=0.0, ulps=ULPS):
    """(ok, why): mesh.subregions are exactly the named index boxes, on the lattice, with the mesh's dims/units"""
    subs = mesh.subregions
    if list(subs.keys()) != list(want_names):
        return False, "names/order %r != %r" % (list(subs.keys()), list(want_names))
    for nm, (wlo, whi) in zip(want_names, want_boxes):
        s = subs[nm]
        if tuple(s.dims) != tuple(mesh.region.dims) or tuple(s.units) != tuple(mesh.region.units):
            return False, "%s: dims/units %r %r differ from the mesh's %r %r" % (nm, s.dims, s.units, mesh.region.dims, mesh.region.units)
        lo, hi, ok = box_of(s, mesh.region.pmin, mesh.region.pmax, mesh.n, scale, ulps)
        if not ok:
            return False, "%s: not a whole-cell box on the lattice inside the region (pmin=%r pmax=%r)" % (nm, s.pmin.tolist(), s.pmax.tolist())
        if not (np.array_equal(lo, wlo) and np.array_equal(hi, whi)):
            return False, "%s: index box %r..%r, expected %r..%r" % (nm, lo.tolist(), hi.tolist(), np.asarray(wlo).tolist(), np.asarray(whi).tolist())
    return True, ""


def sub_state(mesh):
    return [(k, np.array(v.pmin, float), np.array(v.pmax, float), tuple(v.dims), tuple(v.units)) for k, v in mesh.subregions.items()]


def same_state(a, b):
    return len(a) == len(b) and all(x[0] == y[0] and np.array_equal(x[1], y[1]) and np.array_equal(x[2], y[2]) and x[3] == y[3] and x[4] == y[4] for x, y in zip(a, b))


# ------------------------------------------------------------------------------------------ cases
def cases(ctx):
    rng = ctx.rng
    quick = ctx.tier == "quick"
    reps = 5 if quick else 30
    for nd in (1, 2, 3, 4):
        nmax = {1: 6, 2: 6, 3: 4, 4: 3}[nd]
        for cls in ("nano", "unit", "tiny", "large", "any"):
            for rep in range(reps):
                p1, p2 = geometry(rng, nd, cls)
                n = [int(x) for x in rng.integers(1, nmax + 1, nd)]
                if nd > 1 and len(set(n)) == 1:
                    n[0] = n[0] % nmax + 1
                base = {"p1": p1, "p2": p2, "n": n, "cls": cls, "subs": index_boxes(rng, n, int(rng.integers(1, 3))), "seed": int(rng.integers(1 << 30))}
                if rep % 2:
                    base["dims"] = ["x", "y", "z"][:nd] if nd <= 3 else ["x0", "x1", "x2", "x3"]
                yield "setter", base
                yield "aligned", {k: v for k, v in base.items() if k != "subs"}
                if cls in ("nano", "unit"):
                    yield "transform", base
                    yield "sel", base
                    yield "persist", base
    # fixed cases
    yield "setter", {"p1": [0, 0, 0], "p2": [10, 6, 4], "n": [5, 3, 4], "cls": "int", "subs": [[[0, 0, 0], [2, 3, 4]], [[2, 0, 1], [5, 2, 3]]], "seed": 1, "dims": ["x", "y", "z"]}
    yield "persist", {"p1": [0, 0, 0], "p2": [10, 6, 4], "n": [5, 3, 4], "cls": "int", "subs": [[[0, 0, 0], [2, 3, 4]], [[2, 0, 1], [5, 2, 3]]], "seed": 1, "dims": ["x", "y", "z"]}
    yield "persist", {"p1": [0, 0], "p2": [2, 3], "n": [4, 6], "cls": "int-fractional", "subs": [[[0, 0], [1, 3]], [[1, 1], [4, 6]]], "seed": 2, "dims": ["x", "y"]}
    yield "sel", {"p1": [0.0], "p2": [0.6], "n": [6], "cls": "unit", "subs": [[[1], [2]], [[0], [3]]], "seed": 3, "dims": ["x"]}
    yield "aligned", {"p1": [0.0, 0.0, 0.0], "p2": [4e-12, 6e-12, 2e-12], "n": [4, 3, 2], "cls": "tiny", "seed": 4}
    yield "aligned", {"p1": [1e5 + 0.1, 0.2], "p2": [1e5 + 1.3, 1.0], "n": [4, 4], "cls": "large", "seed": 5}


def check(kind, pr, ctx):
    if int(np.prod(pr["n"])) == 1:
        ctx.trivial()
    ag = Agg(ctx)
    {"setter": check_setter, "aligned": check_aligned, "transform": check_transform, "sel": check_sel, "persist": check_persist}[kind](pr, ag)
    ag.flush()


# ------------------------------------------------------------------------------------------ setter
def abs_tol_explains_rejection(L, err):
    """signature helper: an aligned box refused as 'not aligned' although the rounding of the coordinates alone exceeds the absolute tolerance 1e-12"""
    return isinstance(err, ValueError) and "not aligned" in str(err) and 8 * float(np.max(np.spacing(L.scale))) >= 1e-12


def check_setter(pr, ag):
    L = Lat(pr)
    rng = np.random.default_rng(pr["seed"])
    r, mesh = raises(Exception, lambda: L.mesh())
    if not ag.req(not r, "C14.accept_aligned", "cell-aligned subregions refused at construction",
                  sig="aligned-rejected-absolute-tolerance-large-coordinates" if (r and abs_tol_explains_rejection(L, mesh)) else None,
                  error=repr(mesh)[:200], boxes=pr["subs"], pmin=L.pmin, cell=L.cell):
        mesh = L.mesh(subs=False)
        have = False
    else:
        have = True
        ok, why = stored_ok(mesh, L.names, L.boxes)
        given = L.sub_regions()
        exact = all(np.array_equal(mesh.subregions[k].pmin, given[k].pmin) and np.array_equal(mesh.subregions[k].pmax, given[k].pmax) for k in L.names)
        ag.req(ok and exact, "C14.stored", "stored subregions differ from the given boxes / not relabelled with the mesh's dims and units: " + why)
        # assignment of a different aligned set (reversed order, renamed)
        new = {("s%d" % i): v for i, v in enumerate(reversed(list(given.values())))}
        ra, e = raises(Exception, lambda: setattr(mesh, "subregions", new))
        if ag.req(not ra, "C14.accept_aligned", "cell-aligned subregions refused by assignment", error=repr(e)[:200]):
            ok, why = stored_ok(mesh, list(new.keys()), list(reversed(L.boxes)))
            ag.req(ok, "C14.stored", "subregions after assignment: " + why)
            mesh.subregions = given
        # assignment of None / {} clears
        m2 = L.mesh()
        m2.subregions = None
        ag.req(m2.subregions == {}, "C14.stored", "assigning None does not clear the subregions")
        # named extraction
        for nm, (lo, hi) in zip(L.names, L.boxes):
            rn, sm = raises(Exception, lambda: mesh[nm])
            okn = not rn and sm.region == mesh.subregions[nm] and np.array_equal(sm.n, hi - lo) and ulp_close(sm.cell, L.cell, 16, L.scale) and len(sm.subregions) == 0 \
                and tuple(sm.region.dims) == L.dims and tuple(sm.region.units) == L.units
            ag.req(okn, "C14.named_mesh", "mesh['name'] is not the subregion with the parent's cells", name=nm, error=repr(sm)[:160] if rn else None,
                   n=None if rn else sm.n, want_n=hi - lo, cell=None if rn else sm.cell, want_cell=L.cell)
        ag.req(rej(lambda: mesh["nope"], (KeyError,)), "C14.named_mesh", "unknown subregion name does not raise KeyError")
    before = sub_state(mesh)
    # ---- bad candidates
    cands = []
    for a in range(L.nd):
        n, c = int(L.n[a]), L.cell[a]
        lo = np.array([int(rng.integers(0, k)) for k in L.n])
        hi = np.array([int(rng.integers(l + 1, k + 1)) for l, k in zip(lo, L.n)])
        p, q = L.corner(lo), L.corner(hi)
        f = float(rng.uniform(0.1, 0.9))
        # misaligned: same size, shifted by f cells along a (kept inside when there is room, else it also sticks out -> still to be refused)
        if hi[a] < n:
            sh = f
        elif lo[a] > 0:
            sh = -f
        else:
            sh = None
        if sh is not None:
            p2, q2 = p.copy(), q.copy()
            p2[a] += sh * c
            q2[a] += sh * c
            cands.append(("misaligned", a, f, p2, q2))
        # fractional: upper face moved into a cell
        if hi[a] - lo[a] >= 1:
            q3 = q.copy()
            q3[a] = L.pmin[a] + (hi[a] - 1 + f) * c if hi[a] - lo[a] > 1 else L.pmin[a] + (lo[a] + f) * c
            cands.append(("fractional", a, f, p.copy(), q3))
        # oversized: sticks out by one / three whole cells
        p4, q4 = p.copy(), q.copy()
        if rng.random() < 0.5:
            q4[a] = L.pmax[a] + c * int(rng.choice([1, 3]))
        else:
            p4[a] = L.pmin[a] - c * int(rng.choice([1, 3]))
        cands.append(("oversized", a, None, p4, q4))
    ext = L.pmax - L.pmin
    cands.append(("outside", None, None, L.pmax + 2 * ext, L.pmax + 3 * ext))
    for kind, a, f, p, q in cands:
        cand = df.Region(p1=tuple(p), p2=tuple(q))
        good = dict(mesh.subregions)
        sig = None
        if kind in ("misaligned", "fractional") and L.cell[a] * min(f, 1 - f) <= 2e-12:
            sig = "%s-accepted-absolute-tolerance-tiny-cells" % kind
        okr = rej(lambda: setattr(mesh, "subregions", dict(good, bad=cand)))
        ag.req(okr, "C14.reject", "%s candidate accepted by assignment" % kind, sig=sig, axis=a, fraction=f, p1=p, p2=q, mesh_pmin=L.pmin, cell=L.cell)
        ag.req(same_state(sub_state(mesh), before), "C14.reject_keeps_previous", "previous subregions changed by a %s assignment" % ("refused" if okr else "wrongly accepted"),
               sig=sig if not okr else None, kind=kind, now=list(mesh.subregions.keys()))
        if not okr:
            mesh.subregions = good
        okc = rej(lambda: df.Mesh(region=L.region(), n=tuple(int(k) for k in L.n), subregions={"bad": cand}))
        ag.req(okc, "C14.reject", "%s candidate accepted at construction" % kind, sig=sig, axis=a, fraction=f, p1=p, p2=q, mesh_pmin=L.pmin, cell=L.cell)
    # ---- malformed
    for badv, types in (([("a", 1)], (TypeError,)), ("abc", (TypeError,)), ({1: L.region()}, (TypeError,)), ({"a": "not a region"}, (TypeError, ValueError, AttributeError)),
                        ({"a": df.Region(p1=tuple(L.pmin.tolist()) + (0.0,), p2=tuple(L.pmax.tolist()) + (1.0,))}, (ValueError, TypeError))):
        okr = rej(lambda: setattr(mesh, "subregions", badv), types)
        ag.req(okr, "C14.reject", "malformed subregions accepted / undocumented exception", value=repr(badv)[:80])
        ag.req(same_state(sub_state(mesh), before), "C14.reject_keeps_previous", "previous subregions changed by a malformed assignment", value=repr(badv)[:80])


# ------------------------------------------------------------------------------------------ is_aligned
def check_aligned(pr, ag):
    L = Lat(pr)
    rng = np.random.default_rng(pr["seed"])
    m1 = L.mesh(subs=False)

    def partner(off, n2, shift_axis=None, f=0.0, ratio=None):
        p = L.pmin + np.array(off) * L.cell
        c = L.cell.copy()
        if shift_axis is not None:
            p[shift_axis] += f * L.cell[shift_axis]
        if ratio is not None:
            c = c * ratio
        return df.Mesh(p1=tuple(p), p2=tuple(p + np.array(n2) * c), n=tuple(int(k) for k in n2))

    for it in range(10):
        off = [int(x) for x in rng.integers(-4, 5, L.nd)]
        n2 = [int(x) for x in rng.integers(1, 6, L.nd)]
        if it == 0:
            off, n2 = [0] * L.nd, L.n.tolist()
        m2 = partner(off, n2)
        big = 8 * float(np.max(np.spacing(np.maximum(L.scale, np.abs(m2.region.pmax))))) >= 1e-12
        r, v = raises(Exception, lambda: (m1.is_aligned(m2), m2.is_aligned(m1)))
        ag.req(not r and v[0] is True and v[1] is True, "C14.is_aligned_true", "meshes differing by whole cells reported not aligned",
               sig="aligned-rejected-absolute-tolerance-large-coordinates" if (not r and big) else None, offset=off, n2=n2, got=repr(v)[:80], pmin=L.pmin, cell=L.cell)
        a = int(rng.integers(L.nd))
        f = float(rng.uniform(0.1, 0.9))
        m3 = partner(off, n2, a, f)
        r, v = raises(Exception, lambda: (m1.is_aligned(m3), m3.is_aligned(m1)))
        tiny = L.cell[a] * min(f, 1 - f) <= 2e-12
        ag.req(not r and v[0] is False and v[1] is False, "C14.is_aligned_false", "meshes offset by a fraction of a cell reported aligned",
               sig="misaligned-accepted-absolute-tolerance-tiny-cells" if (not r and tiny) else None, offset=off, axis=a, fraction=f, got=repr(v)[:80], cell=L.cell)
        ratio = float(rng.choice([1.01, 1.5, 2.0, 0.5, 3.0]))
        m4 = partner(off, n2, None, 0.0, np.where(np.arange(L.nd) == a, ratio, 1.0))
        r, v = raises(Exception, lambda: (m1.is_aligned(m4), m4.is_aligned(m1)))
        tinyc = abs(ratio - 1.0) * L.cell[a] <= 2e-12
        ag.req(not r and v[0] is False and v[1] is False, "C14.is_aligned_false", "meshes with different cell sizes reported aligned",
               sig="different-cells-accepted-absolute-tolerance-tiny-cells" if (not r and tinyc) else None, axis=a, ratio=ratio, got=repr(v)[:80], cell=L.cell)
    ag.req(rej(lambda: m1.is_aligned("mesh"), (TypeError,)) and rej(lambda: m1.is_aligned(m1, tolerance="small"), (TypeError,)), "C14.is_aligned_false", "malformed is_aligned arguments accepted")


# ------------------------------------------------------------------------------------------ transformations
def rot_box_idx(lo, hi, n, a, b, k):
    lo, hi, n = list(lo), list(hi), list(n)
    for _ in range(k % 4):
        # (ia, ib) -> (n_b-1-ib, ia): the box [lo,hi) becomes [n_b-hi_b, n_b-lo_b) x [lo_a, hi_a)
        lo[a], hi[a], lo[b], hi[b] = n[b] - hi[b], n[b] - lo[b], lo[a], hi[a]
        n[a], n[b] = n[b], n[a]
    return np.array(lo), np.array(hi), np.array(n)


def check_transform(pr, ag):
    L = Lat(pr)
    rng = np.random.default_rng(pr["seed"])
    size = L.pmax - L.pmin
    centre = 0.5 * (L.pmin + L.pmax)
    steps = []
    for _ in range(3):
        steps.append(("translate", {"vector": tuple(rng.uniform(-2, 2, L.nd) * size * float(rng.choice([1.0, 1e-3, 30.0])))}))
    for _ in range(3):
        fac = 10.0 ** rng.uniform(-1, 1, L.nd) * np.where(rng.random(L.nd) < 0.4, -1.0, 1.0)
        ref = None if rng.random() < 0.4 else tuple(centre + rng.uniform(-1, 1, L.nd) * size * float(rng.choice([1.0, 30.0])))
        steps.append(("scale", {"factor": tuple(fac) if rng.random() < 0.6 else float(fac[0]), "reference_point": ref}))
    if L.nd >= 2:
        for _ in range(4):
            a, b = (int(x) for x in rng.permutation(L.nd)[:2])
            ref = None if rng.random() < 0.4 else tuple(centre + rng.uniform(-1, 1, L.nd) * size * float(rng.choice([1.0, 30.0])))
            steps.append(("rotate90", {"ax1": L.dims[a], "ax2": L.dims[b], "k": int(rng.integers(-5, 6)), "reference_point": ref, "_ab": (a, b)}))
    def expect(n, boxes, units, scale, op, kw, ab):
        """index boxes, counts, units and coordinate scale expected after one step"""
        n, units = np.array(n).copy(), list(units)
        ref = float(np.max(np.abs(np.array(kw["reference_point"])))) if "reference_point" in kw else 0.0
        neg = False
        if op == "scale":
            fac = np.broadcast_to(np.array(kw["factor"], float), (L.nd,))
            neg = bool(np.any(fac < 0))
            boxes = [(np.where(fac < 0, n - hi, lo), np.where(fac < 0, n - lo, hi)) for lo, hi in boxes]
            scale = max(scale, ref, float(np.max(np.abs(fac))) * (scale + ref) + ref)
        elif op == "translate":
            scale = scale + float(np.max(np.abs(kw["vector"])))
        else:
            a, b = ab
            boxes, n = [rot_box_idx(lo, hi, n, a, b, kw["k"])[:2] for lo, hi in boxes], rot_box_idx(n * 0, n, n, a, b, kw["k"])[2]
            if kw["k"] % 2 == 1:
                units[a], units[b] = units[b], units[a]
            scale = 2 * (scale + ref)
        return n, boxes, units, scale, neg

    clean = []
    for op, kw in steps:
        ab = kw.pop("_ab", None)
        kw = {k: v for k, v in kw.items() if v is not None}
        clean.append((op, kw, ab))
        n_new, boxes, units, refscale, neg = expect(L.n, [(lo.copy(), hi.copy()) for lo, hi in L.boxes], L.units, float(np.max(L.scale)), op, kw, ab)
        for inplace in (False, True):
            m = L.mesh()
            r, res = raises(Exception, lambda: getattr(m, op)(inplace=inplace, **kw))
            if not ag.req(not r, "C14.transform", "transformation of a mesh with subregions raised", op=op, inplace=inplace, args=repr(kw)[:200], error=repr(res)[:200]):
                continue
            ok, why = stored_ok(res, L.names, boxes, refscale, 2 * ULPS)
            okn = np.array_equal(res.n, n_new)
            sig = None
            if inplace and neg and not ok:
                sig = "inplace-negative-scale-leaves-pmin-gt-pmax"
            elif inplace and op == "rotate90" and kw["k"] % 2 == 1 and ok and okn and tuple(res.region.units) != tuple(units):
                sig = "inplace-rotate90-odd-k-units-not-swapped"
            oku = tuple(res.region.units) == tuple(units) and tuple(res.region.dims) == L.dims
            ag.req(ok and okn and oku, "C14.transform", "subregions after %s: %s" % (op, why or ("n %r != %r" % (res.n.tolist(), n_new.tolist()) if not okn else "units/dims of the mesh wrong")),
                   sig=sig, op=op, inplace=inplace, args=repr(kw)[:200], units=res.region.units, want_units=units)
    # ---- chains of four steps in the copying form (reference points are re-used as absolute points)
    for _ in range(2):
        m = L.mesh()
        n_cur, boxes, units, sc = L.n, [(lo.copy(), hi.copy()) for lo, hi in L.boxes], L.units, float(np.max(L.scale))
        done = []
        for j in rng.permutation(len(clean))[:4]:
            op, kw, ab = clean[int(j)]
            done.append((op, repr(kw)[:120]))
            n_cur, boxes, units, sc, _ = expect(n_cur, boxes, units, sc, op, kw, ab)
            r, m = raises(Exception, lambda: getattr(m, op)(**kw))
            csig = "aligned-rejected-absolute-tolerance-large-coordinates" if (r and isinstance(m, ValueError) and "not aligned" in str(m) and 8 * np.spacing(sc) >= 1e-12) else None
            if not ag.req(not r, "C14.transform", "transformation in a chain raised", sig=csig, chain=done, error=repr(m)[:200]):
                break
            ok, why = stored_ok(m, L.names, boxes, sc, 2 * ULPS * len(done))
            if not ag.req(ok and np.array_equal(m.n, n_cur) and tuple(m.region.units) == tuple(units), "C14.transform", "subregions after a chain of transformations: " + why,
                          chain=done, n=m.n, want_n=n_cur, units=m.region.units, want_units=units):
                break


# ------------------------------------------------------------------------------------------ selections
def kept_cells(L, res, axes):
    """per kept axis: source cell indices of the result mesh's cells (own floor lookup of the result's cell centres)"""
    out = []
    for j, a in enumerate(axes):
        c = res.region.pmin[j] + (np.arange(res.n[j]) + 0.5) * ((res.region.pmax[j] - res.region.pmin[j]) / res.n[j])
        out.append(np.floor((c - L.pmin[a]) / L.cell[a]).astype(int))
    return out


def check_sel(pr, ag):
    L = Lat(pr)
    rng = np.random.default_rng(pr["seed"])
    mesh = L.mesh()
    for a in range(L.nd):
        n, dim = int(L.n[a]), L.dims[a]
        others = [j for j in range(L.nd) if j != a]
        # ---- planes
        if L.nd > 1:
            reqs = [(None, None)] + [(k, float(L.pmin[a] + (k + 0.5) * L.cell[a])) for k in range(n)] + [(k, float(L.pmin[a] + (k + rng.uniform(0.1, 0.9)) * L.cell[a])) for k in range(n)]
            for k, x in reqs:
                r, res = raises(Exception, (lambda: mesh.sel(dim)) if x is None else (lambda: mesh.sel(**{dim: x})))
                if not ag.req(not r, "C14.sel_plane", "plane selection of a mesh with subregions raised", axis=a, coord=x, error=repr(res)[:200]):
                    continue
                if k is None:
                    k = (n - 1) // 2 if n % 2 else None      # odd n: the central cell is unambiguous; even n: centre on a face -> either neighbour
                want_sets = []
                for kk in ([k] if k is not None else [n // 2 - 1, n // 2]):
                    keep = [(nm, lo[others], hi[others]) for nm, (lo, hi) in zip(L.names, L.boxes) if lo[a] <= kk < hi[a]]
                    want_sets.append(keep)
                good = False
                why = ""
                for keep in want_sets:
                    ok, why = stored_ok(res, [x_[0] for x_ in keep], [(x_[1], x_[2]) for x_ in keep])
                    good |= ok
                ag.req(good, "C14.sel_plane", "subregions of the plane: " + why, axis=a, coord=x, cell=k, boxes=pr["subs"])
        # ---- ranges
        for klo in range(n):
            for khi in range(klo, n):
                vlo, vhi = float(L.pmin[a] + klo * L.cell[a]), (float(L.pmin[a] + (khi + 1) * L.cell[a]) if khi + 1 < n else float(L.pmax[a]))
                bounds = [(float(L.pmin[a] + (klo + 0.5) * L.cell[a]), float(L.pmin[a] + (khi + 0.5) * L.cell[a]), "centres"), (vlo, vhi, "faces"),
                          (float(L.pmin[a] + (klo + rng.uniform(0.1, 0.9)) * L.cell[a]), float(L.pmin[a] + (khi + rng.uniform(0.1, 0.9)) * L.cell[a]), "inside")]
                for lo_, hi_, how in bounds:
                    lo_, hi_ = min(lo_, hi_), max(lo_, hi_)
                    r, res = raises(Exception, lambda: mesh.sel(**{dim: (hi_, lo_) if how == "inside" else (lo_, hi_)}))
                    if r:
                        touch = any(hi[a] == klo or lo[a] == khi + 1 or (how == "faces" and (lo[a] == khi + 2 or hi[a] == klo)) for lo, hi in L.boxes)
                        sig = "sel-range-raises-when-subregion-touches-the-range" if (isinstance(res, ValueError) and "cannot be divided" in str(res)) else None
                        ag.req(False, "C14.sel_range", "range selection of a mesh with subregions raised", sig=sig, axis=a, bounds=[lo_, hi_], how=how, cells=[klo, khi],
                               error=repr(res)[:160], boxes=pr["subs"], touching=touch)
                        continue
                    if res.region.ndim != L.nd:
                        ag.req(False, "C14.sel_range", "range selection changed the number of dimensions")
                        continue
                    kc = kept_cells(L, res, range(L.nd))
                    glo, ghi = int(kc[a][0]), int(kc[a][-1])       # cells actually kept (C07 decides whether these are the right ones)
                    plaus = (glo in (klo, klo - 1) and ghi in (khi, khi + 1)) if how == "faces" else (glo == klo and ghi == khi)
                    keep = []
                    for nm, (lo, hi) in zip(L.names, L.boxes):
                        if lo[a] <= ghi and hi[a] > glo:
                            nlo, nhi = lo.copy(), hi.copy()
                            nlo[a], nhi[a] = max(lo[a], glo) - glo, min(hi[a], ghi + 1) - glo
                            keep.append((nm, nlo, nhi))
                    ok, why = stored_ok(res, [x_[0] for x_ in keep], [(x_[1], x_[2]) for x_ in keep])
                    ag.req(ok and plaus, "C14.sel_range", "subregions of the range selection: " + (why or "kept cells %d..%d for requested %d..%d" % (glo, ghi, klo, khi)),
                           axis=a, bounds=[lo_, hi_], how=how, cells=[klo, khi], boxes=pr["subs"])


# ------------------------------------------------------------------------------------------ persistence
def check_persist(pr, ag):
    L = Lat(pr)
    frac = pr.get("cls") == "int-fractional"
    mesh = L.mesh()
    want = sub_state(mesh)
    intcorner = np.issubdtype(np.asarray(mesh.region.pmin).dtype, np.integer)
    with tempfile.TemporaryDirectory(prefix="c14_") as tmp:
        # ---- JSON side-car, directly
        base = os.path.join(tmp, "mesh.dat")
        r, e = raises(Exception, lambda: mesh.save_subregions(base))
        if ag.req(not r and os.path.exists(base + ".subregions.json"), "C14.persist_json", "save_subregions failed / side-car not written", error=repr(e)[:200]):
            with open(base + ".subregions.json", "rt", encoding="utf-8") as fh:
                raw = json.load(fh)
            okraw = isinstance(raw, dict) and list(raw.keys()) == L.names and all(
                np.array_equal(np.array(raw[k]["pmin"], float), w[1]) and np.array_equal(np.array(raw[k]["pmax"], float), w[2]) for k, w in zip(L.names, want))
            ag.req(okraw, "C14.persist_json", "side-car content is not name -> exact corners", raw=raw)
            m2 = L.mesh(subs=False)
            r, e = raises(Exception, lambda: m2.load_subregions(base))
            ok = not r and same_state(sub_state(m2), want)
            okl, why = stored_ok(m2, L.names, L.boxes) if not r else (False, "")
            ag.req(ok and okl, "C14.persist_json", "subregions reloaded from the side-car differ: " + why, error=repr(e)[:200] if r else None, got=sub_state(m2))
        # ---- through field files
        f = df.Field(mesh, nvdim=3 if L.nd == 3 else 1, value=(1.0, 2.0, 3.0) if L.nd == 3 else 1.0)
        # OVF supports one common unit for all directions only
        Lu = Lat(dict(pr, units=["nm"] * L.nd))
        fu = df.Field(Lu.mesh(), nvdim=f.nvdim, value=(1.0, 2.0, 3.0) if L.nd == 3 else 1.0)
        routes = [("h5", "C14.persist_hdf5")] + ([("ovf", "C14.persist_json"), ("vtk", "C14.persist_json")] if L.nd == 3 else [])
        for ext, clause in routes:
            fn = os.path.join(tmp, "field." + ext)
            r, e = raises(Exception, lambda: (f if ext == "h5" else fu).to_file(fn))
            if not ag.req(not r, clause, "Field.to_file(.%s) raised" % ext, error=repr(e)[:200]):
                continue
            r, g = raises(Exception, lambda: df.Field.from_file(fn))
            sig = None
            if ext == "h5" and intcorner and frac:
                sig = "hdf5-subregion-corners-truncated-to-integer-dtype"
            if not ag.req(not r, clause, "Field.from_file(.%s) raised" % ext, sig=sig, error=repr(g)[:200]):
                continue
            got = sub_state(g.mesh)
            # ovf/vtk store the mesh geometry as text/float32-free doubles: the subregion corners come from the side-car and must be exact; dims/units follow the loaded mesh
            same = len(got) == len(want) and all(x[0] == y[0] and np.array_equal(x[1], y[1]) and np.array_equal(x[2], y[2]) for x, y in zip(got, want))
            labelled = all(x[3] == tuple(g.mesh.region.dims) and x[4] == tuple(g.mesh.region.units) for x in got)
            okl, why = stored_ok(g.mesh, L.names, L.boxes)
            ag.req(same and labelled and okl, clause, "subregions after the .%s round trip differ: %s" % (ext, why), sig=sig if not same else None,
                   got=[(x[0], x[1], x[2]) for x in got], want=[(x[0], x[1], x[2]) for x in want])
            if ext == "h5":
                ag.req(tuple(g.mesh.region.dims) == L.dims and tuple(g.mesh.region.units) == L.units and np.array_equal(g.mesh.n, L.n), clause,
                       "mesh dims/units/n changed by the HDF5 round trip", dims=g.mesh.region.dims, units=g.mesh.region.units)
