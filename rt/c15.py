"""C15 bounded run-time tier: Field.norm (getter / setter), Field.orientation, Field(..., norm=...)
against per-cell oracles computed in extended precision from the property statement.
Bounded: meshes of 1-4 dimensions with <= 5 cells per axis, 1-4 components, lengths 1e-6..1e150 + exact zeros.
Field dtypes: float64 (default), float32, complex128, complex64, int64, int32 (given with dtype= or inferred from the
value array); the Euclidean length of a complex vector is sqrt(sum_l |z_l|^2) = sqrt(sum_l re_l^2 + im_l^2), a real
number >= 0; "unchanged direction" of a complex vector means new = (t/|old|) * old with a REAL positive factor, i.e.
real and imaginary part of every component are scaled alike (phases kept).  "ulp" always refers to the precision of
the field's dtype (2^-52 for float64 / complex128 / integer fields, 2^-23 for float32 / complex64)."""
import numpy as np
import discretisedfield as df
from .common import raises

PROPERTY = "C15"
EPS = np.finfo(float).eps
CLAUSES = {
    "C15.length": "after `f.norm = t` every cell whose vector was non-zero has length t(cell) (8 ulp of t; exactly |t| rounded to the field dtype for real one-component fields); the array stays finite, keeps its shape",
    "C15.direction": "after `f.norm = t` (t != 0) every component equals old_i/|old| * t (8 ulp of that component; real and imaginary part separately for complex fields), i.e. the direction is unchanged incl. signs, complex phases and zero components",
    "C15.zero_stays_zero": "cells whose vector was exactly zero are exactly zero after the norm is set (no NaN/inf), whatever t; cells with t == 0 become exactly zero",
    "C15.norm_values": "f.norm.array[cell] == sqrt(sum_i |v_i|^2) (4 ulp; == |v| exactly for real / integer one-component fields), shape (*n, 1)",
    "C15.norm_real": "f.norm is real and non-negative for every field dtype: its array has a floating (never complex / integer) dtype, all entries >= 0, zero exactly in zero cells",
    "C15.norm_meta": "f.norm is a Field with nvdim 1 on the same mesh (equal, dims/units included), the field's unit and the field's validity mask",
    "C15.orientation": "orientation: o_i == v_i/|v| (4 ulp per component; real and imaginary part separately for complex fields) and | |o| - 1 | <= 4 eps wherever |v| > 1e-8; exactly zero where |v| <= 1e-8 (exact zeros and sub-threshold lengths); same mesh and nvdim; defined for every field dtype (an integer field has a floating orientation)",
    "C15.orientation_times_norm": "(f.orientation * f.norm).array == f.array (4 ulp per component; real and imaginary part separately for complex fields) for lengths in 1e-6..1e150 and exact zeros",
    "C15.no_reapply": "after `f.norm = t`, `f.update_field_values(w)` / `f.array = w` store w exactly (the earlier norm is not re-applied) and f.norm reports |w|",
    "C15.constructor_order": "Field(mesh, nvdim, value=v, norm=t, valid='norm'[, dtype=d]): values first, then the norm (array == v/|v|*t as for the setter), then validity from the *normalised* values (valid == (|result| > 1e-8))",
    "C15.spec_forms": "constant, per-cell array (*n,1) or (*n,), function of position and Field - with float64, float32 or integer entries - give the same result as the equivalent per-cell float64 array",
    "C15.dtype_kept": "`f.norm = t` and Field(..., dtype=d, norm=t) keep the dtype of f.array (complex stays complex, float32 stays float32, a declared dtype is the array's dtype); an INTEGER field cannot hold v/|v|*t in general: there the assignment either satisfies the clauses above or is refused with TypeError / ValueError leaving array and dtype bit-identical (no silent truncation)",
}
RULE = ("seeded fields: mesh 1-4 dimensions, 1..5 cells per axis, random geometry scale; 1-4 components; per cell a random direction (normal, "
        "axis-aligned with zero components, or sign-only for scalars) times a length log-uniform in [1e-6, 1e150] (end points included in some cells), "
        "a seeded fraction of exactly-zero cells (also all-zero and no-zero fields); target norms: constant, per-cell array (both shapes), function of "
        "position (per-cell table looked up from the point), Field; targets log-uniform in [1e-6, 1e150], optionally zero in places; kinds: set (setter), "
        "get (getter, orientation, product, metadata with unit/valid mask), update (no re-application), ctor (constructor order), threshold "
        "(orientation around the 1e-8 threshold: lengths 1e-100..9e-9 and 1.2e-8..1e-7). All kinds are enumerated a second time over the field dtype: "
        "complex128, complex64 (complex normal directions, axis-aligned with a phase in {1,-1,i,-i,random}, circularly polarised cells (a, +-i a, 0..) whose "
        "plain squares cancel, purely real / purely imaginary components), float32 (lengths and targets 1e-6..1e18 for the 32-bit types so that squares stay "
        "in range), int64 / int32 (small, medium and large integer components), each with dtype= given or inferred from the value array, and over the dtype "
        "of the target norm (float64, float32, integer; all five forms); trivial = field without any non-zero cell; distinct by (kind, params)")
ASSUMPTIONS = [
    "bounded: <= 5 cells per axis, 1-4 dimensions, 1-4 components, seeded data",
    "lengths restricted to {0} U [1e-6, 1e150] as in the property (threshold kind: down to 1e-100 for the orientation clause only); for float32 / complex64 "
    "fields {0} U [1e-6, 1e18] (squares must not under/overflow in the field's own precision; threshold kind down to 1e-30)",
    "field dtypes float64, float32, complex128, complex64, int64, int32; float16 / longdouble / bool / object fields are not exercised",
    "integer fields: a clean refusal (TypeError / ValueError, field untouched) of a norm assignment is accepted, because an integer array cannot hold "
    "v/|v|*t; getter, orientation and product are demanded in full",
    "with dtype= omitted the array dtype the constructor infers from the value array is taken as found (that is C02's subject); the clauses are then stated "
    "for that dtype",
    "oracle in numpy longdouble on real and imaginary parts separately (falls back to double where longdouble == double; squares do not overflow in the stated range)",
    "lengths within 20% of the 1e-8 orientation threshold are not sampled",
    "negative / NaN / complex target norms and dict (subregion) norm specifications are not exercised",
]
LD = np.longdouble
EPS32 = float(np.finfo(np.float32).eps)
# field dtype profiles: numpy dtype, ulp unit, complex?, integer?, decimal exponent range of the lengths
DTYPES = {
    "float64": {"dt": np.float64, "eps": EPS, "cplx": False, "int": False, "lo": -6.0, "hi": 150.0, "tlo": -100.0},
    "float32": {"dt": np.float32, "eps": EPS32, "cplx": False, "int": False, "lo": -6.0, "hi": 18.0, "tlo": -30.0},
    "complex128": {"dt": np.complex128, "eps": EPS, "cplx": True, "int": False, "lo": -6.0, "hi": 150.0, "tlo": -100.0},
    "complex64": {"dt": np.complex64, "eps": EPS32, "cplx": True, "int": False, "lo": -6.0, "hi": 18.0, "tlo": -30.0},
    "int64": {"dt": np.int64, "eps": EPS, "cplx": False, "int": True, "lo": 0.0, "hi": 15.0, "tlo": None},
    "int32": {"dt": np.int32, "eps": EPS, "cplx": False, "int": True, "lo": 0.0, "hi": 9.0, "tlo": None},
}


def _prof(pr):
    return DTYPES[pr.get("dtype", "float64")]


def _prof_of(arr):
    """profile of the dtype an array actually has (None: a dtype this module does not model)"""
    for p in DTYPES.values():
        if np.dtype(p["dt"]) == arr.dtype:
            return p
    return None


# ---------------------------------------------------------------------------------- enumeration
def cases(ctx):
    rng = ctx.rng
    reps = 25 if ctx.tier == "quick" else 300
    forms = ["const", "array", "array_flat", "callable", "field"]
    j = 0
    for ndim in (1, 2, 3, 4):
        for nv in (1, 2, 3, 4):
            for _ in range(reps):
                j += 1
                hi = 5 if ndim <= 2 else (4 if ndim == 3 else 3)
                n = rng.integers(1, hi + 1, size=ndim).tolist()
                if j % 7 == 0:
                    n = [max(k, 2) for k in n]
                base = {"n": n, "scale": float(10.0 ** rng.uniform(-9, 3)), "nvdim": nv,
                        "zero_frac": [0.0, 0.3, 0.15, 0.6, 0.3, 0.0, 0.6, 1.0][int(rng.integers(8))] if j % 11 else 0.3,
                        "dirs": ["normal", "axis", "mixed"][int(rng.integers(3))],
                        "seed": int(rng.integers(1 << 30))}
                form = forms[j % len(forms)]
                tz = bool(rng.integers(2))
                yield "set", dict(base, form=form, target_zeros=tz)
                k = j % 4
                if k == 0:
                    yield "get", dict(base, unit=[None, "A/m", "T"][int(rng.integers(3))], mask=bool(rng.integers(2)))
                elif k == 1:
                    yield "update", dict(base, form=forms[int(rng.integers(len(forms)))])
                elif k == 2:
                    yield "ctor", dict(base, form=forms[int(rng.integers(len(forms)))], target_zeros=True)
                else:
                    yield "threshold", dict(base)
    # fixed corner cases (doc-string examples and the extreme ends of the range)
    yield "set", {"n": [1, 1, 1], "scale": 1.0, "nvdim": 3, "zero_frac": 0.0, "dirs": "axis", "seed": 1, "form": "const", "target_zeros": False}
    yield "set", {"n": [2, 3, 2], "scale": 1e-9, "nvdim": 3, "zero_frac": 1.0, "dirs": "normal", "seed": 2, "form": "const", "target_zeros": False}
    yield "get", {"n": [4, 3], "scale": 1e-9, "nvdim": 4, "zero_frac": 0.3, "dirs": "mixed", "seed": 3, "unit": "A/m", "mask": True}
    yield "ctor", {"n": [3, 2, 2], "scale": 5e-9, "nvdim": 3, "zero_frac": 0.3, "dirs": "normal", "seed": 4, "form": "callable", "target_zeros": True}

    # ---- the same kinds over the dtype of the field (and of the target norm)
    dreps = 6 if ctx.tier == "quick" else 60
    tdts = ["float64", "int", "float32"]
    kinds = ["get", "set", "update", "ctor", "threshold"]
    for dname in ("complex128", "complex64", "float32", "int64", "int32"):
        for ndim in (1, 2, 3, 4):
            for nv in (1, 2, 3, 4):
                for _ in range(dreps):
                    j += 1
                    hi = 5 if ndim <= 2 else (4 if ndim == 3 else 3)
                    n = rng.integers(1, hi + 1, size=ndim).tolist()
                    base = {"n": n, "scale": float(10.0 ** rng.uniform(-9, 3)), "nvdim": nv,
                            "zero_frac": [0.0, 0.3, 0.15, 0.6, 0.3, 0.0, 0.6, 1.0][int(rng.integers(8))] if j % 11 else 0.3,
                            "dirs": ["normal", "axis", "mixed"][int(rng.integers(3))],
                            "seed": int(rng.integers(1 << 30)),
                            "dtype": dname, "declare": bool(rng.integers(4) != 0)}
                    form = forms[j % len(forms)]
                    tdt = tdts[int(rng.integers(3))]
                    # getter / orientation / product for every field, plus one of the mutating kinds
                    yield "get", dict(base, unit=[None, "A/m", "T"][int(rng.integers(3))], mask=bool(rng.integers(2)))
                    k = kinds[1 + j % 4]
                    if k == "threshold" and DTYPES[dname]["int"]:
                        k = "set"
                    if k == "set":
                        yield "set", dict(base, form=form, target_zeros=bool(rng.integers(2)), tdtype=tdt)
                    elif k == "update":
                        yield "update", dict(base, form=form, tdtype=tdt)
                    elif k == "ctor":
                        yield "ctor", dict(base, form=form, target_zeros=True, tdtype=tdt)
                    else:
                        yield "threshold", dict(base)
    # target dtype for the default float64 field
    for i in range(10 if ctx.tier == "quick" else 100):
        for tdt in ("int", "float32"):
            j += 1
            ndim = 1 + i % 4
            base = {"n": rng.integers(1, 4, size=ndim).tolist(), "scale": float(10.0 ** rng.uniform(-9, 3)), "nvdim": 1 + (i // 4) % 4,
                    "zero_frac": 0.3, "dirs": "normal", "seed": int(rng.integers(1 << 30)), "dtype": "float64", "declare": bool(i % 2)}
            yield "set", dict(base, form=forms[j % len(forms)], target_zeros=bool(rng.integers(2)), tdtype=tdt)
    # fixed corner cases: circular polarisation (2, 2i, 0): plain squares sum to zero, length sqrt(8)
    yield "get", {"n": [4, 2, 1], "scale": 1.0, "nvdim": 3, "zero_frac": 0.3, "dirs": "circular", "seed": 5, "dtype": "complex128", "declare": True, "unit": "T", "mask": False}
    yield "set", {"n": [4, 2, 1], "scale": 1.0, "nvdim": 3, "zero_frac": 0.3, "dirs": "circular", "seed": 6, "dtype": "complex128", "declare": True, "form": "const",
                  "target_zeros": False, "tdtype": "float64"}
    yield "set", {"n": [3, 2], "scale": 1e-9, "nvdim": 2, "zero_frac": 0.15, "dirs": "circular", "seed": 7, "dtype": "complex64", "declare": True, "form": "callable",
                  "target_zeros": False, "tdtype": "float64"}
    yield "ctor", {"n": [5], "scale": 1.0, "nvdim": 1, "zero_frac": 0.3, "dirs": "normal", "seed": 8, "dtype": "complex128", "declare": True, "form": "array",
                   "target_zeros": True, "tdtype": "float64"}


# ---------------------------------------------------------------------------------- construction
def _mesh(pr, rng):
    n = list(pr["n"])
    s = pr["scale"]
    cell = s * rng.uniform(0.5, 2.0, size=len(n))
    p1 = s * rng.uniform(-3, 3, size=len(n))
    return df.Mesh(p1=tuple(p1), p2=tuple(p1 + np.array(n) * cell), n=tuple(n))


def _lengths(rng, shape, lo=-6.0, hi=150.0):
    if (lo, hi) == (-6.0, 150.0):
        L = 10.0 ** rng.uniform(-6, 150, size=shape)
        pins = [1e-6, 1e150, 1.0, 1e-6, 1e150]
    else:
        L = 10.0 ** rng.uniform(lo + 0.01, hi - 0.01, size=shape)
        pins = [10.0 ** (lo + 0.01), 10.0 ** (hi - 0.01), 1.0, 10.0 ** (lo + 0.01), 10.0 ** (hi - 0.01)]
    flat = L.reshape(-1)
    # pin the end points and a mid value in some cells
    for i in range(min(len(flat), 2)):
        if rng.integers(2):
            flat[rng.integers(len(flat))] = pins[int(rng.integers(len(pins)))]
    return L


def _zero_cells(pr, rng, v):
    N = v.shape[0]
    zf = pr["zero_frac"]
    if zf >= 1.0:
        v[:] = 0
    elif zf > 0:
        z = rng.uniform(size=N) < zf
        if N > 1 and not z.any():
            z[int(rng.integers(N))] = True
        if z.all() and N > 1:
            z[int(rng.integers(N))] = False
        v[z] = 0
    return v


def _values(pr, rng):
    """(*n, nv) array in the dtype of the case: direction * length, some cells exactly zero"""
    prof = _prof(pr)
    if pr.get("dtype", "float64") != "float64":
        return _values_dt(pr, rng, prof)
    n, nv = list(pr["n"]), pr["nvdim"]
    N = int(np.prod(n))
    d = rng.normal(size=(N, nv))
    if pr["dirs"] in ("axis", "mixed"):
        sel = np.ones(N, bool) if pr["dirs"] == "axis" else rng.integers(0, 2, size=N).astype(bool)
        ax = rng.integers(0, nv, size=N)
        e = np.zeros((N, nv))
        e[np.arange(N), ax] = rng.choice([-1.0, 1.0], size=N)
        d[sel] = e[sel]
    dl = d.astype(LD)
    dl /= np.sqrt(np.sum(dl * dl, axis=1, keepdims=True))
    L = _lengths(rng, (N, 1))
    v = np.asarray(dl * L.astype(LD), dtype=float)
    # keep |v| within [1e-6, 1e150] after rounding to double
    ln = np.sqrt(np.sum(v.astype(LD) ** 2, axis=1))
    over = np.asarray(ln > LD(1e150)).nonzero()[0]
    v[over] *= (1 - 4 * EPS)
    under = np.asarray(ln < LD(1e-6)).nonzero()[0]
    v[under] *= (1 + 4 * EPS)
    return _zero_cells(pr, rng, v).reshape(*n, nv)


def _values_dt(pr, rng, prof):
    n, nv = list(pr["n"]), pr["nvdim"]
    N = int(np.prod(n))
    dirs = pr["dirs"]
    if prof["int"]:
        style = rng.integers(0, 3, size=(N, 1))
        small = rng.integers(-3, 4, size=(N, nv))
        medium = rng.integers(-1000, 1001, size=(N, nv))
        big = (rng.choice([-1, 1], size=(N, nv)) * np.floor(10.0 ** rng.uniform(prof["lo"], prof["hi"], size=(N, nv)))).astype(np.int64)
        v = np.where(style == 0, small, np.where(style == 1, medium, big)).astype(np.int64)
        if dirs in ("axis", "mixed"):
            sel = np.ones(N, bool) if dirs == "axis" else rng.integers(0, 2, size=N).astype(bool)
            keep = np.zeros((N, nv), bool)
            keep[np.arange(N), rng.integers(0, nv, size=N)] = True
            v[sel] = np.where(keep, v, 0)[sel]
        return _zero_cells(pr, rng, v).astype(prof["dt"]).reshape(*n, nv)
    if prof["cplx"]:
        d = rng.normal(size=(N, nv)) + 1j * rng.normal(size=(N, nv))
        # some purely real / purely imaginary components
        pure = rng.integers(0, 4, size=(N, nv))
        d = np.where(pure == 0, d.real + 0j, np.where(pure == 1, 1j * d.imag, d))
        theta = rng.uniform(0, 2 * np.pi, size=N)
        phases = np.stack([np.ones(N, complex), -np.ones(N, complex), 1j * np.ones(N), -1j * np.ones(N), np.exp(1j * theta)])
        ph = phases[rng.integers(0, 5, size=N), np.arange(N)]
    else:
        d = rng.normal(size=(N, nv))
        ph = rng.choice([-1.0, 1.0], size=N)
    if dirs in ("axis", "mixed", "circular"):
        sel = rng.integers(0, 2, size=N).astype(bool) if dirs == "mixed" else np.ones(N, bool)
        e = np.zeros((N, nv), dtype=d.dtype)
        ax = rng.integers(0, nv, size=N)
        e[np.arange(N), ax] = ph
        circ = np.zeros(N, bool)
        if prof["cplx"] and nv >= 2:
            # circularly polarised cells: (a, +-i a) on two different axes; sum of plain squares is 0
            circ = np.ones(N, bool) if dirs == "circular" else rng.integers(0, 2, size=N).astype(bool)
            ax2 = (ax + 1 + rng.integers(0, nv - 1, size=N)) % nv
            c = e.copy()
            c[np.arange(N), ax2] = ph * rng.choice([1j, -1j], size=N)
            e[circ] = c[circ]
        d[sel] = e[sel]
    # normalise in extended precision (real and imaginary parts), scale, round to the field dtype
    re, im = np.real(d).astype(LD), np.imag(d).astype(LD)
    nrm = np.sqrt(np.sum(re * re + im * im, axis=1, keepdims=True))
    L = _lengths(rng, (N, 1), prof["lo"], prof["hi"]).astype(LD)
    re, im = re / nrm * L, im / nrm * L
    if prof["cplx"]:
        v = (np.asarray(re, dtype=float) + 1j * np.asarray(im, dtype=float)).astype(prof["dt"])
    else:
        v = np.asarray(re, dtype=float).astype(prof["dt"])
    # keep |v| within [10^lo, 10^hi] after rounding to the field dtype
    ln = _len_ld(v)[..., 0]
    over = np.asarray(ln > LD(10.0) ** LD(prof["hi"])).nonzero()[0]
    v[over] *= prof["dt"](1 - 4 * prof["eps"])
    under = np.asarray(ln < LD(10.0) ** LD(prof["lo"])).nonzero()[0]
    v[under] *= prof["dt"](1 + 4 * prof["eps"])
    return _zero_cells(pr, rng, v).reshape(*n, nv)


def _targets(pr, rng):
    """per-cell table (*n,1) of target norms as float64 (exactly representable in the target dtype `tdtype`)"""
    n = list(pr["n"])
    prof = _prof(pr)
    tdt = pr.get("tdtype", "float64")
    if pr.get("dtype", "float64") == "float64" and tdt == "float64":
        t = _lengths(rng, (*n, 1))
    else:
        lo, hi = (prof["lo"], prof["hi"]) if not prof["int"] else (-6.0, 6.0)
        if tdt == "int":
            lo, hi = 0.0, min(hi, 15.0)
        elif tdt == "float32":
            hi = min(hi, 37.0)
        t = _lengths(rng, (*n, 1), lo, hi)
        if tdt == "int":
            t = np.maximum(np.floor(t), 1.0)
        elif tdt == "float32":
            t = t.astype(np.float32).astype(np.float64)
    if pr.get("form") == "const":
        t = np.full((*n, 1), float(t.reshape(-1)[0]))
        if pr.get("target_zeros") and rng.integers(4) == 0:
            t[:] = 0.0
        return t
    if pr.get("target_zeros"):
        z = rng.uniform(size=t.shape) < 0.35
        if t.size > 1 and not z.any():
            z.reshape(-1)[int(rng.integers(t.size))] = True
        t[z] = 0.0
    return t


def _spec(form, t, mesh, tdt="float64"):
    """the norm specification handed to the library for the per-cell table t (*n,1), with entries of dtype tdt"""
    cast = {"float64": np.float64, "float32": np.float32, "int": np.int64}[tdt]
    scalar = {"float64": float, "float32": np.float32, "int": int}[tdt]
    if form == "const":
        return scalar(t.reshape(-1)[0])
    if form == "array":
        return t.astype(cast)
    if form == "array_flat":
        return t[..., 0].astype(cast)
    pmin = np.asarray(mesh.region.pmin, dtype=float)
    cell = np.asarray(mesh.cell, dtype=float)
    n = np.asarray(mesh.n)

    def fun(p):
        idx = np.clip(np.floor((np.asarray(p, dtype=float).reshape(-1) - pmin) / cell).astype(int), 0, n - 1)
        return scalar(t[tuple(idx)][0])
    if form == "callable":
        return fun
    if form == "field":
        if tdt == "float64":
            return df.Field(mesh, nvdim=1, value=t.copy())
        return df.Field(mesh, nvdim=1, value=t.astype(cast), dtype=cast)
    raise ValueError(form)


def _field(pr, mesh, value, **kw):
    """the field of the case: dtype= given (`declare`) or left to the constructor's inference from the value array"""
    if pr.get("dtype", "float64") == "float64" and not pr.get("declare"):
        return df.Field(mesh, nvdim=pr["nvdim"], value=value, **kw)
    if pr.get("declare", True):
        return df.Field(mesh, nvdim=pr["nvdim"], value=value, dtype=_prof(pr)["dt"], **kw)
    return df.Field(mesh, nvdim=pr["nvdim"], value=value, **kw)


# ---------------------------------------------------------------------------------- oracles
def _parts(v):
    """extended-precision real view: (..., nv, 1) for real arrays, (..., nv, 2) = (re, im) for complex arrays"""
    a = np.asarray(v)
    if np.iscomplexobj(a):
        return np.stack([a.real.astype(LD), a.imag.astype(LD)], axis=-1)
    return a.astype(LD)[..., None]


def _len_ld(v):
    """sqrt(sum_i |v_i|^2) = sqrt(sum_i re_i^2 + im_i^2) in extended precision, shape (..., 1)"""
    x = _parts(v)
    return np.sqrt(np.sum(x * x, axis=(-1, -2)))[..., None]


def _scaled(v, factor):
    """parts of v * factor for a REAL per-cell factor (..., 1) in extended precision"""
    return _parts(v) * np.asarray(factor).astype(LD)[..., None]


def _rel_ok(got, want_parts, ulps, eps=EPS):
    """|got - want| <= ulps*eps*|want| elementwise on real and imaginary parts (want: extended precision parts)"""
    g = _parts(got)
    if g.shape != want_parts.shape:       # e.g. a complex result where a real one is expected, or vice versa
        if g.shape[-1] == 2 and want_parts.shape[-1] == 1:
            want_parts = np.concatenate([want_parts, np.zeros_like(want_parts)], axis=-1)
        elif g.shape[-1] == 1 and want_parts.shape[-1] == 2:
            g = np.concatenate([g, np.zeros_like(g)], axis=-1)
        else:
            return np.zeros(1, bool)
    return np.abs(g - want_parts) <= ulps * LD(eps) * np.abs(want_parts)


def _worst(got, want_parts, eps=EPS):
    g = _parts(got)
    w = np.asarray(want_parts).astype(LD)
    if g.shape != w.shape:
        if g.shape[-1] == 2 and w.shape[-1] == 1:
            w = np.concatenate([w, np.zeros_like(w)], axis=-1)
        elif g.shape[-1] == 1 and w.shape[-1] == 2:
            g = np.concatenate([g, np.zeros_like(g)], axis=-1)
        else:
            return None
    with np.errstate(all="ignore"):
        r = np.abs(g - w) / (LD(eps) * np.abs(w))
    r = np.where(np.abs(w) == 0, np.where(g == 0, 0, np.inf), r)
    return float(np.max(r)) if r.size else 0.0


def _check_after_set(ctx, arr, old, t, what, declared=None):
    """clauses length / direction / zero_stays_zero / dtype_kept for array `arr` obtained from `old` (the array as it was
    stored before) with per-cell target t (*n,1)"""
    nv = old.shape[-1]
    prof = _prof_of(old)
    eps = prof["eps"]
    L = _len_ld(old)
    nz = np.asarray(L[..., 0] != 0)
    tz = np.asarray(t[..., 0] == 0)
    ctx.require(arr.dtype == old.dtype and (declared is None or arr.dtype == np.dtype(declared)), "C15.dtype_kept",
                "%s: the array dtype changed when the norm was set" % what, before=str(old.dtype), after=str(arr.dtype), declared=str(declared))
    shape_ok = arr.shape == old.shape
    ctx.require(shape_ok and bool(np.all(np.isfinite(arr))), "C15.length", "%s: array shape/finite" % what, shape=arr.shape, dtype=str(arr.dtype))
    if not shape_ok:
        return
    # zero cells
    ctx.require(bool(np.all(arr[~nz] == 0)), "C15.zero_stays_zero", "%s: a zero vector did not stay zero" % what, got=arr[~nz][:4])
    ctx.require(bool(np.all(arr[tz] == 0)), "C15.zero_stays_zero", "%s: target norm 0 did not give a zero vector" % what, got=arr[tz][:4])
    # lengths
    newL = _len_ld(arr)[..., 0]
    tt = t[..., 0].astype(LD)
    if nv == 1 and not np.iscomplexobj(arr) and not np.iscomplexobj(old):
        with np.errstate(all="ignore"):
            okl = np.asarray(np.abs(arr[..., 0]) == t[..., 0].astype(old.dtype)) & np.asarray(np.abs(newL - tt) <= 8 * LD(eps) * tt)
    else:
        okl = np.asarray(np.abs(newL - tt) <= 8 * LD(eps) * tt)
    ctx.require(bool(np.all(okl[nz])), "C15.length", "%s: length after setting the norm differs from the target" % what,
                worst_ulps=_worst(newL[nz][..., None], tt[nz][..., None, None], eps), nvdim=nv, dtype=str(old.dtype),
                got=np.asarray(newL[nz], dtype=float)[:4], want=np.asarray(tt[nz], dtype=float)[:4])
    # direction: component-wise, real and imaginary parts scaled by the same real factor t/|old|
    sel = nz & ~tz
    with np.errstate(all="ignore"):
        want = _scaled(old, t.astype(LD) / L)
    ctx.require(bool(np.all(_rel_ok(arr[sel], want[sel], 8, eps))), "C15.direction", "%s: components differ from old/|old|*t" % what,
                worst_ulps=_worst(arr[sel], want[sel], eps), dtype=str(old.dtype), got=arr[sel][:2], old=old[sel][:2])


def _refused_cleanly(ctx, r, e, now, before, what):
    """integer fields: a raised norm assignment must be a TypeError / ValueError that left the array untouched"""
    ctx.require(isinstance(e, (TypeError, ValueError)) and now.dtype == before.dtype and np.array_equal(now, before), "C15.dtype_kept",
                "%s: norm assignment on an integer field raised but is not a clean refusal (TypeError/ValueError, array untouched)" % what,
                sig="int-norm-refusal-not-clean", error=repr(e), before=before.reshape(-1)[:6], after=now.reshape(-1)[:6])


# ---------------------------------------------------------------------------------- checks
def check(kind, pr, ctx):
    rng = np.random.default_rng(pr["seed"])
    mesh = _mesh(pr, rng)
    n, nv = list(pr["n"]), pr["nvdim"]
    prof = _prof(pr)
    tdt = pr.get("tdtype", "float64")
    declared = prof["dt"] if pr.get("declare", "dtype" not in pr) and "dtype" in pr else None
    old = _values(pr, rng)
    if not np.any(old) and kind != "threshold":
        ctx.trivial()
    if kind == "get":
        check_get(pr, ctx, mesh, old, rng)
        return
    if kind == "threshold":
        N = int(np.prod(n))
        lens = np.where(rng.integers(0, 2, size=N).astype(bool), 10.0 ** rng.uniform(prof["tlo"], np.log10(8e-9), size=N),
                        10.0 ** rng.uniform(np.log10(1.2e-8), -7, size=N))
        d = rng.normal(size=(N, nv)).astype(LD)
        di = rng.normal(size=(N, nv)).astype(LD) if prof["cplx"] else LD(0) * d
        nrm = np.sqrt(np.sum(d * d + di * di, axis=1, keepdims=True))
        re = np.asarray(d / nrm * lens[:, None].astype(LD), dtype=float)
        im = np.asarray(di / nrm * lens[:, None].astype(LD), dtype=float)
        v = ((re + 1j * im) if prof["cplx"] else re).astype(prof["dt"]).reshape(*n, nv)
        z = rng.uniform(size=N) < 0.2
        v.reshape(N, nv)[z] = 0
        f = _field(pr, mesh, v.copy())
        if not np.array_equal(f.array, v):
            ctx.trivial()
            return
        _check_orientation(ctx, f, f.array.copy(), "threshold")
        return
    # ---- mutating kinds: the field as the constructor stores it (dtype declared or inferred)
    f = _field(pr, mesh, old.copy())
    stored = f.array.copy()
    sprof = _prof_of(stored)
    ok_stored = sprof is not None and stored.shape == old.shape and np.array_equal(stored, old) and (declared is None or stored.dtype == np.dtype(declared))
    ctx.require(ok_stored, "C15.dtype_kept", "Field(value=array%s) does not store the given values / dtype" % (", dtype=" + pr.get("dtype", "") if declared else ""),
                sig="ctor-values-not-stored", got=str(stored.dtype), declared=str(declared))
    if not ok_stored:
        return
    integer = sprof["int"]
    if kind == "set":
        t = _targets(pr, rng)
        r, e = raises(Exception, setattr, f, "norm", _spec(pr["form"], t, mesh, tdt))
        if r and integer:
            _refused_cleanly(ctx, r, e, f.array, stored, "setter/" + pr["form"])
            return
        ctx.require(not r, "C15.spec_forms", "setting the norm (%s, %s entries) raised" % (pr["form"], tdt),
                    sig="norm-setter-raises-" + pr["form"] + ("" if tdt == "float64" else "-" + tdt), error=repr(e) if r else None)
        if r:
            return
        _check_after_set(ctx, f.array, stored, t, "setter/" + pr["form"], declared)
        # the same table as a plain float64 (*n,1) array gives the identical result
        g = _field(pr, mesh, old.copy())
        r, e = raises(Exception, setattr, g, "norm", t.copy())
        ctx.require(not r and np.array_equal(f.array, g.array) and f.array.dtype == g.array.dtype, "C15.spec_forms",
                    "norm given as %s (%s entries) differs from the equivalent per-cell float64 array" % (pr["form"], tdt), error=repr(e) if r else None)
        # setting it a second time (different target) starts from the current direction, zero stays zero
        t2 = _targets(dict(pr, form="array", target_zeros=False), rng)
        was = f.array.copy()
        r, e = raises(Exception, setattr, f, "norm", t2)
        ctx.require(not r, "C15.spec_forms", "setting the norm a second time raised", sig="second-norm-setter-raises", error=repr(e) if r else None)
        if not r:
            _check_after_set(ctx, f.array, was, t2, "second setter", declared)
    elif kind == "update":
        t = _targets(dict(pr, target_zeros=False), rng)
        r, e = raises(Exception, setattr, f, "norm", _spec(pr["form"], t, mesh, tdt))
        if r and integer:
            _refused_cleanly(ctx, r, e, f.array, stored, "setter before update")
        else:
            ctx.require(not r, "C15.spec_forms", "setting the norm (%s, %s entries) raised" % (pr["form"], tdt),
                        sig="norm-setter-raises-" + pr["form"] + ("" if tdt == "float64" else "-" + tdt), error=repr(e) if r else None)
            if r:
                return
        eps = sprof["eps"]
        w = _values(dict(pr, zero_frac=0.3), rng).astype(stored.dtype)
        f.update_field_values(w.copy())
        # (a field without dtype= infers the array dtype anew from every value it is given, so the dtype is only demanded when declared)
        dt_ok = (lambda a: declared is None or a.dtype == np.dtype(declared))
        ctx.require(np.array_equal(f.array, w) and dt_ok(f.array), "C15.no_reapply",
                    "update_field_values after a norm assignment does not store the given values")
        ctx.require(bool(np.all(_rel_ok(f.norm.array, _len_ld(w)[..., None], 4, eps))), "C15.no_reapply", "norm after the update is not |w|")
        w2 = _values(dict(pr, zero_frac=0.0), rng).astype(stored.dtype)
        f.array = w2.copy()
        ctx.require(np.array_equal(f.array, w2) and dt_ok(f.array), "C15.no_reapply",
                    "array assignment after a norm assignment does not store the given values")
        if integer:
            cv = [int(x) for x in rng.integers(-9, 10, size=nv)]
        elif sprof["cplx"]:
            cv = [complex(x, y) for x, y in zip(rng.normal(size=nv), rng.normal(size=nv))]
        else:
            cv = [float(x) for x in rng.normal(size=nv)]
        const = tuple(cv) if nv > 1 else cv[0]
        f.update_field_values(const)
        wantc = np.asarray(cv).astype(declared) if declared is not None else np.asarray(cv)
        ctx.require(np.array_equal(f.array, np.broadcast_to(wantc, (*n, nv))) and dt_ok(f.array), "C15.no_reapply",
                    "constant value after a norm assignment is rescaled", got=f.array.reshape(-1)[:4], want=wantc)
    elif kind == "ctor":
        t = _targets(pr, rng)
        kw = {"dtype": declared} if declared is not None else {}
        r, f = raises(Exception, df.Field, mesh, nvdim=nv, value=old.copy(), norm=_spec(pr["form"], t, mesh, tdt), valid="norm", **kw)
        if r and integer:
            ctx.require(isinstance(f, (TypeError, ValueError)), "C15.dtype_kept", "constructor of an integer field with norm= raised something else than TypeError / ValueError",
                        sig="int-norm-refusal-not-clean", error=repr(f))
            return
        ctx.require(not r, "C15.constructor_order", "Field(value=, norm=, valid='norm') raised", sig="ctor-raises", error=repr(f) if r else None)
        if r:
            return
        _check_after_set(ctx, f.array, stored, t, "constructor/" + pr["form"], declared)
        g = _field(pr, mesh, old.copy())
        g.norm = t.copy()
        ctx.require(np.array_equal(f.array, g.array) and f.array.dtype == g.array.dtype, "C15.constructor_order", "constructor with norm= differs from value then setter")
        wantv = np.asarray(_len_ld(f.array)[..., 0] > LD(1e-8))
        wantv_exact = np.asarray((_len_ld(stored)[..., 0] != 0) & (t[..., 0] != 0))
        ctx.require(f.valid.shape == tuple(n) and f.valid.dtype == bool and np.array_equal(f.valid, wantv) and np.array_equal(wantv, wantv_exact),
                    "C15.constructor_order", "valid='norm' is not derived from the normalised values",
                    got=f.valid, want=wantv, before_norm=np.asarray(_len_ld(stored)[..., 0] > 1e-8))
        # callable value + norm : value evaluated first, then normalised (a callable value needs dtype= for anything but float64)
        tab = stored

        def vfun(p):
            idx = np.clip(np.floor((np.asarray(p, dtype=float).reshape(-1) - np.asarray(mesh.region.pmin)) / np.asarray(mesh.cell)).astype(int), 0, np.array(n) - 1)
            return tab[tuple(idx)]
        c = float(t.reshape(-1)[0]) if t.reshape(-1)[0] != 0 else 3.0
        kw = {} if stored.dtype == np.float64 and declared is None else {"dtype": stored.dtype}
        r, h = raises(Exception, df.Field, mesh, nvdim=nv, value=vfun, norm=c, **kw)
        ctx.require(not r, "C15.constructor_order", "Field(value=callable, norm=constant) raised", sig="ctor-raises", error=repr(h) if r else None)
        if not r:
            _check_after_set(ctx, h.array, stored, np.full((*n, 1), c), "constructor/callable value + constant norm", kw.get("dtype"))


def _check_orientation(ctx, f, v, what):
    """v: the array the field holds"""
    prof = _prof_of(v)
    eps = prof["eps"]
    r, o = raises(Exception, lambda: f.orientation)
    if r and prof["int"]:
        # genuine defect of the unchanged library, kept as a violation under its own signature
        ctx.require(False, "C15.orientation", "%s: orientation of an integer-dtype field raised" % what, sig="orientation-raises-int-dtype", error=repr(o), dtype=str(v.dtype))
        return None
    ctx.require(not r, "C15.orientation", "%s: orientation raised" % what, sig="orientation-raises", error=repr(o) if r else None)
    if r:
        return None
    L = _len_ld(v)
    big = np.asarray(L[..., 0] > LD(1e-8))
    oa = o.array
    ok_shape = oa.shape == v.shape and o.nvdim == f.nvdim and o.mesh == f.mesh
    ctx.require(ok_shape, "C15.orientation", "%s: orientation shape / nvdim / mesh" % what)
    if not ok_shape:
        return None
    ctx.require(bool(np.all(oa[~big] == 0)), "C15.orientation", "%s: orientation is not zero where the length is <= 1e-8" % what,
                lengths=np.asarray(L[..., 0][~big], dtype=float)[:6], got=oa[~big][:3])
    with np.errstate(all="ignore"):
        want = _scaled(v, LD(1) / L)
    ctx.require(bool(np.all(_rel_ok(oa[big], want[big], 4, eps))), "C15.orientation", "%s: orientation differs from v/|v|" % what,
                worst_ulps=_worst(oa[big], want[big], eps), dtype=str(v.dtype), got=oa[big][:2], v=v[big][:2])
    ol = _len_ld(oa)[..., 0]
    ctx.require(bool(np.all(np.abs(ol[big] - 1) <= 4 * LD(eps))), "C15.orientation", "%s: orientation is not of unit length" % what,
                got=np.asarray(ol[big], dtype=float)[:4], dtype=str(v.dtype))
    return o


def check_get(pr, ctx, mesh, old, rng):
    n, nv = list(pr["n"]), pr["nvdim"]
    mask = rng.integers(0, 2, size=tuple(n)).astype(bool) if pr["mask"] else True
    f = _field(pr, mesh, old.copy(), unit=pr["unit"], valid=mask)
    old = f.array.copy()          # the values as stored (dtype declared or inferred)
    prof = _prof_of(old)
    if prof is None:
        ctx.trivial()
        return
    eps = prof["eps"]
    r, nf = raises(Exception, lambda: f.norm)
    ctx.require(not r, "C15.norm_values", "norm getter raised", sig="norm-getter-raises", error=repr(nf) if r else None)
    if r:
        return
    ok_shape = isinstance(nf, df.Field) and nf.nvdim == 1 and nf.array.shape == (*n, 1)
    ctx.require(ok_shape, "C15.norm_meta", "norm is not a one-component field of shape (*n,1)", got=getattr(nf.array, "shape", None))
    if not ok_shape:
        return
    L = _len_ld(old)
    real = nf.array.dtype.kind == "f"
    ctx.require(real, "C15.norm_real", "the norm of a %s field is not a real floating array" % old.dtype, got=str(nf.array.dtype), sample=nf.array.reshape(-1)[:4])
    na = nf.array
    if nv == 1 and not prof["cplx"]:
        ctx.require(real and np.array_equal(na, np.abs(old).astype(np.float64)), "C15.norm_values", "norm of a scalar field is not |v|")
    else:
        ctx.require(bool(np.all(_rel_ok(na, L[..., None], 4, eps))), "C15.norm_values", "norm differs from sqrt(sum |v_i|^2)", worst_ulps=_worst(na, L[..., None], eps),
                    dtype=str(old.dtype), got=na.reshape(-1)[:4], want=np.asarray(L, dtype=float).reshape(-1)[:4])
    with np.errstate(all="ignore"):
        nonneg = bool(np.all(np.real(na) >= 0)) and bool(np.all(np.imag(na) == 0))
    ctx.require(bool(np.all(na[np.asarray(L == 0)] == 0)) and nonneg, "C15.norm_real", "norm of a zero cell is not 0 / negative or non-real norm",
                got=na.reshape(-1)[:4])
    ctx.require(nf.mesh == f.mesh and list(nf.mesh.region.dims) == list(f.mesh.region.dims) and list(nf.mesh.region.units) == list(f.mesh.region.units)
                and np.array_equal(nf.mesh.n, f.mesh.n), "C15.norm_meta", "norm field lives on a different mesh")
    ctx.require(nf.unit == pr["unit"], "C15.norm_meta", "norm field has a different unit", got=nf.unit, want=pr["unit"])
    wantvalid = np.broadcast_to(np.asarray(mask, dtype=bool), tuple(n))
    ctx.require(np.array_equal(f.valid, wantvalid) and nf.valid.shape == tuple(n) and np.array_equal(nf.valid, wantvalid), "C15.norm_meta",
                "norm field has a different validity mask")
    ctx.require(np.array_equal(f.array, old) and f.array.dtype == old.dtype, "C15.norm_values", "reading the norm changed the field")
    o = _check_orientation(ctx, f, old, "get")
    if o is None:
        return
    r, p = raises(Exception, lambda: o * nf)
    ctx.require(not r, "C15.orientation_times_norm", "orientation * norm raised", sig="orientation-times-norm-raises", error=repr(p) if r else None)
    if not r:
        ok = p.array.shape == old.shape
        ctx.require(ok and bool(np.all(_rel_ok(p.array, _parts(old), 4, eps))), "C15.orientation_times_norm",
                    "orientation * norm does not reproduce the field", worst_ulps=_worst(p.array, _parts(old), eps) if ok else None, dtype=str(old.dtype),
                    got=p.array.reshape(-1)[:4], want=old.reshape(-1)[:4])
    ctx.require(np.array_equal(f.array, old) and f.array.dtype == old.dtype, "C15.orientation", "reading the orientation changed the field")
