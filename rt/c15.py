"""C15 bounded run-time tier: Field.norm (getter / setter), Field.orientation, Field(..., norm=...)
against per-cell oracles computed in extended precision from the property statement.
Bounded: meshes of 1-4 dimensions with <= 5 cells per axis, 1-4 components, lengths 1e-6..1e150 + exact zeros."""
import numpy as np
import discretisedfield as df
from .common import raises

PROPERTY = "C15"
EPS = np.finfo(float).eps
CLAUSES = {
    "C15.length": "after `f.norm = t` every cell whose vector was non-zero has length t(cell) (8 ulp of t; exactly |t| for one-component fields); the array stays finite",
    "C15.direction": "after `f.norm = t` (t != 0) every component equals old_i/|old| * t (8 ulp of that component), i.e. the direction is unchanged incl. signs and zero components",
    "C15.zero_stays_zero": "cells whose vector was exactly zero are exactly zero after the norm is set (no NaN/inf), whatever t; cells with t == 0 become exactly zero",
    "C15.norm_values": "f.norm.array[cell] == sqrt(sum_i v_i^2) (4 ulp; == |v| exactly for one-component fields), shape (*n, 1)",
    "C15.norm_meta": "f.norm is a Field with nvdim 1 on the same mesh (equal, dims/units included), the field's unit and the field's validity mask",
    "C15.orientation": "orientation: o_i == v_i/|v| (4 ulp per component) and | |o| - 1 | <= 4 eps wherever |v| > 1e-8; exactly zero where |v| <= 1e-8 (exact zeros and sub-threshold lengths); same mesh and nvdim",
    "C15.orientation_times_norm": "(f.orientation * f.norm).array == f.array (4 ulp per component) for lengths in 1e-6..1e150 and exact zeros",
    "C15.no_reapply": "after `f.norm = t`, `f.update_field_values(w)` / `f.array = w` store w exactly (the earlier norm is not re-applied) and f.norm reports |w|",
    "C15.constructor_order": "Field(mesh, nvdim, value=v, norm=t, valid='norm'): values first, then the norm (array == v/|v|*t as for the setter), then validity from the *normalised* values (valid == (|result| > 1e-8))",
    "C15.spec_forms": "constant, per-cell array (*n,1) or (*n,), function of position and Field give the same result as the equivalent per-cell array",
}
RULE = ("seeded fields: mesh 1-4 dimensions, 1..5 cells per axis, random geometry scale; 1-4 components; per cell a random direction (normal, "
        "axis-aligned with zero components, or sign-only for scalars) times a length log-uniform in [1e-6, 1e150] (end points included in some cells), "
        "a seeded fraction of exactly-zero cells (also all-zero and no-zero fields); target norms: constant, per-cell array (both shapes), function of "
        "position (per-cell table looked up from the point), Field; targets log-uniform in [1e-6, 1e150], optionally zero in places; kinds: set (setter), "
        "get (getter, orientation, product, metadata with unit/valid mask), update (no re-application), ctor (constructor order), threshold "
        "(orientation around the 1e-8 threshold: lengths 1e-100..9e-9 and 1.2e-8..1e-7); trivial = field without any non-zero cell; distinct by (kind, params)")
ASSUMPTIONS = [
    "bounded: <= 5 cells per axis, 1-4 dimensions, 1-4 components, seeded data",
    "lengths restricted to {0} U [1e-6, 1e150] as in the property (threshold kind: down to 1e-100 for the orientation clause only); real float64 fields",
    "oracle in numpy longdouble (falls back to double where longdouble == double; squares do not overflow in the stated range)",
    "lengths within 20% of the 1e-8 orientation threshold are not sampled",
    "negative / NaN target norms and dict (subregion) norm specifications are not exercised",
]
LD = np.longdouble


# ---------------------------------------------------------------------------------- enumeration
def cases(ctx):
    rng = ctx.rng
    reps = 25 if ctx.tier == "quick" else 300
    forms = ["const", "array", "array_flat", "callable", "field"]
    j = 0
    for ndim in (1, 2, 3, 4):
        for nv in (1, 2, 3, 4):
            for _ in range(reps):
                j += 1
                hi = 5 if ndim <= 2 else (4 if ndim == 3 else 3)
                n = rng.integers(1, hi + 1, size=ndim).tolist()
                if j % 7 == 0:
                    n = [max(k, 2) for k in n]
                base = {"n": n, "scale": float(10.0 ** rng.uniform(-9, 3)), "nvdim": nv,
                        "zero_frac": [0.0, 0.3, 0.15, 0.6, 0.3, 0.0, 0.6, 1.0][int(rng.integers(8))] if j % 11 else 0.3,
                        "dirs": ["normal", "axis", "mixed"][int(rng.integers(3))],
                        "seed": int(rng.integers(1 << 30))}
                form = forms[j % len(forms)]
                tz = bool(rng.integers(2))
                yield "set", dict(base, form=form, target_zeros=tz)
                k = j % 4
                if k == 0:
                    yield "get", dict(base, unit=[None, "A/m", "T"][int(rng.integers(3))], mask=bool(rng.integers(2)))
                elif k == 1:
                    yield "update", dict(base, form=forms[int(rng.integers(len(forms)))])
                elif k == 2:
                    yield "ctor", dict(base, form=forms[int(rng.integers(len(forms)))], target_zeros=True)
                else:
                    yield "threshold", dict(base)
    # fixed corner cases (doc-string examples and the extreme ends of the range)
    yield "set", {"n": [1, 1, 1], "scale": 1.0, "nvdim": 3, "zero_frac": 0.0, "dirs": "axis", "seed": 1, "form": "const", "target_zeros": False}
    yield "set", {"n": [2, 3, 2], "scale": 1e-9, "nvdim": 3, "zero_frac": 1.0, "dirs": "normal", "seed": 2, "form": "const", "target_zeros": False}
    yield "get", {"n": [4, 3], "scale": 1e-9, "nvdim": 4, "zero_frac": 0.3, "dirs": "mixed", "seed": 3, "unit": "A/m", "mask": True}
    yield "ctor", {"n": [3, 2, 2], "scale": 5e-9, "nvdim": 3, "zero_frac": 0.3, "dirs": "normal", "seed": 4, "form": "callable", "target_zeros": True}


# ---------------------------------------------------------------------------------- construction
def _mesh(pr, rng):
    n = list(pr["n"])
    s = pr["scale"]
    cell = s * rng.uniform(0.5, 2.0, size=len(n))
    p1 = s * rng.uniform(-3, 3, size=len(n))
    return df.Mesh(p1=tuple(p1), p2=tuple(p1 + np.array(n) * cell), n=tuple(n))


def _lengths(rng, shape):
    L = 10.0 ** rng.uniform(-6, 150, size=shape)
    flat = L.reshape(-1)
    # pin the end points and a mid value in some cells
    pins = [1e-6, 1e150, 1.0, 1e-6, 1e150]
    for i in range(min(len(flat), 2)):
        if rng.integers(2):
            flat[rng.integers(len(flat))] = pins[int(rng.integers(len(pins)))]
    return L


def _values(pr, rng):
    """(*n, nv) array: direction * length, some cells exactly zero"""
    n, nv = list(pr["n"]), pr["nvdim"]
    N = int(np.prod(n))
    d = rng.normal(size=(N, nv))
    if pr["dirs"] in ("axis", "mixed"):
        sel = np.ones(N, bool) if pr["dirs"] == "axis" else rng.integers(0, 2, size=N).astype(bool)
        ax = rng.integers(0, nv, size=N)
        e = np.zeros((N, nv))
        e[np.arange(N), ax] = rng.choice([-1.0, 1.0], size=N)
        d[sel] = e[sel]
    dl = d.astype(LD)
    dl /= np.sqrt(np.sum(dl * dl, axis=1, keepdims=True))
    L = _lengths(rng, (N, 1))
    v = np.asarray(dl * L.astype(LD), dtype=float)
    # keep |v| within [1e-6, 1e150] after rounding to double
    ln = np.sqrt(np.sum(v.astype(LD) ** 2, axis=1))
    over = np.asarray(ln > LD(1e150)).nonzero()[0]
    v[over] *= (1 - 4 * EPS)
    under = np.asarray(ln < LD(1e-6)).nonzero()[0]
    v[under] *= (1 + 4 * EPS)
    zf = pr["zero_frac"]
    if zf >= 1.0:
        v[:] = 0.0
    elif zf > 0:
        z = rng.uniform(size=N) < zf
        if N > 1 and not z.any():
            z[int(rng.integers(N))] = True
        if z.all() and N > 1:
            z[int(rng.integers(N))] = False
        v[z] = 0.0
    return v.reshape(*n, nv)


def _targets(pr, rng):
    n = list(pr["n"])
    t = _lengths(rng, (*n, 1))
    if pr.get("form") == "const":
        t = np.full((*n, 1), float(t.reshape(-1)[0]))
        if pr.get("target_zeros") and rng.integers(4) == 0:
            t[:] = 0.0
        return t
    if pr.get("target_zeros"):
        z = rng.uniform(size=t.shape) < 0.35
        if t.size > 1 and not z.any():
            z.reshape(-1)[int(rng.integers(t.size))] = True
        t[z] = 0.0
    return t


def _spec(form, t, mesh):
    """the norm specification handed to the library for the per-cell table t (*n,1)"""
    if form == "const":
        return float(t.reshape(-1)[0])
    if form == "array":
        return t.copy()
    if form == "array_flat":
        return t[..., 0].copy()
    pmin = np.asarray(mesh.region.pmin, dtype=float)
    cell = np.asarray(mesh.cell, dtype=float)
    n = np.asarray(mesh.n)

    def fun(p):
        idx = np.clip(np.floor((np.asarray(p, dtype=float).reshape(-1) - pmin) / cell).astype(int), 0, n - 1)
        return t[tuple(idx)][0]
    if form == "callable":
        return fun
    if form == "field":
        return df.Field(mesh, nvdim=1, value=t.copy())
    raise ValueError(form)


# ---------------------------------------------------------------------------------- oracles
def _len_ld(v):
    x = np.asarray(v).astype(LD)
    return np.sqrt(np.sum(x * x, axis=-1, keepdims=True))


def _rel_ok(got, want, ulps):
    """|got - want| <= ulps*eps*|want| elementwise (want in extended precision)"""
    got = np.asarray(got).astype(LD)
    want = np.asarray(want).astype(LD)
    return np.abs(got - want) <= ulps * LD(EPS) * np.abs(want)


def _worst(got, want):
    got = np.asarray(got).astype(LD)
    want = np.asarray(want).astype(LD)
    with np.errstate(all="ignore"):
        r = np.abs(got - want) / (LD(EPS) * np.abs(want))
    r = np.where(np.abs(want) == 0, np.where(got == 0, 0, np.inf), r)
    return float(np.max(r)) if r.size else 0.0


def _check_after_set(ctx, arr, old, t, what):
    """clauses length / direction / zero_stays_zero for array `arr` obtained from `old` with per-cell target t (*n,1)"""
    nv = old.shape[-1]
    L = _len_ld(old)
    nz = np.asarray(L[..., 0] != 0)
    tz = np.asarray(t[..., 0] == 0)
    shape_ok = arr.shape == old.shape and arr.dtype == np.float64
    ctx.require(shape_ok and bool(np.all(np.isfinite(arr))), "C15.length", "%s: array shape/dtype/finite" % what, shape=arr.shape, dtype=str(arr.dtype))
    if not shape_ok:
        return
    # zero cells
    ctx.require(bool(np.all(arr[~nz] == 0.0)), "C15.zero_stays_zero", "%s: a zero vector did not stay zero" % what, got=arr[~nz][:4])
    ctx.require(bool(np.all(arr[tz] == 0.0)), "C15.zero_stays_zero", "%s: target norm 0 did not give a zero vector" % what, got=arr[tz][:4])
    # lengths
    newL = _len_ld(arr)[..., 0]
    tt = t[..., 0].astype(LD)
    if nv == 1:
        okl = np.asarray(np.abs(arr[..., 0]) == t[..., 0])
    else:
        okl = np.asarray(np.abs(newL - tt) <= 8 * LD(EPS) * tt)
    ctx.require(bool(np.all(okl[nz])), "C15.length", "%s: length after setting the norm differs from the target" % what,
                worst_ulps=_worst(newL[nz], tt[nz]), nvdim=nv)
    # direction: component-wise
    sel = nz & ~tz
    with np.errstate(all="ignore"):
        want = old.astype(LD) / L * t.astype(LD)
    ctx.require(bool(np.all(_rel_ok(arr[sel], want[sel], 8))), "C15.direction", "%s: components differ from old/|old|*t" % what,
                worst_ulps=_worst(arr[sel], want[sel]))


# ---------------------------------------------------------------------------------- checks
def check(kind, pr, ctx):
    rng = np.random.default_rng(pr["seed"])
    mesh = _mesh(pr, rng)
    n, nv = list(pr["n"]), pr["nvdim"]
    old = _values(pr, rng)
    if not np.any(old) and kind != "threshold":
        ctx.trivial()
    if kind == "set":
        t = _targets(pr, rng)
        f = df.Field(mesh, nvdim=nv, value=old.copy())
        r, e = raises(Exception, setattr, f, "norm", _spec(pr["form"], t, mesh))
        ctx.require(not r, "C15.spec_forms", "setting the norm (%s) raised" % pr["form"], sig="norm-setter-raises-" + pr["form"], error=repr(e) if r else None)
        if r:
            return
        _check_after_set(ctx, f.array, old, t, "setter/" + pr["form"])
        # the same table as a plain (*n,1) array gives the identical result
        g = df.Field(mesh, nvdim=nv, value=old.copy())
        g.norm = t.copy()
        ctx.require(np.array_equal(f.array, g.array), "C15.spec_forms", "norm given as %s differs from the equivalent per-cell array" % pr["form"])
        # setting it a second time (different target) starts from the current direction, zero stays zero
        t2 = _targets(dict(pr, form="array", target_zeros=False), rng)
        was = f.array.copy()
        f.norm = t2
        _check_after_set(ctx, f.array, was, t2, "second setter")
    elif kind == "get":
        check_get(pr, ctx, mesh, old, rng)
    elif kind == "update":
        t = _targets(dict(pr, target_zeros=False), rng)
        f = df.Field(mesh, nvdim=nv, value=old.copy())
        f.norm = _spec(pr["form"], t, mesh)
        w = _values(dict(pr, zero_frac=0.3), rng)
        f.update_field_values(w.copy())
        ctx.require(np.array_equal(f.array, w), "C15.no_reapply", "update_field_values after a norm assignment does not store the given values")
        ctx.require(bool(np.all(_rel_ok(f.norm.array, _len_ld(w), 4))), "C15.no_reapply", "norm after the update is not |w|")
        w2 = _values(dict(pr, zero_frac=0.0), rng)
        f.array = w2.copy()
        ctx.require(np.array_equal(f.array, w2), "C15.no_reapply", "array assignment after a norm assignment does not store the given values")
        const = tuple(float(x) for x in rng.normal(size=nv)) if nv > 1 else float(rng.normal())
        f.update_field_values(const)
        ctx.require(np.array_equal(f.array, np.broadcast_to(np.asarray(const, dtype=float), (*n, nv))), "C15.no_reapply",
                    "constant value after a norm assignment is rescaled")
    elif kind == "ctor":
        t = _targets(pr, rng)
        r, f = raises(Exception, df.Field, mesh, nvdim=nv, value=old.copy(), norm=_spec(pr["form"], t, mesh), valid="norm")
        ctx.require(not r, "C15.constructor_order", "Field(value=, norm=, valid='norm') raised", sig="ctor-raises", error=repr(f) if r else None)
        if r:
            return
        _check_after_set(ctx, f.array, old, t, "constructor/" + pr["form"])
        g = df.Field(mesh, nvdim=nv, value=old.copy())
        g.norm = t.copy()
        ctx.require(np.array_equal(f.array, g.array), "C15.constructor_order", "constructor with norm= differs from value then setter")
        wantv = np.asarray(_len_ld(f.array)[..., 0] > LD(1e-8))
        wantv_exact = np.asarray((_len_ld(old)[..., 0] != 0) & (t[..., 0] != 0))
        ctx.require(f.valid.shape == tuple(n) and f.valid.dtype == bool and np.array_equal(f.valid, wantv) and np.array_equal(wantv, wantv_exact),
                    "C15.constructor_order", "valid='norm' is not derived from the normalised values",
                    got=f.valid, want=wantv, before_norm=np.asarray(_len_ld(old)[..., 0] > 1e-8))
        # callable value + norm : value evaluated first, then normalised
        tab = old

        def vfun(p):
            idx = np.clip(np.floor((np.asarray(p, dtype=float).reshape(-1) - np.asarray(mesh.region.pmin)) / np.asarray(mesh.cell)).astype(int), 0, np.array(n) - 1)
            return tab[tuple(idx)]
        c = float(t.reshape(-1)[0]) if t.reshape(-1)[0] != 0 else 3.0
        h = df.Field(mesh, nvdim=nv, value=vfun, norm=c)
        _check_after_set(ctx, h.array, old, np.full((*n, 1), c), "constructor/callable value + constant norm")
    elif kind == "threshold":
        N = int(np.prod(n))
        lens = np.where(rng.integers(0, 2, size=N).astype(bool), 10.0 ** rng.uniform(-100, np.log10(8e-9), size=N), 10.0 ** rng.uniform(np.log10(1.2e-8), -7, size=N))
        d = rng.normal(size=(N, nv)).astype(LD)
        d /= np.sqrt(np.sum(d * d, axis=1, keepdims=True))
        v = np.asarray(d * lens[:, None].astype(LD), dtype=float).reshape(*n, nv)
        z = rng.uniform(size=N) < 0.2
        v.reshape(N, nv)[z] = 0.0
        _check_orientation(ctx, df.Field(mesh, nvdim=nv, value=v.copy()), v, "threshold")


def _check_orientation(ctx, f, v, what):
    r, o = raises(Exception, lambda: f.orientation)
    ctx.require(not r, "C15.orientation", "%s: orientation raised" % what, sig="orientation-raises", error=repr(o) if r else None)
    if r:
        return None
    L = _len_ld(v)
    big = np.asarray(L[..., 0] > LD(1e-8))
    oa = o.array
    ok_shape = oa.shape == v.shape and o.nvdim == f.nvdim and o.mesh == f.mesh
    ctx.require(ok_shape, "C15.orientation", "%s: orientation shape / nvdim / mesh" % what)
    if not ok_shape:
        return None
    ctx.require(bool(np.all(oa[~big] == 0.0)), "C15.orientation", "%s: orientation is not zero where the length is <= 1e-8" % what,
                lengths=np.asarray(L[..., 0][~big], dtype=float)[:6], got=oa[~big][:3])
    with np.errstate(all="ignore"):
        want = v.astype(LD) / L
    ctx.require(bool(np.all(_rel_ok(oa[big], want[big], 4))), "C15.orientation", "%s: orientation differs from v/|v|" % what,
                worst_ulps=_worst(oa[big], want[big]))
    ol = _len_ld(oa)[..., 0]
    ctx.require(bool(np.all(np.abs(ol[big] - 1) <= 4 * LD(EPS))), "C15.orientation", "%s: orientation is not of unit length" % what)
    return o


def check_get(pr, ctx, mesh, old, rng):
    n, nv = list(pr["n"]), pr["nvdim"]
    mask = rng.integers(0, 2, size=tuple(n)).astype(bool) if pr["mask"] else True
    f = df.Field(mesh, nvdim=nv, value=old.copy(), unit=pr["unit"], valid=mask)
    r, nf = raises(Exception, lambda: f.norm)
    ctx.require(not r, "C15.norm_values", "norm getter raised", sig="norm-getter-raises", error=repr(nf) if r else None)
    if r:
        return
    ok_shape = isinstance(nf, df.Field) and nf.nvdim == 1 and nf.array.shape == (*n, 1)
    ctx.require(ok_shape, "C15.norm_meta", "norm is not a one-component field of shape (*n,1)", got=getattr(nf.array, "shape", None))
    if not ok_shape:
        return
    L = _len_ld(old)
    if nv == 1:
        ctx.require(np.array_equal(nf.array, np.abs(old)), "C15.norm_values", "norm of a scalar field is not |v|")
    else:
        ctx.require(bool(np.all(_rel_ok(nf.array, L, 4))), "C15.norm_values", "norm differs from sqrt(sum v_i^2)", worst_ulps=_worst(nf.array, L))
    ctx.require(bool(np.all(nf.array[np.asarray(L == 0)] == 0.0)) and bool(np.all(nf.array >= 0)), "C15.norm_values", "norm of a zero cell is not 0 / negative norm")
    ctx.require(nf.mesh == f.mesh and list(nf.mesh.region.dims) == list(f.mesh.region.dims) and list(nf.mesh.region.units) == list(f.mesh.region.units)
                and np.array_equal(nf.mesh.n, f.mesh.n), "C15.norm_meta", "norm field lives on a different mesh")
    ctx.require(nf.unit == pr["unit"], "C15.norm_meta", "norm field has a different unit", got=nf.unit, want=pr["unit"])
    wantvalid = np.broadcast_to(np.asarray(mask, dtype=bool), tuple(n))
    ctx.require(np.array_equal(f.valid, wantvalid) and nf.valid.shape == tuple(n) and np.array_equal(nf.valid, wantvalid), "C15.norm_meta",
                "norm field has a different validity mask")
    ctx.require(np.array_equal(f.array, old), "C15.norm_values", "reading the norm changed the field")
    o = _check_orientation(ctx, f, old, "get")
    if o is None:
        return
    r, p = raises(Exception, lambda: o * nf)
    ctx.require(not r, "C15.orientation_times_norm", "orientation * norm raised", sig="orientation-times-norm-raises", error=repr(p) if r else None)
    if not r:
        ctx.require(p.array.shape == old.shape and bool(np.all(_rel_ok(p.array, old, 4))), "C15.orientation_times_norm",
                    "orientation * norm does not reproduce the field", worst_ulps=_worst(p.array, old) if p.array.shape == old.shape else None)
    ctx.require(np.array_equal(f.array, old), "C15.orientation", "reading the orientation changed the field")
