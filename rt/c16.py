"""C16 bounded run-time tier: VTK output puts each value in the grid cell a VTK reader finds at that position.

Oracle: VTK itself.  For probe positions p (random, cell centres, 1e-6 of a cell on either side of every face) the cell id is
obtained from vtkRectilinearGrid.FindCell (checked against the bounds of vtkRectilinearGrid.GetCell), and the cell-data tuples
at that id are compared with the field array at the index of the mesh cell containing p, computed here from
pmin/pmax/n alone (and cross-checked with mesh.point2index).  Files are additionally re-read with the plain VTK readers.
Legacy point-data files are written by hand in the form of the old writer and validated with vtkRectilinearGridReader."""
import os
import tempfile
import warnings

import numpy as np
import discretisedfield as df
from vtkmodules.util import numpy_support as vns
from vtkmodules.vtkCommonCore import reference
from vtkmodules.vtkIOLegacy import vtkRectilinearGridReader
from vtkmodules.vtkIOXML import vtkXMLRectilinearGridReader

from .common import raises, ulp_close, rand_region

PROPERTY = "C16"
CLAUSES = {
    "C16.coordinates": "the grid has n+1 coordinates per axis equal to mesh.vertices (and to pmin + k*cell within 8 ulp of the coordinate scale) and prod(n) cells",
    "C16.arrays": "the cell data consists of 'field' (nvdim components), 'norm', 'valid' and, for vector fields, one scalar array per component label",
    "C16.lookup_value": "in the cell VTK locates at p, 'field' equals the field value of the mesh cell containing p (exact)",
    "C16.lookup_components": "in that cell every per-component scalar equals the corresponding component (exact)",
    "C16.lookup_norm": "in that cell 'norm' equals the euclidean norm of the value (4 ulp)",
    "C16.lookup_valid": "in that cell 'valid' equals the validity flag (0/1) of the mesh cell",
    "C16.lookup_cell": "the cell VTK locates contains p and is the mesh cell mesh.point2index(p)",
    "C16.file_lookup": "the written file (bin, txt, xml), opened with the plain VTK reader, carries at every cell centre the value and validity of that mesh cell (exact for bin/xml, ten significant digits for txt)",
    "C16.rt_reads": "a file written in bin, txt or xml form is read back without error",
    "C16.rt_mesh": "round trip returns the same region corners and cell counts (exact for bin/xml; every coordinate to ten significant digits, 5e-10 relative, for txt)",
    "C16.rt_values": "round trip returns the same values (exact for bin/xml; ten significant digits, 5e-10 relative, for txt)",
    "C16.rt_valid": "round trip returns the same validity mask (same flags, boolean)",
    "C16.rt_labels": "round trip returns the same component labels",
    "C16.rt_subregions": "round trip returns the same subregions (side-car file)",
    "C16.legacy": "a legacy file with point data at the cell centres is read with one value per cell: cell counts, values (exact), and corners half a cell beyond the outermost points (16 ulp) on axes with more than one point",
    "C16.refuse": "fields with ndim != 3 are refused by to_vtk and by to_file(.vtk) with an exception, no grid is returned",
}
RULE = ("seeded 3-d meshes (1..6 cells per axis, anisotropic, scale 10^U(-12,6), offsets, either corner order; int-corner class) x nvdim 1..4 x "
        "labels (default, custom, scalar with label) x validity (all, random mask) x dtype float/int; probes: 12 random positions, all cell centres "
        "(<= 64), both sides of every interior and boundary face; round trips x bin/txt/xml x subregions 0..2; legacy x scalar/vector x single-point axes; "
        "refusals ndim 1, 2, 4; non-trivial = more than one cell; distinct by (kind, params)")
ASSUMPTIONS = [
    "bounded: meshes <= 6 cells per axis, <= 4 components, seeded sample; finite values",
    "trusted: VTK's own FindCell / GetCell / readers as the 'VTK consumer'",
    "'same region' means the corners (a VTK file has no place for dimension names or units); labels are not the reserved array names field/norm/valid",
    "legacy files follow the hand-written ASCII form of the old writer (one tuple per line, per-component SCALARS followed by VECTORS)",
]


# ------------------------------------------------------------------ helpers
def make_values(seed, shape, dtype):
    rng = np.random.default_rng(seed)
    if dtype == "int":
        return rng.integers(-1000, 1000, size=shape).astype(np.int64)
    a = rng.normal(size=shape) * 10.0 ** rng.integers(-12, 13, size=shape[:-1] + (1,))
    flat = a.reshape(-1)
    for p, s in zip(rng.permutation(flat.size)[:3], [0.0, -0.0, 1 / 3]):
        flat[p] = s
    return a


def build(pr):
    region = df.Region(p1=tuple(pr["p1"]), p2=tuple(pr["p2"]))
    pmin, pmax = np.asarray(region.pmin, float), np.asarray(region.pmax, float)
    n = pr["n"]
    cell = (pmax - pmin) / np.array(n)
    subs = {name: df.Region(p1=tuple(pmin + np.array(lo) * cell), p2=tuple(pmin + np.array(hi) * cell)) for name, lo, hi in pr.get("subs", [])}
    mesh = df.Mesh(region=region, n=tuple(n), subregions=subs)
    arr = make_values(pr["seed"], (*n, pr["nvdim"]), pr.get("dtype", "float"))
    vmask = np.ones(tuple(n), dtype=bool)
    if pr.get("valid"):
        vmask = np.random.default_rng(pr["seed"] + 1).integers(0, 2, size=tuple(n)).astype(bool)
        vmask.reshape(-1)[-1] = False
    f = df.Field(mesh, nvdim=pr["nvdim"], value=arr, vdims=pr.get("vdims"), valid=vmask.copy(), dtype=arr.dtype)
    return f, arr, vmask, pmin, pmax, cell, subs


def own_index(p, pmin, cell, n):
    """index of the cell containing p, from the lattice definition (p is never within 1e-7 cell of a face)"""
    q = (np.asarray(p) - pmin) / cell
    return tuple(int(min(max(np.floor(v), 0), m - 1)) for v, m in zip(q, n))


def find_cell(grid, p):
    sub = reference(0)
    pc = [0.0, 0.0, 0.0]
    w = [0.0] * 8
    return grid.FindCell([float(v) for v in p], None, 0, 0.0, sub, pc, w)


def probes(pr, pmin, cell, n):
    rng = np.random.default_rng(pr["seed"] + 2)
    pts = [pmin + rng.uniform(0.01, 0.99, 3) * cell * np.array(n) for _ in range(12)]
    idx = [(i, j, k) for i in range(n[0]) for j in range(n[1]) for k in range(n[2])]
    if len(idx) > 64:
        idx = [idx[i] for i in rng.permutation(len(idx))[:64]]
    pts += [pmin + (np.array(i) + 0.5) * cell for i in idx]
    for a in range(3):
        for k in range(n[a] + 1):
            for side in (-1, 1):
                if (k == 0 and side < 0) or (k == n[a] and side > 0):
                    continue
                p = pmin + (rng.integers(0, np.array(n)) + rng.uniform(0.2, 0.8, 3)) * cell
                p[a] = pmin[a] + (k + side * 1e-6) * cell[a]
                pts.append(p)
    return pts


def rel_close(a, b, rel):
    a, b = np.asarray(a, float), np.asarray(b, float)
    return a.shape == b.shape and bool(np.all(np.abs(a - b) <= rel * np.abs(b)))


# ------------------------------------------------------------------ cases
LABELS = {1: [None, None, ["s"]], 2: [None, ["p", "q"]], 3: [None, ["a", "b", "c"], ["mz", "my", "mx"]], 4: [None, ["t", "u", "v", "w"]]}


def _mesh(rng, intc=False, subs=0, modest=False):
    if intc:
        n = rng.integers(1, 7, size=3)
        lo = rng.integers(-20, 20, size=3)
        p1, p2 = [int(v) for v in lo], [int(v) for v in lo + n * rng.integers(1, 4, size=3)]
        n = [int(v) for v in n]
    else:
        if modest:
            s = 10.0 ** rng.uniform(-10, -1)
            off = rng.uniform(-3, 3, size=3) * s
            e = rng.uniform(0.3, 1.7, size=3) * s
            p1, p2 = off.tolist(), (off + e).tolist()
        else:
            p1, p2 = rand_region(rng, 3)
        n = [int(v) for v in rng.integers(1, 7, size=3)]
        if len(set(n)) == 1:
            n[int(rng.integers(3))] = n[0] % 6 + 1
    if rng.integers(2):
        p1, p2 = p2, p1
    sl = []
    for k in range(subs):
        lo = [int(rng.integers(0, m)) for m in n]
        hi = [int(rng.integers(l + 1, m + 1)) for l, m in zip(lo, n)]
        sl.append(["sub%d" % k, lo, hi])
    return p1, p2, n, sl


def cases(ctx):
    rng = ctx.rng
    quick = ctx.tier == "quick"
    for _ in range(12 if quick else 150):
        for nvdim in (1, 2, 3, 4):
            for vd in LABELS[nvdim]:
                p1, p2, n, _s = _mesh(rng, intc=(rng.integers(5) == 0))
                yield "grid", {"p1": p1, "p2": p2, "n": n, "nvdim": nvdim, "vdims": vd, "valid": bool(rng.integers(3)),
                               "dtype": "int" if rng.integers(5) == 0 else "float", "seed": int(rng.integers(1 << 30))}
    yield "grid", {"p1": [0.0, 0.0, 0.0], "p2": [1.0, 1.0, 1.0], "n": [1, 1, 1], "nvdim": 3, "vdims": None, "valid": False, "dtype": "float", "seed": 1}
    for _ in range(8 if quick else 100):
        for rep in ("bin", "txt", "xml", "bin8"):
            for nvdim in (1, 2, 3, 4):
                nsub = int(rng.integers(0, 3))
                intc = rng.integers(4) == 0
                p1, p2, n, sl = _mesh(rng, intc=intc, subs=nsub, modest=nsub > 0)
                vds = LABELS[nvdim]
                yield "roundtrip", {"p1": p1, "p2": p2, "n": n, "nvdim": nvdim, "vdims": vds[int(rng.integers(len(vds)))], "valid": bool(rng.integers(3)),
                                    "dtype": "int" if rng.integers(6) == 0 else "float", "rep": rep, "subs": sl, "seed": int(rng.integers(1 << 30))}
    # fixed: text form with subregions on corners that need more than eleven digits / on short decimal corners
    yield "roundtrip", {"p1": [1.2345678912345e-9, -2.34567891234567e-9, 0.5123456789123e-9], "p2": [1.6049382586047e-9, -1.40740734740767e-9, 1.2037035036035e-9],
                        "n": [3, 4, 2], "nvdim": 1, "vdims": None, "valid": False, "dtype": "float", "rep": "txt", "subs": [["a", [1, 0, 0], [3, 2, 1]]], "seed": 7}
    yield "roundtrip", {"p1": [0.0, 0.0, 0.0], "p2": [3e-9, 4e-9, 2e-9], "n": [3, 4, 2], "nvdim": 3, "vdims": None, "valid": True, "dtype": "float",
                        "rep": "txt", "subs": [["a", [1, 0, 0], [3, 2, 1]], ["b", [0, 0, 0], [3, 4, 1]]], "seed": 8}
    for _ in range(8 if quick else 100):
        for dim in (1, 3):
            p1, p2, n, _s = _mesh(rng)
            if rng.integers(3) == 0:
                n[int(rng.integers(3))] = 1
            yield "legacy", {"p1": p1, "p2": p2, "n": n, "dim": dim, "seed": int(rng.integers(1 << 30))}
    yield "legacy", {"p1": [0.0, 5e7, 0.0], "p2": [4e6, 5.1e7, 2e6], "n": [4, 1, 2], "dim": 3, "seed": 21}
    yield "legacy", {"p1": [0.0, 5e-9, 0.0], "p2": [4e-9, 6e-9, 2e-9], "n": [4, 1, 2], "dim": 1, "seed": 22}
    for ndim in (1, 2, 4):
        for nvdim in (1, 3):
            for rep in ("bin", "txt", "xml"):
                p1, p2 = rand_region(rng, ndim)
                yield "refuse", {"p1": p1, "p2": p2, "n": [int(v) for v in rng.integers(1, 4, size=ndim)], "nvdim": nvdim, "rep": rep}


# ------------------------------------------------------------------ checks
def check(kind, pr, ctx):
    with tempfile.TemporaryDirectory(prefix="rtc16_") as tmp, warnings.catch_warnings():
        warnings.simplefilter("ignore")
        if kind == "grid":
            return check_grid(pr, ctx)
        if kind == "roundtrip":
            return check_roundtrip(pr, ctx, tmp)
        if kind == "legacy":
            return check_legacy(pr, ctx, tmp)
        return check_refuse(pr, ctx, tmp)


def _arrays(cd):
    return {cd.GetArrayName(i): cd.GetArray(i) for i in range(cd.GetNumberOfArrays())}


def check_grid(pr, ctx):
    f, arr, vmask, pmin, pmax, cell, _ = build(pr)
    n, nvdim = pr["n"], pr["nvdim"]
    if int(np.prod(n)) == 1:
        ctx.trivial()
    r, grid = raises(Exception, f.to_vtk)
    if not ctx.require(not r, "C16.coordinates", "to_vtk raised for a 3-d field", sig="to_vtk-raises", error=repr(grid) if r else None):
        return
    scale = np.maximum(np.abs(pmin), np.abs(pmax))
    okc = list(grid.GetDimensions()) == [k + 1 for k in n] and grid.GetNumberOfCells() == int(np.prod(n))
    for a, (getter, d) in enumerate(zip((grid.GetXCoordinates, grid.GetYCoordinates, grid.GetZCoordinates), f.mesh.region.dims)):
        c = vns.vtk_to_numpy(getter())
        okc = okc and len(c) == n[a] + 1 and np.array_equal(c, np.asarray(getattr(f.mesh.vertices, d), float)) \
            and ulp_close(c, pmin[a] + np.arange(n[a] + 1) * cell[a], 8, scale[a])
    ctx.require(okc, "C16.coordinates", "grid coordinates are not the mesh vertices")
    arrays = _arrays(grid.GetCellData())
    want_names = {"field", "norm", "valid"} | (set(f.vdims) if nvdim > 1 else set())
    oka = (set(arrays) == want_names and arrays["field"].GetNumberOfComponents() == nvdim
           and all(arrays[k].GetNumberOfTuples() == int(np.prod(n)) for k in arrays)
           and all(arrays[k].GetNumberOfComponents() == 1 for k in arrays if k != "field"))
    if not ctx.require(oka, "C16.arrays", "cell-data arrays are not field/norm/valid/components", got=sorted(arrays), want=sorted(want_names)):
        return
    okv = okk = okn = okf = okcell = True
    detail = None
    for p in probes(pr, pmin, cell, n):
        idx = own_index(p, pmin, cell, n)
        cid = find_cell(grid, p)
        if cid < 0:
            okcell = False
            detail = ("not found", p.tolist())
            continue
        b = grid.GetCell(cid).GetBounds()
        inside = all(b[2 * a] <= p[a] <= b[2 * a + 1] for a in range(3))
        if not (inside and tuple(f.mesh.point2index(p)) == idx):
            okcell = False
            detail = ("cell", p.tolist(), idx, tuple(f.mesh.point2index(p)), b)
        val = arr[idx]
        got = np.array(arrays["field"].GetTuple(cid))
        if not np.array_equal(got, val.astype(float)):
            okv = False
            detail = ("value", p.tolist(), idx, got.tolist(), val.tolist())
        if nvdim > 1:
            for j, lab in enumerate(f.vdims):
                if arrays[lab].GetTuple1(cid) != float(val[j]):
                    okk = False
                    detail = ("component", lab, idx)
        nv = float(np.sqrt(np.sum(val.astype(float) ** 2)))
        if not ulp_close(arrays["norm"].GetTuple1(cid), nv, 4):
            okn = False
            detail = ("norm", idx, arrays["norm"].GetTuple1(cid), nv)
        if arrays["valid"].GetTuple1(cid) != float(vmask[idx]) or bool(f.valid[idx]) != bool(vmask[idx]):
            okf = False
            detail = ("valid", idx)
    ctx.require(okcell, "C16.lookup_cell", "VTK's cell at p is not the mesh cell containing p", detail=detail)
    ctx.require(okv, "C16.lookup_value", "'field' in the located cell is not the value of the mesh cell", detail=detail)
    if nvdim > 1:
        ctx.require(okk, "C16.lookup_components", "component scalar in the located cell differs", detail=detail)
    ctx.require(okn, "C16.lookup_norm", "'norm' in the located cell differs", detail=detail)
    ctx.require(okf, "C16.lookup_valid", "'valid' in the located cell differs", detail=detail)


def _vtk_read(path):
    with open(path, "rb") as fh:
        xml = b"xml" in fh.readline()
    rd = vtkXMLRectilinearGridReader() if xml else vtkRectilinearGridReader()
    if not xml:
        rd.ReadAllScalarsOn()
        rd.ReadAllVectorsOn()
    rd.SetFileName(path)
    rd.Update()
    return rd.GetOutput(), xml


def check_roundtrip(pr, ctx, tmp):
    try:
        f, arr, vmask, pmin, pmax, cell, subs = build(pr)
    except ValueError:
        if not pr["subs"]:
            raise
        ctx.trivial()  # subregions not accepted by the mesh (alignment tolerance; another property)
        return
    n, nvdim, rep = pr["n"], pr["nvdim"], pr["rep"]
    if int(np.prod(n)) == 1:
        ctx.trivial()
    exact = rep != "txt"
    path = os.path.join(tmp, "field.vtk")
    r, e = raises(Exception, f.to_file, path, representation=rep)
    if not ctx.require(not r, "C16.rt_reads", "to_file raised", sig="to_file-raises", error=repr(e) if r else None):
        return
    farr = arr.astype(float)
    # ---- the file seen by a plain VTK consumer
    grid, xml = _vtk_read(path)
    okfile = xml == (rep == "xml") and grid.GetNumberOfCells() == int(np.prod(n))
    if okfile:
        arrays = _arrays(grid.GetCellData())
        okfile = "field" in arrays and "valid" in arrays
        if okfile:
            for i in range(n[0]):
                for j in range(n[1]):
                    for k in range(n[2]):
                        cid = find_cell(grid, pmin + (np.array([i, j, k]) + 0.5) * cell)
                        if cid < 0:
                            okfile = False
                            continue
                        got = np.array(arrays["field"].GetTuple(cid))
                        okfile = okfile and (np.array_equal(got, farr[i, j, k]) if exact else rel_close(got, farr[i, j, k], 5e-10))
                        okfile = okfile and arrays["valid"].GetTuple1(cid) == float(vmask[i, j, k])
    ctx.require(okfile, "C16.file_lookup", "the written %s file does not carry the cell values at the cell centres" % rep)
    # ---- read back with the library
    subsig = "txt-subregions-rejected-after-coordinate-rounding" if (rep == "txt" and subs) else None
    r, g = raises(Exception, df.Field.from_file, path)
    if not ctx.require(not r, "C16.rt_reads", "from_file raised on a %s file written by to_file" % rep,
                       sig=(subsig if r and "ubregion" in repr(g) else None) or "from_file-raises", error=repr(g) if r else None):
        return
    gmin, gmax = np.asarray(g.mesh.region.pmin, float), np.asarray(g.mesh.region.pmax, float)
    okm = list(g.mesh.n) == list(n) and (
        (np.array_equal(gmin, pmin) and np.array_equal(gmax, pmax)) if exact else (rel_close(gmin, pmin, 5e-10) and rel_close(gmax, pmax, 5e-10)))
    ctx.require(okm, "C16.rt_mesh", "region corners / cell counts differ after the round trip (%s)" % rep, got=[gmin, gmax, g.mesh.n], want=[pmin, pmax, n])
    okv = g.nvdim == nvdim and g.array.shape == arr.shape and (np.array_equal(g.array, farr) if exact else rel_close(g.array, farr, 5e-10))
    ctx.require(okv, "C16.rt_values", "values differ after the round trip (%s)" % rep)
    ctx.require(g.valid.shape == tuple(n) and np.array_equal(g.valid, vmask), "C16.rt_valid", "validity differs after the round trip")
    # a mask is used as field.array[field.valid]: an integer 0/1 array would index instead of mask
    ctx.require(g.valid.dtype == np.bool_, "C16.rt_valid", "validity comes back as a non-boolean array", sig="valid-read-back-as-int", got=str(g.valid.dtype))
    ctx.require(g.vdims == f.vdims, "C16.rt_labels", "component labels differ after the round trip",
                sig="scalar-label-lost" if (nvdim == 1 and f.vdims is not None and g.vdims is None) else None, got=g.vdims, want=f.vdims)
    gs = g.mesh.subregions
    oks = list(gs) == list(subs) and all(np.array_equal(gs[k].pmin, subs[k].pmin) and np.array_equal(gs[k].pmax, subs[k].pmax) for k in subs)
    ctx.require(oks, "C16.rt_subregions", "subregions differ after the round trip", sig=subsig, got=list(gs), want=list(subs))


def check_legacy(pr, ctx, tmp):
    n, dim = pr["n"], pr["dim"]
    p1, p2 = np.asarray(pr["p1"], float), np.asarray(pr["p2"], float)
    pmin, pmax = np.minimum(p1, p2), np.maximum(p1, p2)
    cell = (pmax - pmin) / np.array(n)
    if int(np.prod(n)) == 1:
        ctx.trivial()
    arr = make_values(pr["seed"], (*n, dim), "float")
    centres = [pmin[a] + (np.arange(n[a]) + 0.5) * cell[a] for a in range(3)]
    order = [(i, j, k) for k in range(n[2]) for j in range(n[1]) for i in range(n[0])]   # VTK point order: x fastest
    L = ["# vtk DataFile Version 3.0", "Field", "ASCII", "DATASET RECTILINEAR_GRID", "DIMENSIONS %d %d %d" % tuple(n)]
    for a, nm in enumerate("XYZ"):
        L += ["%s_COORDINATES %d float" % (nm, n[a]), " ".join(repr(float(c)) for c in centres[a])]
    L += ["POINT_DATA %d" % len(order)]
    if dim == 1:
        L += ["SCALARS field double", "LOOKUP_TABLE default"] + [repr(float(arr[i][0])) for i in order]
    else:
        for c, nm in enumerate("xyz"):
            L += ["SCALARS %s-component double" % nm, "LOOKUP_TABLE default"] + [repr(float(arr[i][c])) for i in order]
        L += ["VECTORS field double"] + [" ".join(repr(float(v)) for v in arr[i]) for i in order]
    path = os.path.join(tmp, "legacy.vtk")
    with open(path, "w") as fh:
        fh.write("\n".join(L) + "\n")
    # the synthesised file is a proper legacy VTK file with point data (plain VTK reader)
    grid, _ = _vtk_read(path)
    pd = grid.GetPointData()
    fa = pd.GetArray("field")
    sane = (grid.GetCellData().GetNumberOfArrays() == 0 and fa is not None and fa.GetNumberOfTuples() == len(order)
            and all(np.array_equal(np.array(fa.GetTuple(q)), arr[i]) for q, i in enumerate(order))
            # the old writer declared the coordinates as 'float': VTK keeps them in single precision
            and all(np.array_equal(np.array(grid.GetPoint(q)), np.array([centres[a][i[a]] for a in range(3)]).astype(np.float32).astype(float))
                    for q, i in enumerate(order)))
    if not ctx.require(sane, "C16.legacy", "harness: the synthesised legacy file is not decoded by VTK as intended", sig="harness-legacy-file"):
        return
    r, g = raises(Exception, df.Field.from_file, path)
    lsig = "legacy-raises"
    if r and 1 in n and "edge lengths is zero" in repr(g):
        lsig = "legacy-single-point-axis-1nm-default-degenerate"   # the reader's 1 nm default cell vanishes next to a large coordinate
    if not ctx.require(not r, "C16.legacy", "legacy point-data file is not read", sig=lsig, error=repr(g) if r else None):
        return
    ok = list(g.mesh.n) == list(n) and g.nvdim == dim and g.array.shape == arr.shape and np.array_equal(g.array, arr)
    ctx.require(ok, "C16.legacy", "legacy file not read with one value per cell", got_n=g.mesh.n, want_n=n, nvdim=g.nvdim)
    scale = np.maximum(np.abs(pmin), np.abs(pmax))
    multi = [a for a in range(3) if n[a] > 1]
    okr = all(ulp_close(g.mesh.region.pmin[a], pmin[a], 16, scale[a]) and ulp_close(g.mesh.region.pmax[a], pmax[a], 16, scale[a]) for a in multi)
    ctx.require(okr, "C16.legacy", "corners of a legacy file are not half a cell beyond the outermost points", sig="legacy-corners",
                got=[g.mesh.region.pmin, g.mesh.region.pmax], want=[pmin, pmax])


def check_refuse(pr, ctx, tmp):
    n = pr["n"]
    mesh = df.Mesh(p1=tuple(pr["p1"]), p2=tuple(pr["p2"]), n=tuple(n))
    f = df.Field(mesh, nvdim=pr["nvdim"], value=np.random.default_rng(1).normal(size=(*n, pr["nvdim"])))
    r1, v1 = raises(Exception, f.to_vtk)
    path = os.path.join(tmp, "no.vtk")
    r2, v2 = raises(Exception, f.to_file, path, representation=pr["rep"])
    ctx.require(r1 and isinstance(v1, (RuntimeError, ValueError, TypeError)), "C16.refuse", "to_vtk accepted a field with ndim=%d" % len(n), got=repr(v1))
    ctx.require(r2 and isinstance(v2, (RuntimeError, ValueError, TypeError)) and not os.path.exists(path), "C16.refuse",
                "to_file(.vtk) accepted a field with ndim=%d or left a file behind" % len(n), got=repr(v2))
