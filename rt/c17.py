"""C17 bounded run-time tier: xarray export/import is lossless and uses cell centres as coordinates.

Expected coordinates/corners are computed here from the corner pair and cell counts of the case alone
(centre k of axis j = pmin_j + (k+1/2)*(pmax_j-pmin_j)/n_j); imported fields are compared attribute by attribute.
Attribute-free DataArrays are also built from scratch with xarray (never seen by to_xarray).
Bounded: 1-4-d meshes of at most 6 cells per axis, 1-4 components."""
import itertools
import warnings

import numpy as np
import xarray as xr
import discretisedfield as df

from .common import raises, ulp_close, rand_region

PROPERTY = "C17"
CLAUSES = {
    "C17.dims_coords": "the DataArray dimensions are the region's dims (plus 'vdims' for nvdim > 1) and every spatial coordinate holds the cell centres (== mesh.cells, pmin+(k+1/2)cell within 8 ulp of the coordinate scale) with attribute units == the region's unit of that axis",
    "C17.vdims_coord": "the 'vdims' coordinate lists the component labels; a scalar field has no component axis",
    "C17.attrs": "attributes carry cell, pmin, pmax (equal to the mesh's), nvdim, units (field unit or the unit argument) and tolerance_factor; the name is the name argument",
    "C17.values": "the DataArray data are the field array (bit-identical, same dtype; scalar fields without the component axis)",
    "C17.import_mesh": "from_xarray(to_xarray(f)) has the same corners, cell counts, dims, units and tolerance factor",
    "C17.import_values": "from_xarray(to_xarray(f)) has the same component count and bit-identical values and compares == f",
    "C17.import_labels_dtype": "from_xarray(to_xarray(f)) has the same component labels and dtype",
    "C17.rebuild": "without cell/pmin/pmax attributes the mesh is rebuilt from the coordinates: n = number of coordinates, corners half a cell beyond the outermost centres (64 ulp of the coordinate scale), values unchanged",
    "C17.partial": "with any part of cell/pmin/pmax/tolerance_factor/units/coordinate units removed the import still gives the same mesh (64 ulp of the coordinate scale) and values",
    "C17.scratch": "a DataArray built from scratch with evenly spaced coordinates and only the nvdim attribute is imported with corners half a spacing beyond the outermost coordinates, one cell per coordinate, the given values, labels and dtype",
    "C17.reject_uneven": "unevenly spaced coordinates (one coordinate moved by 10-40% of the spacing) are rejected with an exception",
    "C17.reject_no_nvdim": "a DataArray without the nvdim attribute is rejected with an exception",
    "C17.reject_no_vdims_axis": "nvdim > 1 without a dimension called 'vdims' is rejected with an exception",
}
RULE = ("ndim 1..4 x nvdim 1..4 x dims/units (default, custom) x corners (scale 10^U(-12,6) with offsets, either order; int-corner class) x "
        "dtype (float64/32, int64/32, complex128/64) x labels (default, custom, absent) x unit x tolerance_factor; attribute removal: all of "
        "cell/pmin/pmax, every proper subset, plus tolerance_factor / units / coordinate units; rejections on every axis with >= 3 cells; "
        "non-trivial = more than one cell; distinct by (kind, params)")
ASSUMPTIONS = [
    "bounded: meshes <= 6 cells per axis, <= 4 dimensions, <= 4 components, seeded sample",
    "the field unit and validity are not part of the import clause of the statement (from_xarray does not restore them); not checked",
    "single-cell axes keep the cell attribute (the documented requirement), dimension names differ from 'vdims'",
    "rejected = raises ValueError, KeyError or TypeError",
]

DTYPES = ["float64", "float64", "float32", "int64", "int32", "complex128", "complex64"]
DIMSETS = [None, None, ["a", "b", "c", "d"], ["x0", "theta", "r", "time"], ["z", "y", "x", "t"]]
UNITSETS = [None, ["nm", "s", "K", "rad"], ["um", "um", "um", "um"]]


def make_array(seed, shape, dtype):
    rng = np.random.default_rng(seed)
    dt = np.dtype(dtype)
    if dt.kind == "i":
        return rng.integers(-10000, 10000, size=shape).astype(dt)
    a = rng.normal(size=shape) * 10.0 ** rng.integers(-6, 7)
    if dt.kind == "c":
        a = a + 1j * rng.normal(size=shape)
    a = a.astype(dt)
    flat = a.reshape(-1)
    for p, s in zip(rng.permutation(flat.size)[:2], [0.0, -0.0]):
        flat[p] = s
    return a


def _mesh(rng, ndim, nmin=1):
    nmax = 6 if ndim <= 2 else (5 if ndim == 3 else 3)
    n = [int(v) for v in rng.integers(nmin, max(nmax, nmin) + 1, size=ndim)]
    if rng.integers(6) == 0:
        lo = rng.integers(-20, 20, size=ndim)
        p1, p2 = [int(v) for v in lo], [int(v) for v in lo + np.array(n) * rng.integers(1, 4, size=ndim)]
        if rng.integers(2):
            p1, p2 = p2, p1
    else:
        p1, p2 = rand_region(rng, ndim)
    return p1, p2, n


def _field_params(rng, ndim, nmin=1):
    p1, p2, n = _mesh(rng, ndim, nmin)
    nvdim = int(rng.integers(1, 5))
    dims = DIMSETS[int(rng.integers(len(DIMSETS)))]
    units = UNITSETS[int(rng.integers(len(UNITSETS)))]
    lab = int(rng.integers(4))
    vdims = None
    if lab == 1:
        vdims = [["s"], ["p", "q"], ["mx", "my", "mz"], ["t", "a", "b", "c"]][nvdim - 1]
    elif lab == 2 and nvdim > 1 and nvdim != ndim:
        vdims = []
    return {"p1": p1, "p2": p2, "n": n, "nvdim": nvdim, "dims": dims[:ndim] if dims else None, "units": units[:ndim] if units else None,
            "vdims": vdims, "unit": [None, "A/m", "T"][int(rng.integers(3))], "tol": [1e-12, 1e-9, 1e-6][int(rng.integers(3))],
            "dtype": DTYPES[int(rng.integers(len(DTYPES)))], "seed": int(rng.integers(1 << 30))}


REMOVALS = [list(c) for k in (1, 2) for c in itertools.combinations(["cell", "pmin", "pmax"], k)]


def cases(ctx):
    rng = ctx.rng
    quick = ctx.tier == "quick"
    reps = 12 if quick else 300
    for _ in range(reps):
        for ndim in (1, 2, 3, 4):
            yield "export", _field_params(rng, ndim)
            yield "export", dict(_field_params(rng, ndim), name="m", unit_arg="mT")
            # attribute-free
            pr = _field_params(rng, ndim, nmin=2)
            yield "strip", dict(pr, remove=["cell", "pmin", "pmax"], coord_units=bool(rng.integers(2)))
            yield "strip", dict(_field_params(rng, ndim, nmin=2), remove=["cell", "pmin", "pmax", "tolerance_factor", "units"], coord_units=False)
            # partly
            for rm in [REMOVALS[i] for i in rng.permutation(len(REMOVALS))[:3]]:
                pr = _field_params(rng, ndim, nmin=2 if "cell" in rm else 1)
                extra = [x for x in ("tolerance_factor", "units") if rng.integers(3) == 0]
                yield "strip", dict(pr, remove=rm + extra, coord_units=bool(rng.integers(3)))
            yield "strip", dict(_field_params(rng, ndim), remove=["tolerance_factor"], coord_units=False)
            # from scratch
            p1, p2, n = _mesh(rng, ndim, 2)
            nvdim = int(rng.integers(1, 5))
            yield "scratch", {"p1": p1, "p2": p2, "n": n, "nvdim": nvdim, "dims": [["u", "v", "w", "q"], ["x", "y", "z", "t"]][int(rng.integers(2))][:ndim],
                              "labels": bool(rng.integers(2)), "dtype": DTYPES[int(rng.integers(len(DTYPES)))], "seed": int(rng.integers(1 << 30))}
            # rejections
            pr = _field_params(rng, ndim, nmin=3)
            axis = int(rng.integers(ndim))
            k = int(rng.integers(pr["n"][axis]))
            yield "uneven", dict(pr, axis=axis, k=k, frac=float(rng.uniform(0.1, 0.4) * rng.choice([-1, 1])), strip=bool(rng.integers(2)))
            yield "no_nvdim", _field_params(rng, ndim)
            pr = _field_params(rng, ndim)
            pr["nvdim"] = int(rng.integers(2, 5))
            if pr["vdims"] is not None:
                pr["vdims"] = None
            yield "no_vdims_axis", dict(pr, how=["rename", "drop"][int(rng.integers(2))])
    # fixed small-scale uneven coordinates (nanometre mesh): 1, 2, 3.4 nm
    yield "uneven", {"p1": [0.0], "p2": [5e-9], "n": [5], "nvdim": 1, "dims": None, "units": None, "vdims": None, "unit": None, "tol": 1e-12,
                     "dtype": "float64", "seed": 3, "axis": 0, "k": 2, "frac": 0.4, "strip": True}
    yield "uneven", {"p1": [0.0, 0.0], "p2": [5.0, 3.0], "n": [5, 3], "nvdim": 2, "dims": None, "units": None, "vdims": None, "unit": None, "tol": 1e-12,
                     "dtype": "float64", "seed": 4, "axis": 0, "k": 4, "frac": -0.25, "strip": False}
    yield "export", {"p1": [0.0], "p2": [1.0], "n": [1], "nvdim": 1, "dims": None, "units": None, "vdims": None, "unit": None, "tol": 1e-12,
                     "dtype": "float64", "seed": 5}


# ------------------------------------------------------------------ checks
def build(pr):
    region = df.Region(p1=tuple(pr["p1"]), p2=tuple(pr["p2"]), dims=pr["dims"], units=pr["units"], tolerance_factor=pr["tol"])
    n = pr["n"]
    mesh = df.Mesh(region=region, n=tuple(n))
    arr = make_array(pr["seed"], (*n, pr["nvdim"]), pr["dtype"])
    f = df.Field(mesh, nvdim=pr["nvdim"], value=arr, vdims=pr["vdims"], unit=pr["unit"], dtype=arr.dtype)
    pmin = np.minimum(np.asarray(pr["p1"], float), np.asarray(pr["p2"], float))
    pmax = np.maximum(np.asarray(pr["p1"], float), np.asarray(pr["p2"], float))
    return f, arr, pmin, pmax


def same_bytes(a, b):
    a, b = np.ascontiguousarray(a), np.ascontiguousarray(b)
    return a.dtype == b.dtype and a.shape == b.shape and a.tobytes() == b.tobytes()


def centres(pmin, pmax, n):
    return [pmin[j] + (np.arange(n[j]) + 0.5) * ((pmax[j] - pmin[j]) / n[j]) for j in range(len(n))]


def mesh_close(g, pmin, pmax, n, ulps=64):
    scale = np.maximum(np.abs(pmin), np.abs(pmax))
    return (list(g.mesh.n) == list(n) and ulp_close(g.mesh.region.pmin, pmin, ulps, scale) and ulp_close(g.mesh.region.pmax, pmax, ulps, scale))


REJ = (ValueError, KeyError, TypeError)


def check(kind, pr, ctx):
    with warnings.catch_warnings():
        warnings.simplefilter("ignore")
        if kind == "scratch":
            return check_scratch(pr, ctx)
        f, arr, pmin, pmax = build(pr)
        n, nvdim = pr["n"], pr["nvdim"]
        ndim = len(n)
        if int(np.prod(n)) == 1:
            ctx.trivial()
        if kind == "export":
            return check_export(pr, ctx, f, arr, pmin, pmax)
        xa = f.to_xarray()
        if kind == "strip":
            return check_strip(pr, ctx, f, arr, pmin, pmax, xa)
        if kind == "uneven":
            a, k = pr["axis"], pr["k"]
            d = f.mesh.region.dims[a]
            c = np.array(xa[d].values, dtype=float)
            h = (pmax[a] - pmin[a]) / n[a]
            c[k] = c[k] + pr["frac"] * h
            if pr["strip"]:
                for key in ("cell", "pmin", "pmax"):
                    del xa.attrs[key]
            attrs = dict(xa[d].attrs)
            xa = xa.assign_coords({d: c})
            xa[d].attrs.update(attrs)
            r, g = raises(Exception, df.Field.from_xarray, xa)
            diffs = np.diff(c)
            below = bool(np.all(np.abs(diffs - diffs.mean()) <= 1e-8 + 1e-5 * abs(diffs.mean())))
            ctx.require(r and isinstance(g, REJ), "C17.reject_uneven", "unevenly spaced coordinates accepted (or failed with an unrelated error)",
                        sig="uneven-spacing-below-absolute-1e-8-accepted" if (not r and below) else None,
                        coords=c, got=repr(g)[:200])
            return
        if kind == "no_nvdim":
            del xa.attrs["nvdim"]
            r, g = raises(Exception, df.Field.from_xarray, xa)
            ctx.require(r and isinstance(g, REJ), "C17.reject_no_nvdim", "DataArray without nvdim accepted", got=repr(g)[:200])
            return
        if kind == "no_vdims_axis":
            if pr["how"] == "rename":
                xb = xa.rename({"vdims": "comp"})
            else:
                xb = xa.isel(vdims=0, drop=True)
            xb.attrs["nvdim"] = nvdim
            r, g = raises(Exception, df.Field.from_xarray, xb)
            ctx.require(r and isinstance(g, REJ), "C17.reject_no_vdims_axis", "vector DataArray without a 'vdims' dimension accepted", got=repr(g)[:200])
            return
        raise AssertionError(kind)


def check_export(pr, ctx, f, arr, pmin, pmax):
    n, nvdim = pr["n"], pr["nvdim"]
    ndim = len(n)
    kw = {}
    if "name" in pr:
        kw = {"name": pr["name"], "unit": pr["unit_arg"]}
    r, xa = raises(Exception, f.to_xarray, **kw)
    if not ctx.require(not r and isinstance(xa, xr.DataArray), "C17.dims_coords", "to_xarray raised", sig="to_xarray-raises", error=repr(xa) if r else None):
        return
    dims = tuple(f.mesh.region.dims)
    want_dims = dims + (("vdims",) if nvdim > 1 else ())
    cen = centres(pmin, pmax, n)
    scale = np.maximum(np.abs(pmin), np.abs(pmax))
    okc = tuple(xa.dims) == want_dims
    if okc:
        for j, d in enumerate(dims):
            c = np.asarray(xa[d].values)
            okc = okc and c.shape == (n[j],) and np.array_equal(c, np.asarray(getattr(f.mesh.cells, d))) and ulp_close(c, cen[j], 8, scale[j]) \
                and xa[d].attrs.get("units") == f.mesh.region.units[j]
    ctx.require(okc, "C17.dims_coords", "dimensions / cell-centre coordinates / coordinate units differ", got_dims=xa.dims, want_dims=want_dims)
    if nvdim > 1:
        if f.vdims is not None:
            ctx.require("vdims" in xa.coords and [str(v) for v in xa["vdims"].values] == list(f.vdims), "C17.vdims_coord",
                        "vdims coordinate does not list the labels")
        else:
            ctx.require("vdims" in xa.dims and "vdims" not in xa.coords, "C17.vdims_coord", "label-free vector field exported with a vdims coordinate")
    else:
        ctx.require("vdims" not in xa.dims and xa.ndim == ndim, "C17.vdims_coord", "scalar field exported with a component axis")
    at = xa.attrs
    cell = (pmax - pmin) / np.array(n)
    oka = (set(at) >= {"cell", "pmin", "pmax", "nvdim", "units", "tolerance_factor"}
           and np.array_equal(at["pmin"], pmin) and np.array_equal(at["pmax"], pmax) and ulp_close(at["cell"], cell, 4) and np.array_equal(at["cell"], f.mesh.cell)
           and at["nvdim"] == nvdim and isinstance(at["nvdim"], int) and at["tolerance_factor"] == pr["tol"]
           and at["units"] == (pr["unit_arg"] if "name" in pr else pr["unit"]) and xa.name == (pr["name"] if "name" in pr else "field"))
    ctx.require(oka, "C17.attrs", "attributes / name differ", attrs={k: at[k] for k in at}, name=xa.name)
    want = arr if nvdim > 1 else arr[..., 0]
    ctx.require(same_bytes(xa.values, want), "C17.values", "DataArray data are not the field array", got_dtype=str(xa.values.dtype), want_dtype=str(arr.dtype))
    # ---- import of the complete DataArray
    r, g = raises(Exception, df.Field.from_xarray, xa)
    if not ctx.require(not r, "C17.import_mesh", "from_xarray raised on the result of to_xarray", sig="from_xarray-raises", error=repr(g) if r else None):
        return
    gr, fr = g.mesh.region, f.mesh.region
    ctx.require(np.array_equal(gr.pmin, fr.pmin) and np.array_equal(gr.pmax, fr.pmax) and list(g.mesh.n) == list(n) and tuple(gr.dims) == tuple(fr.dims)
                and tuple(gr.units) == tuple(fr.units) and gr.tolerance_factor == fr.tolerance_factor and bool(g.mesh == f.mesh),
                "C17.import_mesh", "mesh differs after export/import", got=[gr.pmin, gr.pmax, g.mesh.n, gr.dims, gr.units, gr.tolerance_factor],
                want=[fr.pmin, fr.pmax, n, fr.dims, fr.units, fr.tolerance_factor])
    ctx.require(g.nvdim == nvdim and same_bytes(np.asarray(g.array, dtype=arr.dtype) if g.array.dtype != arr.dtype else g.array, arr) and bool(g == f),
                "C17.import_values", "values differ after export/import")
    labsig = "absent-labels-of-vector-field-imported-as-defaults" if (f.vdims is None and nvdim > 1 and g.vdims is not None) else None
    if nvdim == 1 and f.vdims is not None and g.vdims is None:
        labsig = "scalar-label-lost"
    ctx.require(g.vdims == f.vdims and g.array.dtype == arr.dtype, "C17.import_labels_dtype", "labels or dtype differ after export/import", sig=labsig,
                got=[g.vdims, str(g.array.dtype)], want=[f.vdims, str(arr.dtype)])


def check_strip(pr, ctx, f, arr, pmin, pmax, xa):
    n, nvdim = pr["n"], pr["nvdim"]
    for key in pr["remove"]:
        del xa.attrs[key]
    if not pr["coord_units"]:
        for d in f.mesh.region.dims:
            xa[d].attrs.pop("units", None)
    whole = {"cell", "pmin", "pmax"} <= set(pr["remove"])
    clause = "C17.rebuild" if whole else "C17.partial"
    r, g = raises(Exception, df.Field.from_xarray, xa)
    if not ctx.require(not r, clause, "from_xarray raised with attributes %s removed" % pr["remove"], sig="from_xarray-raises", error=repr(g) if r else None):
        return
    ok = mesh_close(g, pmin, pmax, n) and tuple(g.mesh.region.dims) == tuple(f.mesh.region.dims)
    if pr["coord_units"]:
        ok = ok and tuple(g.mesh.region.units) == tuple(f.mesh.region.units)
    if "tolerance_factor" not in pr["remove"]:
        ok = ok and g.mesh.region.tolerance_factor == pr["tol"]
    ctx.require(ok, clause, "mesh not rebuilt from the coordinates (removed: %s)" % pr["remove"],
                got=[g.mesh.region.pmin, g.mesh.region.pmax, g.mesh.n, g.mesh.region.units], want=[pmin, pmax, n, f.mesh.region.units])
    ctx.require(g.nvdim == nvdim and g.array.dtype == arr.dtype and same_bytes(g.array, arr), clause, "values/dtype changed (removed: %s)" % pr["remove"])


def check_scratch(pr, ctx):
    n, nvdim = pr["n"], pr["nvdim"]
    ndim = len(n)
    pmin = np.minimum(np.asarray(pr["p1"], float), np.asarray(pr["p2"], float))
    pmax = np.maximum(np.asarray(pr["p1"], float), np.asarray(pr["p2"], float))
    cen = centres(pmin, pmax, n)
    arr = make_array(pr["seed"], (*n, nvdim), pr["dtype"])
    dims = list(pr["dims"])
    coords = {d: cen[j] for j, d in enumerate(dims)}
    labels = ["c%d" % i for i in range(nvdim)]
    if nvdim > 1:
        data, ddims = arr, dims + ["vdims"]
        if pr["labels"]:
            coords["vdims"] = labels
    else:
        data, ddims = arr[..., 0], dims
    xa = xr.DataArray(data, dims=ddims, coords=coords, name="scratch", attrs={"nvdim": nvdim})
    r, g = raises(Exception, df.Field.from_xarray, xa)
    if not ctx.require(not r, "C17.scratch", "from_xarray raised on an attribute-free DataArray", sig="from_xarray-raises", error=repr(g) if r else None):
        return
    ok = mesh_close(g, pmin, pmax, n) and tuple(g.mesh.region.dims) == tuple(dims) and g.nvdim == nvdim
    ctx.require(ok, "C17.scratch", "mesh is not half a spacing beyond the outermost coordinates",
                got=[g.mesh.region.pmin, g.mesh.region.pmax, g.mesh.n, g.mesh.region.dims], want=[pmin, pmax, n, dims])
    okv = g.array.dtype == arr.dtype and same_bytes(g.array, arr) and (not (nvdim > 1 and pr["labels"]) or g.vdims == labels)
    ctx.require(okv, "C17.scratch", "values / dtype / labels differ", got=[str(g.array.dtype), g.vdims])
