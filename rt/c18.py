"""C18 bounded run-time tier: FieldRotator against explicit rotation-matrix formulas, an axis-aligned
bounding box computed from the 8 rotated corners and a hand-written trilinear interpolation.
Bounded: 3-d meshes with 3..7 cells per axis (thin 1..2-cell axes in some cases), seeded rotations of all
input kinds, sequences of up to 3 rotations; originals of every storage dtype (dtype= keyword given as type / str / np.dtype:
int, int32, int8, uint8, bool, float32, float64, complex, complex64; integer data without the keyword) and with unit / valid mask / named vdims /
mesh bc and subregions - the oracle is always computed in float64 / complex128 from the values the original stores."""
import math
import warnings
import numpy as np
import discretisedfield as df
from .common import raises

PROPERTY = "C18"
EPS = np.finfo(float).eps
CLAUSES = {
    "C18.region": "the rotated field lives on the axis-aligned bounding box of the 8 rotated corners (rotation about the region centre): same centre, pmin/pmax to 16 ulp of (|centre| + diagonal)",
    "C18.resolution": "an explicit n is used as given; the default n is a positive integer per axis; either way the mesh spans exactly the bounding box",
    "C18.interpolated": "cells whose back-rotated centre is >= 1 cell inside the original region carry Q * (trilinear interpolation of the original between the 8 surrounding cell centres); budget 64 eps * max|v| * (1 + max|coordinate|/min cell)",
    "C18.uniform": "uniform 3-vector field v: cells >= 1 cell inside carry Q*v (64 eps |v| per component)",
    "C18.linear_scalar": "linear scalar field a.p+b: cells >= 1 cell inside carry a.(C + Q^T (c - C)) + b (same budget as interpolated, max|v| over the original region)",
    "C18.zero_outside": "cells whose back-rotated centre lies outside the original region (by more than 1e-8 cell) are exactly zero in every component",
    "C18.composition": "after rotations R1, R2(, R3) the field is the ORIGINAL rotated by Q = Q3 Q2 Q1 (later rotations applied after earlier ones): region, interpolated/uniform/linear values with the composed Q, and it equals a fresh single rotation by that matrix on the same n (64 ulp budget as interpolated)",
    "C18.clear": "clear_rotation() makes .field the original field again (same object) and a following rotation starts from the original (equals a fresh rotator's result exactly)",
    "C18.quarter_turn": "cubic cells: k quarter turns about a coordinate axis (euler / rotvec / matrix) give the same mesh (n equal, corners 16 ulp) and array (budget as interpolated) as Field.rotate90 applied k times",
    "C18.permuted_mapping": "3-vector fields with permuted vdim_mapping: the component mapped to axis d is treated as the d-component of the vector (values per C18.interpolated/uniform with the spatial vector assembled through the mapping); vdims, vdim_mapping and nvdim of the result are those of the original",
    "C18.rotation_input": "the rotation matrix used equals the explicit formula for the given input kind (quaternion x,y,z,w; matrix; rotation vector = Rodrigues; Euler extrinsic lower-case / intrinsic upper-case, radians or degrees; mrp; align_vector = rotation about initial x final by the angle between them) - observed through uniform / linear fields",
    "C18.refuse": "fields with nvdim 2 or 4, meshes of 1, 2 or 4 dimensions, 3-vectors with empty mapping, mapping to unknown dims or mapping two components to one axis are refused with ValueError (at construction, or at the first rotate for the duplicate mapping)",
}
RULE = ("rotate: seeded 3-d meshes (3..7 cells per axis, anisotropic cells ratio <= 3, scale 10^U(-9,0), offset up to 3 extents, optional custom dims) x field kind "
        "(uniform 3-vector, linear scalar, random scalar, random 3-vector, linear 3-vector) x mapping (default / permuted with custom vdims) x sequences of "
        "1-3 rotations, each given as quaternion (unnormalised), matrix, rotvec, Euler (1-3 axes, extrinsic/intrinsic, rad/deg), mrp or align_vector, x "
        "default or explicit n; every step of a sequence is checked with the composed matrix; typed: the same checks on originals created with "
        "dtype= (int, int32, '<i4', np.dtype(int64), int8, uint8, bool, float32, float64, complex, complex64), with integer data and no keyword, or with the default dtype, "
        "x value given as array (integer or float array) / tuple / callable x unit x valid mask x named vdims (scalar and vector, default-order or permuted mapping) x mesh bc / subregions; "
        "their values are exactly representable in the dtype (integers, dyadic fractions; linear fields = integer coefficients per cell index) or random, and the oracle reads the stored "
        "array back as float64 / complex128; quarter: cubic cells, n 1..6 per axis, 1-4 successive quarter turns; "
        "typed quarter turns compare with Field.rotate90 of the float64 / complex128 twin of the original; refuse: fixed list; trivial = no cell >= 1 cell inside; distinct by (kind, params)")
ASSUMPTIONS = [
    "bounded: <= 7 cells per axis, sequences of <= 3 rotations, seeded rotations",
    "a band of 1e-8 cell around the region boundary is excluded from the zero-outside clause (rounding of the back-rotation; the library documents a 1e-9 cell boundary tolerance)",
    "rounding budget for interpolated values is conditioned on position: 64 eps * max|v| * (1 + max|coordinate| / min cell)",
    "cells whose back-rotated centre is inside but < 1 cell from the boundary are not constrained (the property does not constrain them), except for quarter turns",
    "trusted: numpy; scipy only inside the library under test (rotation matrices in the oracle come from explicit formulas)",
    "dims/units of the new region and unit/valid of the new field are not constrained by the property and not checked",
    "the dtype of the result's array is not constrained as such - only its values (to the float64 budgets above), for every storage dtype of the original; values of cells "
    "marked invalid take part in the interpolation like any other stored value (the property does not mention valid)",
    "typed quarter turns: the reference is Field.rotate90 of a float64 / complex128 field holding the same values (rotate90 of integer fields is C12's business)",
]

VD = ["ma", "mb", "mc"]


# ---------------------------------------------------------------------------------- rotation oracles
def _rx(a):
    c, s = math.cos(a), math.sin(a)
    return np.array([[1, 0, 0], [0, c, -s], [0, s, c]], dtype=float)


def _ry(a):
    c, s = math.cos(a), math.sin(a)
    return np.array([[c, 0, s], [0, 1, 0], [-s, 0, c]], dtype=float)


def _rz(a):
    c, s = math.cos(a), math.sin(a)
    return np.array([[c, -s, 0], [s, c, 0], [0, 0, 1]], dtype=float)


def _axis_angle(axis, ang):
    """Rodrigues formula"""
    k = np.asarray(axis, dtype=float)
    k = k / math.sqrt(float(k @ k))
    K = np.array([[0, -k[2], k[1]], [k[2], 0, -k[0]], [-k[1], k[0], 0]])
    return np.eye(3) + math.sin(ang) * K + (1 - math.cos(ang)) * (K @ K)


def _quat_matrix(q):
    x, y, z, w = (float(t) for t in q)
    s = math.sqrt(x * x + y * y + z * z + w * w)
    x, y, z, w = x / s, y / s, z / s, w / s
    return np.array([
        [1 - 2 * (y * y + z * z), 2 * (x * y - z * w), 2 * (x * z + y * w)],
        [2 * (x * y + z * w), 1 - 2 * (x * x + z * z), 2 * (y * z - x * w)],
        [2 * (x * z - y * w), 2 * (y * z + x * w), 1 - 2 * (x * x + y * y)]])


def rotation_matrix(spec):
    """explicit matrix of one rotation specification (dict, JSON-able)"""
    m = spec["method"]
    if m == "from_quat":
        return _quat_matrix(spec["quat"])
    if m == "from_matrix":
        return np.array(spec["matrix"], dtype=float)
    if m == "from_rotvec":
        v = np.array(spec["rotvec"], dtype=float)
        ang = math.sqrt(float(v @ v))
        if spec.get("degrees"):
            ang = math.radians(ang)
        return np.eye(3) if ang == 0 else _axis_angle(v, ang)
    if m == "from_mrp":
        p = np.array(spec["mrp"], dtype=float)
        t = math.sqrt(float(p @ p))
        return np.eye(3) if t == 0 else _axis_angle(p, 4 * math.atan(t))
    if m == "from_euler":
        seq, ang = spec["seq"], spec["angles"]
        ang = [ang] if not isinstance(ang, (list, tuple)) else list(ang)
        if spec.get("degrees"):
            ang = [math.radians(a) for a in ang]
        el = {"x": _rx, "y": _ry, "z": _rz}
        Q = np.eye(3)
        for ch, a in zip(seq, ang):
            E = el[ch.lower()](a)
            Q = (E @ Q) if seq.islower() else (Q @ E)   # extrinsic: later on the left ; intrinsic: later on the right
        return Q
    if m == "align_vector":
        i = np.array(spec["initial"], dtype=float)
        f = np.array(spec["final"], dtype=float)
        c = np.cross(i, f)
        return _axis_angle(c, math.atan2(math.sqrt(float(c @ c)), float(i @ f)))
    raise ValueError(m)


def apply_rotation(rot, spec, n=None):
    """call the library with the specification"""
    m = spec["method"]
    kw = {} if n is None else {"n": tuple(n)}
    if m == "from_quat":
        return rot.rotate("from_quat", list(spec["quat"]), **kw)
    if m == "from_matrix":
        return rot.rotate("from_matrix", np.array(spec["matrix"]), **kw)
    if m == "from_rotvec":
        if spec.get("degrees"):
            return rot.rotate("from_rotvec", list(spec["rotvec"]), degrees=True, **kw)
        return rot.rotate("from_rotvec", list(spec["rotvec"]), **kw)
    if m == "from_mrp":
        return rot.rotate("from_mrp", list(spec["mrp"]), **kw)
    if m == "from_euler":
        if spec.get("kwargs_style"):
            return rot.rotate("from_euler", seq=spec["seq"], angles=spec["angles"], degrees=bool(spec.get("degrees")), **kw)
        return rot.rotate("from_euler", spec["seq"], spec["angles"], degrees=bool(spec.get("degrees")), **kw)
    if m == "align_vector":
        return rot.rotate("align_vector", initial=list(spec["initial"]), final=list(spec["final"]), **kw)
    raise ValueError(m)


# ---------------------------------------------------------------------------------- enumeration
def _rand_unit(rng):
    v = rng.normal(size=3)
    return v / np.linalg.norm(v)


def _rand_angle(rng):
    k = rng.integers(6)
    if k == 0:
        return float(rng.uniform(0.01, 0.2))
    if k == 1:
        return float(rng.uniform(2.9, 3.1))
    return float(rng.uniform(0.2, 2.9)) * (1 if rng.integers(2) else -1)


def _rand_spec(rng, method):
    ax, ang = _rand_unit(rng), _rand_angle(rng)
    if method == "from_quat":
        q = np.append(ax * math.sin(ang / 2), math.cos(ang / 2)) * float(rng.uniform(0.3, 3.0))   # scipy normalises
        return {"method": method, "quat": q.tolist()}
    if method == "from_matrix":
        return {"method": method, "matrix": _axis_angle(ax, ang).tolist()}
    if method == "from_rotvec":
        if rng.integers(3) == 0:
            return {"method": method, "rotvec": (ax * math.degrees(abs(ang))).tolist(), "degrees": True}
        return {"method": method, "rotvec": (ax * abs(ang)).tolist()}
    if method == "from_mrp":
        return {"method": method, "mrp": (ax * math.tan(abs(ang) / 4)).tolist()}
    if method == "from_euler":
        seqs = ["x", "y", "z", "xy", "zx", "yz", "xyz", "zyx", "zxz", "yxz", "XYZ", "ZYX", "ZXZ", "YZ", "X", "xzy"]
        seq = seqs[int(rng.integers(len(seqs)))]
        deg = bool(rng.integers(2))
        angles = [(_rand_angle(rng)) for _ in seq]
        if deg:
            angles = [math.degrees(a) for a in angles]
        return {"method": method, "seq": seq, "angles": angles if len(seq) > 1 else angles[0], "degrees": deg,
                "kwargs_style": bool(rng.integers(2))}
    if method == "align_vector":
        i = _rand_unit(rng) * float(rng.uniform(0.5, 4))
        Q = _axis_angle(_rand_unit(rng), float(rng.uniform(0.3, 2.8)))
        f = Q @ i * float(rng.uniform(0.5, 4))
        return {"method": method, "initial": i.tolist(), "final": f.tolist()}
    raise ValueError(method)


METHODS = ["from_quat", "from_matrix", "from_rotvec", "from_euler", "align_vector", "from_mrp"]
FIELDS = ["uniform3", "linear1", "random1", "random3", "linear3"]


def cases(ctx):
    rng = ctx.rng
    reps = 4 if ctx.tier == "quick" else 40
    j = 0
    for _ in range(reps):
        for fk in FIELDS:
            for first in METHODS:
                for nrot in (1, 2, 3):
                    j += 1
                    if ctx.tier == "quick" and nrot == 3 and j % 2:
                        continue
                    n = rng.integers(3, 8, size=3).tolist()
                    if j % 9 == 0:
                        n[int(rng.integers(3))] = int(rng.integers(1, 3))     # thin axis (film): region / zero clauses still apply
                    scale = float(10.0 ** rng.uniform(-9, 0))
                    rots = [_rand_spec(rng, first)] + [_rand_spec(rng, METHODS[int(rng.integers(len(METHODS)))]) for _ in range(nrot - 1)]
                    yield "rotate", {
                        "n": n, "cell": (scale * rng.uniform(1, 3, size=3)).tolist(),
                        "p1": (scale * rng.uniform(-3, 3, size=3) * (n[0] if j % 4 else 0)).tolist(),
                        "field": fk, "mapping": "perm%d" % int(rng.integers(1, 6)) if (fk.endswith("3") and j % 2) else "default",
                        "custom_dims": bool(j % 10 == 3),
                        "rotations": rots,
                        "new_n": rng.integers(2, 10, size=3).tolist() if j % 3 == 0 else None,
                        "seed": int(rng.integers(1 << 30))}
    # quarter turns on cubic cells
    qreps = 40 if ctx.tier == "quick" else 400
    for i in range(qreps):
        n = rng.integers(1, 7, size=3).tolist()
        scale = float(10.0 ** rng.uniform(-9, 0))
        turns = [{"axis": "xyz"[int(rng.integers(3))], "k": int(rng.choice([1, -1, 2, 3])) if s == 0 else int(rng.choice([1, -1])),
                  "how": ["euler", "rotvec", "matrix", "euler_deg"][int(rng.integers(4))]} for s in range(int(rng.integers(1, 5)))]
        yield "quarter", {"n": n, "cell": scale, "p1": (scale * rng.uniform(-3, 3, size=3) * (n[0] if i % 3 else 0)).tolist(),
                          "field": ["random1", "random3"][i % 2], "mapping": "perm%d" % int(rng.integers(1, 6)) if i % 4 == 1 else "default",
                          "turns": turns, "seed": int(rng.integers(1 << 30))}
    # typed originals: every storage dtype x field kind, metadata options cycled with co-prime periods
    treps = 2 if ctx.tier == "quick" else 14
    j = 0
    for rep in range(treps):
        for key in TYPED:
            for fk in FIELDS:
                if key == "bool" and fk.startswith("linear"):
                    continue                  # no non-constant linear boolean field
                j += 1
                nrot = 1 + (j + rep) % 2 if ctx.tier == "quick" or j % 5 else 3
                n = rng.integers(3, 8, size=3).tolist()
                scale = float(10.0 ** rng.uniform(-9, 0))
                if fk.endswith("3"):
                    mapping = ["default", "perm%d" % int(rng.integers(1, 6)), "named"][(j + rep) % 3]
                else:
                    mapping = "default"
                yield "typed", {
                    "n": n, "cell": (scale * rng.uniform(1, 3, size=3)).tolist(),
                    "p1": (scale * rng.uniform(-3, 3, size=3) * (n[0] if j % 4 else 0)).tolist(),
                    "field": fk, "mapping": mapping, "custom_dims": bool(j % 7 == 3),
                    "dtype": key, "form": ["array", "callable", "array_float"][(j + rep) % 3],
                    "unit": [None, "A/m", "T"][j % 3], "valid": ["all", "mask", "mask"][(j // 2) % 3],
                    "scalar_vdims": bool(j % 2), "mesh_meta": ["none", "bc", "sub", "both"][(j + 2 * rep) % 4],
                    "rotations": [_rand_spec(rng, METHODS[int(rng.integers(len(METHODS)))]) for _ in range(nrot)],
                    "new_n": rng.integers(2, 10, size=3).tolist() if j % 3 == 0 else None,
                    "seed": int(rng.integers(1 << 30))}
    tq = 26 if ctx.tier == "quick" else 260
    for i in range(tq):
        n = rng.integers(1, 7, size=3).tolist()
        scale = float(10.0 ** rng.uniform(-9, 0))
        key = TYPED[i % len(TYPED)]
        turns = [{"axis": "xyz"[int(rng.integers(3))], "k": int(rng.choice([1, -1, 2, 3])) if s == 0 else int(rng.choice([1, -1])),
                  "how": ["euler", "rotvec", "matrix", "euler_deg"][int(rng.integers(4))]} for s in range(int(rng.integers(1, 4)))]
        yield "quarter", {"n": n, "cell": scale, "p1": (scale * rng.uniform(-3, 3, size=3) * (n[0] if i % 3 else 0)).tolist(),
                          "field": ["random3", "random1", "linear3"][(i // len(TYPED) + i) % 3] if key != "bool" else ["random3", "random1"][i % 2],
                          "mapping": ["default", "perm%d" % int(rng.integers(1, 6)), "named"][i % 3],
                          "dtype": key, "form": ["array", "callable", "array_float"][i % 3], "unit": [None, "A/m"][i % 2],
                          "valid": ["all", "mask"][(i // 2) % 2], "scalar_vdims": bool(i % 2), "mesh_meta": ["none", "bc", "sub", "both"][i % 4],
                          "turns": turns, "seed": int(rng.integers(1 << 30))}
    for what in ("nvdim2", "nvdim4", "ndim1", "ndim2", "ndim4", "ndim2_vec3", "empty_mapping", "unknown_dims", "duplicate_mapping", "ok_scalar", "ok_vector"):
        yield "refuse", {"what": what}


# ---------------------------------------------------------------------------------- construction
PERMS = {"default": (0, 1, 2), "perm1": (0, 2, 1), "perm2": (1, 0, 2), "perm3": (1, 2, 0), "perm4": (2, 0, 1), "perm5": (2, 1, 0)}


# storage dtypes of the original: key -> (dtype keyword or None, class, max |value| of exactly representable test data)
TYPED = ["int", "int32", "float32", "complex", "int_nokw", "float64", "int8", "uint8", "bool", "complex64", "str_int32", "npdtype_int", "none"]
_DT = {
    "int": (int, "int", None), "int32": (np.int32, "int", None), "str_int32": ("<i4", "int", None), "npdtype_int": (np.dtype("int64"), "int", None),
    "int_nokw": (None, "int", None), "int8": (np.int8, "int", 100), "uint8": (np.uint8, "uint", 200), "bool": (bool, "bool", 1),
    "float32": (np.float32, "float", None), "float64": (float, "float", None), "none": (None, "float", None),
    "complex": (complex, "complex", None), "complex64": (np.complex64, "complex", None),
}


def _exact_values(pr, rng, n, nv):
    """test data whose values are exactly representable in the storage dtype, as float64 / complex128 (*n, nv);
    linear scalar: integer coefficients per cell index, value = ai . index + bi (info: ai (3,), bi)"""
    key, fk = pr["dtype"], pr["field"]
    _, cls, M = _DT[key]
    if M is None:
        M = int(10 ** rng.integers(0, 6))
    I = np.stack(np.meshgrid(*[np.arange(k) for k in n], indexing="ij"), axis=-1).astype(float)     # (*n, 3) cell indices
    lo = 0 if cls in ("uint", "bool") else -M
    c = max(1, M // 40)

    def part():
        if fk == "uniform3":
            v = rng.integers(lo, M + 1, size=3)
            while not np.any(v):
                v = rng.integers(lo, M + 1, size=3)
            return np.broadcast_to(v.astype(float), (*n, 3)).copy(), None
        if fk == "linear1":
            ai = rng.integers(0 if lo == 0 else -c, c + 1, size=3).astype(float)
            if not np.any(ai):
                ai[int(rng.integers(3))] = 1.0
            bi = float(rng.integers(0 if lo == 0 else -(M // 2), max(1, M // 2) + 1))
            return (I @ ai + bi)[..., None], (ai, bi)
        if fk == "linear3":
            Ai = rng.integers(0 if lo == 0 else -c, c + 1, size=(3, 3)).astype(float)
            bi = rng.integers(0 if lo == 0 else -(M // 2), max(1, M // 2) + 1, size=3).astype(float)
            return I @ Ai.T + bi, None
        if cls == "float" or cls == "complex":
            return rng.normal(size=(*n, nv)) * M, None            # rounded to the storage dtype by the constructor; the oracle reads it back
        return rng.integers(lo, M + 1, size=(*n, nv)).astype(float), None

    re, lin = part()
    s = float(2.0 ** rng.integers(-8, 9)) if cls in ("float", "complex") else 1.0         # dyadic scale: still exact in float32 / complex64
    info = {}
    if cls == "complex":
        im, lin_im = part()
        raw = (re + 1j * im) * s
        if lin is not None:
            info["ai"], info["bi"] = (lin[0] + 1j * lin_im[0]) * s, (lin[1] + 1j * lin_im[1]) * s
    else:
        raw = re * s
        if lin is not None:
            info["ai"], info["bi"] = lin[0] * s, lin[1] * s
    return raw, info


def _build(pr, rng):
    n = list(pr["n"])
    cell = np.array(pr["cell"], dtype=float) * np.ones(3)
    p1 = np.array(pr["p1"], dtype=float)
    p2 = p1 + np.array(n) * cell
    if pr.get("custom_dims"):
        region = df.Region(p1=tuple(p1), p2=tuple(p2), dims=["u", "v", "w"], units=["nm", "nm", "nm"])
    else:
        region = df.Region(p1=tuple(p1), p2=tuple(p2))
    dims = list(region.dims)
    pmin = np.minimum(p1, p2)
    typed = "dtype" in pr
    mkw = {}
    mm = pr.get("mesh_meta", "none")
    if mm in ("bc", "both"):
        mkw["bc"] = dims[0] + dims[2]
    mesh = None
    if mm in ("sub", "both"):
        # a sub-block of whole cells; if the library finds it misaligned (rounding of k*cell) the whole region is used instead
        k = np.maximum(1, np.array(n) // 2)
        for q2 in (pmin + k * cell, p2):
            sub = df.Region(p1=tuple(pmin), p2=tuple(q2), dims=dims, units=list(region.units))
            r, mesh = raises(Exception, df.Mesh, region=region, n=tuple(n), subregions={"s0": sub}, **mkw)
            if not r:
                break
            mesh = None
    if mesh is None:
        mesh = df.Mesh(region=region, n=tuple(n), **mkw)
    centres = [pmin[a] + (np.arange(n[a]) + 0.5) * cell[a] for a in range(3)]
    P = np.stack(np.meshgrid(*centres, indexing="ij"), axis=-1)          # (*n, 3) own cell centres
    fk = pr["field"]
    info = {}
    nv = 3 if fk.endswith("3") else 1
    if typed:
        data, info = _exact_values(pr, rng, n, nv)
    else:
        vs = float(10.0 ** rng.integers(-3, 7))
        if fk == "uniform3":
            v = rng.normal(size=3) * vs
            data = np.broadcast_to(v, (*n, 3)).copy()
        elif fk == "linear1":
            a = rng.normal(size=3) * vs / cell
            b = float(rng.normal() * vs)
            data = (P @ a + b)[..., None]
            info["a"], info["b"] = a, b
        elif fk == "linear3":
            A = rng.normal(size=(3, 3)) * vs / cell
            b = rng.normal(size=3) * vs
            data = P @ A.T + b
        elif fk == "random1":
            data = rng.normal(size=(*n, 1)) * vs
        elif fk == "random3":
            data = rng.normal(size=(*n, 3)) * vs
    mapping = pr.get("mapping", "default")
    perm = PERMS["default" if mapping == "named" else mapping]      # component i is mapped to axis perm[i]
    kw = {}
    if nv == 3 and (mapping != "default" or pr.get("custom_dims")):
        kw["vdims"] = VD
        kw["vdim_mapping"] = {VD[i]: dims[perm[i]] for i in range(3)}
    if nv == 1 and pr.get("scalar_vdims"):
        kw["vdims"] = ["rho"]
    if pr.get("unit") is not None:
        kw["unit"] = pr["unit"]
    if pr.get("valid", "all") == "mask":
        mask = rng.integers(0, 2, size=tuple(n)).astype(bool)
        mask[tuple(rng.integers(0, k) for k in n)] = False
        kw["valid"] = mask
    if typed:
        dt, cls, _ = _DT[pr["dtype"]]
        if dt is not None:
            kw["dtype"] = dt
        form = pr.get("form", "array")
        native = {"int": np.int64, "uint": np.int64, "bool": bool, "float": np.float64, "complex": np.complex128}[cls]
        if pr["dtype"] == "int_nokw" or form != "array_float":
            inp = data.astype(native)              # exact: data holds values of that kind
        else:
            inp = data.copy()                      # float64 / complex128 array holding integer (dyadic) values + dtype keyword
        if form == "callable":
            def value(p, _inp=inp):
                idx = tuple(int(t) for t in np.rint((np.asarray(p, dtype=float) - pmin) / cell - 0.5))
                return _inp[idx].tolist() if nv > 1 else _inp[idx][0].item()
        elif fk == "uniform3":
            value = tuple(inp[0, 0, 0].tolist())   # the documented form  Field(mesh, nvdim=3, value=(0, 0, 1), dtype=int)
        else:
            value = inp
        f = df.Field(mesh, nvdim=nv, value=value, **kw)
        # the oracle works on the values the original STORES, read back in float64 / complex128
        data = np.array(f.array, dtype=np.complex128 if np.iscomplexobj(f.array) else np.float64)
        if fk == "uniform3":
            info["v"] = data[0, 0, 0].copy()
    else:
        f = df.Field(mesh, nvdim=nv, value=data.copy(), **kw)
        if fk == "uniform3":
            info["v"] = v
    if nv == 3:
        # data holds the COMPONENTS; the spatial vector has axis-d entry = component mapped to d
        inv = [perm.index(d) for d in range(3)]
        info["to_spatial"] = inv                  # spatial[d] = comp[inv[d]]
        info["perm"] = list(perm)                 # comp[i] = spatial[perm[i]]
        if fk == "uniform3":
            info["v_spatial"] = info["v"][inv]
    info["storage"] = str(f.array.dtype)
    return mesh, f, data, info


# ---------------------------------------------------------------------------------- oracles
def bbox(pmin, pmax, Q):
    C = (pmin + pmax) / 2
    corners = np.array([[x, y, z] for x in (pmin[0], pmax[0]) for y in (pmin[1], pmax[1]) for z in (pmin[2], pmax[2])])
    rc = C + (corners - C) @ Q.T
    return rc.min(axis=0), rc.max(axis=0)


def trilinear(data, pmin, cell, pts):
    """data (*n, nv) at cell centres ; pts (M,3) all >= 1 cell inside ; returns (M, nv)"""
    n = np.array(data.shape[:3])
    u = (pts - pmin) / cell - 0.5
    i0 = np.clip(np.floor(u).astype(int), 0, np.maximum(n - 2, 0))
    w = u - i0
    out = np.zeros((len(pts), data.shape[-1]), dtype=data.dtype)
    for dx in (0, 1):
        for dy in (0, 1):
            for dz in (0, 1):
                wt = (w[:, 0] if dx else 1 - w[:, 0]) * (w[:, 1] if dy else 1 - w[:, 1]) * (w[:, 2] if dz else 1 - w[:, 2])
                idx = np.minimum(i0 + np.array([dx, dy, dz]), n - 1)
                out += wt[:, None] * data[idx[:, 0], idx[:, 1], idx[:, 2]]
    return out


def _expected(Q, mesh, data, info, g, fk):
    """oracle for the rotated field g (only its mesh geometry is read): returns dict with masks and expected values"""
    pmin = np.asarray(mesh.region.pmin, dtype=float)
    pmax = np.asarray(mesh.region.pmax, dtype=float)
    cell = (pmax - pmin) / np.asarray(mesh.n)
    C = (pmin + pmax) / 2
    gn = np.asarray(g.mesh.n)
    gmin = np.asarray(g.mesh.region.pmin, dtype=float)
    gcell = (np.asarray(g.mesh.region.pmax, dtype=float) - gmin) / gn
    cen = [gmin[a] + (np.arange(gn[a]) + 0.5) * gcell[a] for a in range(3)]
    c = np.stack(np.meshgrid(*cen, indexing="ij"), axis=-1).reshape(-1, 3)
    back = C + (c - C) @ Q            # Q^T (c - C)
    inside = np.all((back >= pmin + cell) & (back <= pmax - cell), axis=1)
    outside = np.any((back < pmin - 1e-8 * cell) | (back > pmax + 1e-8 * cell), axis=1)
    nv = data.shape[-1]
    want = np.zeros((len(c), nv), dtype=data.dtype)
    if inside.any():
        pts = back[inside]
        if fk == "uniform3":
            sp = np.broadcast_to(Q @ info["v_spatial"], (len(pts), 3))
            w = sp[:, info["perm"]]
        elif fk == "linear1" and "ai" in info:
            # linear in the cell index: a.p + b with a = ai / cell, b = bi - a.(pmin + cell/2), evaluated in index coordinates
            w = (((pts - pmin) / cell - 0.5) @ info["ai"] + info["bi"])[:, None]
        elif fk == "linear1":
            w = (pts @ info["a"] + info["b"])[:, None]
        else:
            t = trilinear(data, pmin, cell, pts)
            if nv == 3:
                sp = t[:, info["to_spatial"]] @ Q.T
                w = sp[:, info["perm"]]
            else:
                w = t
        want[inside] = w
    return {"inside": inside, "outside": outside, "want": want, "back": back}


def _budget(mesh, g, data):
    cmax = max(np.max(np.abs(mesh.region.pmin)), np.max(np.abs(mesh.region.pmax)),
               np.max(np.abs(g.mesh.region.pmin)), np.max(np.abs(g.mesh.region.pmax)))
    return 64 * EPS * float(np.max(np.abs(data))) * (1 + cmax / float(np.min(mesh.cell)))


def _check_geometry(ctx, mesh, g, Q, new_n, clause_region="C18.region"):
    pmin = np.asarray(mesh.region.pmin, dtype=float)
    pmax = np.asarray(mesh.region.pmax, dtype=float)
    lo, hi = bbox(pmin, pmax, Q)
    C = (pmin + pmax) / 2
    tol = 16 * EPS * (np.max(np.abs(C)) + np.linalg.norm(pmax - pmin))
    gmin, gmax = np.asarray(g.mesh.region.pmin, dtype=float), np.asarray(g.mesh.region.pmax, dtype=float)
    ok = bool(np.all(np.abs(gmin - lo) <= tol) and np.all(np.abs(gmax - hi) <= tol))
    ctx.require(ok, clause_region, "region of the rotated field is not the bounding box of the rotated region", got=[gmin, gmax], want=[lo, hi])
    ctx.require(bool(np.all(np.abs(np.asarray(g.mesh.region.center) - C) <= tol)), clause_region, "centre moved", got=g.mesh.region.center, want=C)
    gn = list(int(k) for k in g.mesh.n)
    if new_n is not None:
        ctx.require(gn == list(new_n), "C18.resolution", "explicit n not honoured", got=gn, want=new_n)
    else:
        ctx.require(all(k >= 1 for k in gn), "C18.resolution", "default n is not positive", got=gn)
    ctx.require(g.mesh.region.ndim == 3 and g.array.shape[:3] == tuple(gn), "C18.resolution", "array shape does not match the mesh")
    return ok


def _value_sig(data, g):
    """complex originals whose rotated field holds a real array form a defect class of their own (imaginary part dropped);
    everything else keeps the default signature (= kind)"""
    if np.iscomplexobj(data) and not np.iscomplexobj(g.array):
        return "complex-original-rotated-field-real"
    return None


def _check_values(ctx, mesh, f, data, info, g, Q, fk, clauses, what):
    """clauses: list of clause ids under which the value comparison is stated"""
    ex = _expected(Q, mesh, data, info, g, fk)
    what = "%s [original stores %s, rotated field stores %s]" % (what, info.get("storage"), g.array.dtype)
    nv = data.shape[-1]
    ok_shape = g.nvdim == nv and g.array.shape[-1] == nv
    for cl in clauses:
        ctx.require(ok_shape, cl, "%s: nvdim of the rotated field" % what, got=g.array.shape)
    if not ok_shape:
        return ex
    got = g.array.reshape(-1, nv)
    ins, out = ex["inside"], ex["outside"]
    if fk == "uniform3":
        tol = 64 * EPS * float(np.linalg.norm(info["v"]))
    else:
        tol = _budget(mesh, g, data)
    if ins.any():
        err = np.abs(got[ins] - ex["want"][ins])
        ok = bool(np.all(err <= tol))
        k = int(np.argmax(err.max(axis=1)))
        for cl in clauses:
            ctx.require(ok, cl, "%s: interior cells differ from Q applied to the (interpolated) original (float64 / complex128 oracle on the stored values)" % what,
                        sig=_value_sig(data, g), worst_over_budget=float(err.max() / tol), cells=int(ins.sum()), got=got[ins][k], want=ex["want"][ins][k], back=ex["back"][ins][k])
    if out.any():
        ctx.require(bool(np.all(got[out] == 0.0)), "C18.zero_outside", "%s: a cell whose back-rotated centre is outside the region is not zero" % what,
                    cells=int(out.sum()), nonzero=int(np.count_nonzero(np.any(got[out] != 0, axis=1))))
    return ex


# ---------------------------------------------------------------------------------- checks
def check(kind, pr, ctx):
    with warnings.catch_warnings():
        warnings.simplefilter("ignore")
        if kind in ("rotate", "typed"):
            return check_rotate(pr, ctx)
        if kind == "quarter":
            return check_quarter(pr, ctx)
        if kind == "refuse":
            return check_refuse(pr, ctx)
    raise ValueError(kind)


def _value_clauses(fk, pr, step):
    cl = {"uniform3": ["C18.uniform", "C18.rotation_input"], "linear1": ["C18.linear_scalar", "C18.rotation_input"]}.get(fk, ["C18.interpolated"])
    cl = list(cl)
    if step > 0:
        cl = [c for c in cl if c != "C18.rotation_input"] + ["C18.composition"]
    if pr.get("mapping", "default") != "default" and fk.endswith("3"):
        cl.append("C18.permuted_mapping")
    return cl


def check_rotate(pr, ctx):
    rng = np.random.default_rng(pr["seed"])
    mesh, f, data, info = _build(pr, rng)
    fk = pr["field"]
    r, rot = raises(Exception, df.FieldRotator, f)
    ctx.require(not r, "C18.refuse", "a scalar / 3-vector field with complete mapping on a 3-d mesh was refused", sig="valid-field-refused", error=repr(rot) if r else None)
    if r:
        return
    ctx.require(rot.field is f, "C18.clear", "a fresh rotator does not expose the original field")
    storage = f.array.dtype
    Q = np.eye(3)
    any_inside = False
    specs = pr["rotations"]
    for step, spec in enumerate(specs):
        Qs = rotation_matrix(spec)
        Q = Qs @ Q
        new_n = pr["new_n"]
        r, e = raises(Exception, apply_rotation, rot, spec, new_n)
        ctx.require(not r, "C18.rotation_input", "rotate(%s) raised" % spec["method"], sig="rotate-raises-" + spec["method"], error=repr(e) if r else None)
        if r:
            return
        g = rot.field
        ctx.require(g is not f and f.array.dtype == storage and np.array_equal(f.array, data), "C18.composition" if step else "C18.clear",
                    "rotate() changed the original field (values / storage dtype) or returned it")
        okg = _check_geometry(ctx, mesh, g, Q, new_n)
        if step > 0:
            # (the wrong order Q_earlier Q_later gives a different box / different values unless the rotations commute)
            ctx.require(okg, "C18.composition", "region after successive rotations is not the bounding box for Q_later Q_earlier")
        ex = _check_values(ctx, mesh, f, data, info, g, Q, fk, _value_clauses(fk, pr, step), "step %d (%s)" % (step, spec["method"]))
        any_inside |= bool(ex["inside"].any())
        if data.shape[-1] == 3:
            ctx.require(g.vdims == f.vdims and g.vdim_mapping == f.vdim_mapping and g.nvdim == 3, "C18.permuted_mapping",
                        "vdims / vdim_mapping of the rotated field differ from the original", got=[g.vdims, g.vdim_mapping], want=[f.vdims, f.vdim_mapping])
        if step > 0:
            # consistency: one rotation by the composed matrix on the same n gives the same field
            fresh = df.FieldRotator(f)
            fresh.rotate("from_matrix", Q, n=tuple(int(k) for k in g.mesh.n))
            h = fresh.field
            ha, ga = np.asarray(h.array, dtype=np.complex128), np.asarray(g.array, dtype=np.complex128)
            same = ha.shape == ga.shape and bool(np.all(np.abs(ha - ga) <= _budget(mesh, g, data)))
            ctx.require(same, "C18.composition", "successive rotations differ from a single rotation by Q_later Q_earlier",
                        worst=float(np.max(np.abs(ha - ga))) if ha.shape == ga.shape else None)
    if not any_inside:
        ctx.trivial()
    # clear and restart
    last = rot.field
    rot.clear_rotation()
    ctx.require(rot.field is f and f.array.dtype == storage and np.array_equal(f.array, data) and rot.field.mesh == mesh, "C18.clear",
                "clear_rotation does not restore the original field (object, values, storage dtype, mesh)")
    r, e = raises(Exception, apply_rotation, rot, specs[0], pr["new_n"])
    if ctx.require(not r, "C18.clear", "rotate after clear_rotation raised", error=repr(e) if r else None):
        fresh = df.FieldRotator(f)
        apply_rotation(fresh, specs[0], pr["new_n"])
        a, b = rot.field, fresh.field
        ctx.require(a.mesh == b.mesh and np.array_equal(a.mesh.n, b.mesh.n) and np.array_equal(a.array, b.array), "C18.clear",
                    "rotation after clear_rotation does not start from the original field")
        _check_geometry(ctx, mesh, a, rotation_matrix(specs[0]), pr["new_n"], clause_region="C18.clear")
    ctx.require(last is not f, "C18.clear", "rotated field is the original object")


def _quarter_spec(axis, sign, how):
    ang = sign * math.pi / 2
    if how == "euler":
        return {"method": "from_euler", "seq": axis, "angles": ang, "degrees": False}
    if how == "euler_deg":
        return {"method": "from_euler", "seq": axis, "angles": 90.0 * sign, "degrees": True}
    e = np.eye(3)["xyz".index(axis)]
    if how == "rotvec":
        return {"method": "from_rotvec", "rotvec": (e * ang).tolist()}
    # exact integer matrix
    i = "xyz".index(axis)
    a, b = (i + 1) % 3, (i + 2) % 3
    M = np.zeros((3, 3))
    M[i, i] = 1
    M[b, a] = sign
    M[a, b] = -sign
    return {"method": "from_matrix", "matrix": M.tolist()}


def check_quarter(pr, ctx):
    rng = np.random.default_rng(pr["seed"])
    mesh, f, data, info = _build(pr, rng)
    if int(np.prod(pr["n"])) == 1:
        ctx.trivial()
    rot = df.FieldRotator(f)
    ref = f
    if "dtype" in pr:
        # lattice rotation of the SAME stored values held in float64 / complex128 (same vdims / mapping)
        ref = df.Field(mesh, nvdim=f.nvdim, value=data.copy(), vdims=f.vdims, vdim_mapping=f.vdim_mapping,
                       **({"dtype": complex} if np.iscomplexobj(data) else {}))
    dims = list(mesh.region.dims)
    for t in pr["turns"]:
        i = "xyz".index(t["axis"])
        a, b = dims[(i + 1) % 3], dims[(i + 2) % 3]          # positive rotation about axis i turns a towards b
        k = t["k"]
        sign = 1 if k > 0 else -1
        for _ in range(abs(k)):
            r, e = raises(Exception, apply_rotation, rot, _quarter_spec(t["axis"], sign, t["how"]))
            ctx.require(not r, "C18.quarter_turn", "quarter turn raised", sig="quarter-turn-raises", error=repr(e) if r else None)
            if r:
                return
        ref = ref.rotate90(a, b, k=k)
        g = rot.field
        scale = np.max(np.abs(mesh.region.center)) + np.linalg.norm(mesh.region.edges)
        okm = (np.array_equal(g.mesh.n, ref.mesh.n)
               and bool(np.all(np.abs(np.asarray(g.mesh.region.pmin) - np.asarray(ref.mesh.region.pmin)) <= 16 * EPS * scale))
               and bool(np.all(np.abs(np.asarray(g.mesh.region.pmax) - np.asarray(ref.mesh.region.pmax)) <= 16 * EPS * scale)))
        ctx.require(okm, "C18.quarter_turn", "mesh after quarter turns differs from Field.rotate90", got=[g.mesh.n, g.mesh.region.pmin, g.mesh.region.pmax],
                    want=[ref.mesh.n, ref.mesh.region.pmin, ref.mesh.region.pmax])
        if okm:
            tol = _budget(mesh, g, data)
            err = np.abs(g.array - np.asarray(ref.array, dtype=data.dtype))
            ctx.require(bool(np.all(err <= tol)), "C18.quarter_turn",
                        "values after quarter turns differ from Field.rotate90 [original stores %s, rotated field stores %s]" % (info.get("storage"), g.array.dtype),
                        sig=_value_sig(data, g), worst_over_budget=float(err.max() / tol), turn=t)
        if data.shape[-1] == 3 and pr["mapping"] != "default":
            ctx.require(okm and bool(np.all(np.abs(g.array - np.asarray(ref.array, dtype=data.dtype)) <= _budget(mesh, g, data))), "C18.permuted_mapping",
                        "permuted / named mapping: quarter turn differs from Field.rotate90", sig=_value_sig(data, g))


def check_refuse(pr, ctx):
    what = pr["what"]
    m1 = df.Mesh(p1=0.0, p2=4.0, n=4)
    m2 = df.Mesh(p1=(0.0, 0.0), p2=(4.0, 3.0), n=(4, 3))
    m3 = df.Mesh(p1=(0.0, 0.0, 0.0), p2=(4.0, 3.0, 2.0), n=(4, 3, 2))
    m4 = df.Mesh(p1=(0.0,) * 4, p2=(2.0, 3.0, 2.0, 2.0), n=(2, 3, 2, 2))
    spec = {"method": "from_euler", "seq": "z", "angles": 0.3, "degrees": False}

    def attempt(field):
        """(refused_with_ValueError, other_exception_or_None)"""
        try:
            rot = df.FieldRotator(field)
        except ValueError:
            return True, None
        except Exception as e:       # noqa
            return False, repr(e)
        try:
            apply_rotation(rot, spec)
        except ValueError:
            return True, None
        except Exception as e:       # noqa
            return False, repr(e)
        return False, None
    build = {
        "nvdim2": lambda: df.Field(m3, nvdim=2, value=(1.0, 2.0)),
        "nvdim4": lambda: df.Field(m3, nvdim=4, value=(1.0, 2.0, 3.0, 4.0)),
        "ndim1": lambda: df.Field(m1, nvdim=1, value=1.0),
        "ndim2": lambda: df.Field(m2, nvdim=1, value=1.0),
        "ndim4": lambda: df.Field(m4, nvdim=1, value=1.0),
        "ndim2_vec3": lambda: df.Field(m2, nvdim=3, value=(1.0, 2.0, 3.0), vdim_mapping={"x": "x", "y": "y", "z": "y"}),
        "empty_mapping": lambda: df.Field(m3, nvdim=3, value=(1.0, 2.0, 3.0), vdim_mapping={}),
        "unknown_dims": lambda: df.Field(m3, nvdim=3, value=(1.0, 2.0, 3.0), vdim_mapping={"x": "a", "y": "b", "z": "c"}),
        "duplicate_mapping": lambda: df.Field(m3, nvdim=3, value=(1.0, 2.0, 3.0), vdim_mapping={"x": "x", "y": "x", "z": "z"}),
        "ok_scalar": lambda: df.Field(m3, nvdim=1, value=1.0),
        "ok_vector": lambda: df.Field(m3, nvdim=3, value=(1.0, 2.0, 3.0)),
    }
    field = build[what]()
    refused, other = attempt(field)
    if what.startswith("ok_"):
        ctx.require(not refused and other is None, "C18.refuse", "a valid field was refused", sig="valid-field-refused", error=other)
    else:
        ctx.require(refused, "C18.refuse", "%s: field was not refused with ValueError" % what, sig="not-refused-" + what, error=other)
