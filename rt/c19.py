"""C19 bounded run-time tier: topological-charge / Bloch-point / neighbour-angle / demagnetisation tools
evaluated on the real code and compared with their physical invariances and closed-form values.

Bounded: 2-d meshes <= 16 cells per axis (charge), 3-d meshes <= 10 cells per axis (hedgehog), <= 6 (angles,
emergent field), <= 5 (demag); seeded textures, masks, rotations, rescalings.

The lattice (Berg-Luescher) method is additionally compared with an independent oracle on the whole range of
spherical triangles (Girard's theorem in 200-bit arithmetic): the signed solid angle itself, the per-cell density
with validity handling, and the charge of coarse / rough closed textures (neighbouring vectors up to ~179 degrees apart).

Metadata of the input field: every tool is a spatial formula on the stored component arrays in their stored order, so every value clause is also stated for
fields with a non-default vdim_mapping (all permutations, empty, partial, repeated), component labels, renamed / permuted mesh directions and units, a unit,
dtype float32 / int, the three forms of the mask, and 2-d fields obtained by slicing a 3-d field; each result is compared with that of the plain
default-metadata field holding the same numbers (C19.meta_independent), and the emergent field's own mapping / divergence is checked (C19.emergent_meta)."""
import itertools
import math
import warnings

import mpmath as mp
import numpy as np
import discretisedfield as df
import discretisedfield.tools as dft
from discretisedfield.tools import tools as _tools
from discretisedfield.util import util as _dfu

from .common import raises

PROPERTY = "C19"
METHODS = ("continuous", "berg-luescher")
EPS = float(np.finfo(float).eps)

CLAUSES = {
    "C19.rot_vectors": "Q (both methods) is unchanged by a global proper rotation of all vectors; |dQ| <= 1e-10*max(1, int|q|)",
    "C19.rescale_vectors": "Q (both methods) is unchanged by a positive rescaling of the vector lengths (global factor 1e-12..1e12, and per-cell factors); |dQ| <= 1e-10*max(1, int|q|)",
    "C19.rescale_mesh": "Q (both methods) is unchanged by an anisotropic rescaling plus translation of the mesh (same n, same values); |dQ| <= 1e-10*max(1, int|q|)",
    "C19.quarter_turn": "Q (both methods) is unchanged by Field.rotate90 of the sample (k = 1, 2, 3; mesh, mask and in-plane components rotate); |dQ| <= 1e-10*max(1, int|q|)",
    "C19.reversal": "Q (both methods) changes sign when all vectors are reversed; the absolute charge does not change; |Q(-f)+Q(f)| <= 1e-10*max(1, int|q|)",
    "C19.uniform_zero": "density and charge (both methods, with and without absolute) vanish for uniform fields, for every validity mask; |.| <= 1e-12",
    "C19.bl_integer": "Berg-Luescher charge of a compactly supported texture winding w times with polarity p (two uniform boundary layers) is the integer -w*p, |Q+w*p| <= 1e-9 (dtype float32: 64 float32 ulp), also after a global rotation of the vectors (then integer: the same one)",
    "C19.bl_integer_coarse": "the same on coarse meshes (6..8 cells per axis, one uniform boundary layer, |w| = 1, both polarities, radius >= 1.5 cell half-diagonals*sqrt2, neighbouring vectors up to > 100 deg apart): Berg-Luescher charge is the integer -w*p, |Q+w*p| <= 1e-9, after a global rotation the same integer, after reversal of all vectors +w*p",
    "C19.bl_angle_value": "util.bergluescher_angle(v1,v2,v3) is the signed area/(4 pi) of the geodesic triangle v1 v2 v3 (sign of v1.(v2 x v3); oracle: Girard's angle excess in 200-bit arithmetic) for all non-exceptional triangles - small, needle-like, larger than a quarter sphere, nearly a hemisphere, nearly antipodal pairs; budget 16 eps/rho + 4 eps with rho = sqrt(2(1+v1.v2)(1+v2.v3)(1+v3.v1)) the conditioning of the phase; exactly 0 for coplanar vectors in a half plane or repeated vectors; +-1/8 for octants, +-1/4 for tetrahedron faces",
    "C19.bl_angle_range": "the signed area/(4 pi) lies in [-1/2, 1/2]",
    "C19.bl_angle_sym": "bergluescher_angle is invariant under cyclic permutation of the three vectors and changes sign under a transposition and under reversal of all three vectors (same budget)",
    "C19.density_bl": "Berg-Luescher density at a valid cell equals (sum of the oracle signed areas/(4 pi) of its right-angle triangles (v0,v_i+,v_j+),(v0,v_j+,v_i-),(v0,v_i-,v_j-),(v0,v_j-,v_i+) whose two neighbours exist and are valid) / (number of such triangles * half the cell area); 0 at invalid cells and at cells without a triangle; scalar field on the same mesh; budget sum(32 eps/rho + 8 eps) of the triangles; the charge is the cell-area weighted sum of that",
    "C19.bl_two_triangulations": "for a closed lattice texture (one uniform boundary layer, arbitrary - also random - interior, no mask) the Berg-Luescher charge is (N_A+N_B)/2 with N_A, N_B the whole-number wrappings of the two diagonal triangulations (oracle); when they coincide (wrapping number well defined) it is that integer, |Q-N| <= 1e-9 (budget of the triangles if larger)",
    "C19.known_sign": "the continuous charge of such a whole wrap has the sign of the known charge -w*p (its magnitude is resolution dependent, not claimed)",
    "C19.density_continuous": "continuous density at cells whose 4 neighbours are valid equals n.(d1 n x d2 n)/(4 pi) with central differences of the unit field (tolerance 256 ulp of (1/(d1*d2))/(4pi)); returned field is scalar on the same mesh",
    "C19.charge_integral": "topological_charge == sum(density)*cell area; absolute=True == sum|density|*cell area >= |Q| (256 ulp of int|q|)",
    "C19.bp_hedgehog": "a hedgehog (m = +-(r-c)/|r-c|, centre in the central 30% of a mesh with >= 8 cells per axis) is counted as exactly one Bloch point along x, y and z: outward = tail-to-tail (tt=1, hh=0), reversed = head-to-head (hh=1, tt=0); a uniform field has none",
    "C19.bp_location": "the reported arrangement along the direction is [0]*k + [+-1]*(n-k) (one jump) with k within 1.5 cells of the hedgehog centre (finite-difference smearing of the flux)",
    "C19.emergent": "emergent field at interior cells equals m.(d_k m x d_l m) (cyclic kl = yz, zx, xy) with central differences (256 ulp of the product of the inverse cell edges); 3 components on the same mesh; zero for a uniform field",
    "C19.angle_value": "neighbouring_cell_angle equals the angle between the two unit vectors (atan2(|u x v|, u.v) oracle; rounding budget 64 ulp propagated through arccos: 64*eps/max(sin t, sqrt(eps)) + 64 eps*pi); deg == rad*180/pi",
    "C19.angle_range": "all angles lie in [0, pi] (deg: [0, 180])",
    "C19.angle_mesh": "the angle field is scalar and lives on a mesh with n-1 cells in that direction (same n elsewhere), same cell, same names and units of the directions, region shrunk by half a cell at both ends in that direction (8 ulp of the coordinate scale)",
    "C19.angle_max": "max_neighbouring_cell_angle(f)[i] == max of the angles to the (up to 2*ndim) neighbours of cell i, on the field's own mesh",
    "C19.demag_trace": "Nxx+Nyy+Nzz of demag_tensor(mesh) is -1 at every frequency (modulus 1; the phase is that of the tensor origin sitting in the central cell of the (2n-1) array, i.e. the real-space trace is -1 in the central cell and 0 elsewhere); a-priori rounding budget of the 64-term Newell differences",
    "C19.demag_impls": "demag_tensor(mesh) and _demag_tensor_field_based(mesh) agree (same mesh, vdims xx,yy,zz,xy,xz,yz, values within the Newell rounding budget)",
    "C19.demag_cuboid": "mean demag field of a uniformly magnetised cuboid: mean H_k for M along k, summed over k = x,y,z, equals -|M|; -M/3 each for a cube; transverse means vanish (Newell rounding budget * |M|)",
    "C19.demag_factors": "mean H_k for M along k equals -N_k*M with N_k the analytic demagnetising factor of the cuboid (Aharoni 1998), budget + 1e-11",
    "C19.meta_independent": "every tool (density and charge by both methods, emergent field, Bloch-point count and arrangement, neighbour angles and their maximum, demag tensor / field) "
                            "is a spatial formula on the stored component arrays in their stored order: for a field with non-default metadata (vdim_mapping: every permutation of the directions, "
                            "empty, partial, all None, repeated / non-existing targets; component labels; renamed or permuted names and units of the mesh directions; a unit; dtype float32 / int64 / int32; "
                            "mask given as array, as 'norm' or left at its default; a 2-d field obtained by slicing a 3-d one) it returns what it returns for the plain default-metadata float64 "
                            "field holding the same numbers and the same mask - within twice the rounding budget of the corresponding value clause, eps being that of the stored dtype; "
                            "Bloch-point counts and arrangements are equal; demag_field equals the real-space sum over cells of N(r_i-r_j)M_j with the tensor of the plain mesh; "
                            "the demag functions alone may instead refuse renamed components / directions (any exception, cf. C19.refuse)",
    "C19.emergent_meta": "component k of the emergent field belongs to the k-th direction of the mesh whatever the input's components are declared to point along: "
                         "vdim_mapping == {vdims[k]: dims[k]}, and its .div (what count_bps integrates) is sum_k d_k F_k with central differences at interior cells (64 ulp of max|F| * sum 1/d_k)",
    "C19.refuse": "fields of the wrong number of components or the wrong spatial dimension are refused (ValueError for charge, density, emergent field, angles, Bloch points; any exception instead of a result for the demag functions)",
}
RULE = ("seeded textures (compact skyrmions of winding -2..3, smooth random, rough random, uniform) on anisotropic 2-d meshes with "
        "non-default dims/units/vdims/permuted mapping x masks (none, random, zero vectors with valid='norm', unmasked zero vectors) "
        "x random proper rotations, rescalings 1e-12..1e12, mesh scalings/translations, k=1..3 quarter turns; hedgehogs with seeded "
        "centres on anisotropic 3-d meshes; seeded vector fields for angles/emergent field; cuboids of several aspect ratios with cubic and "
        "non-cubic cells for the demagnetisation clauses; Berg-Luescher on large triangles: seeded triples of unit vectors by class (uniform random, wide = both "
        "neighbours 100..179 deg from the corner, nearly a hemisphere, quarter-sphere boundary, needle, tiny, nearly antipodal pair, exact octants / tetrahedron "
        "faces / coplanar), sharp skyrmions of radius 1.5..2.2 cells on 6..8 cell meshes (both polarities, both chiralities, reversed, rotated), rough lattices "
        "(random unit vectors, random interior inside a uniform frame) x masks (none, random, valid='norm') for the per-cell lattice density; non-trivial = more than one cell and a non-uniform texture (except the uniform kinds); "
        "metadata configurations of the input field (5 non-identity permutations of vdim_mapping, empty / partial / all-None / repeated mapping, component labels incl. reversed x,y,z, "
        "renamed / permuted direction names and units, unit, dtype float32 / int64 / int32, mask as array / 'norm' / default, 2-d field as a slice of a 3-d field along each axis; "
        "2-d: the 6 placements of the two directions among the three components) x every tool (density / charge by both methods with their oracles, whole wraps, uniform fields, "
        "invariances; hedgehogs, angles, emergent field, demag field and cuboid) each compared with the plain field holding the same numbers; "
        "distinct by (kind, params)")
ASSUMPTIONS = [
    "bounded: 2-d meshes of at most 16 cells per axis, 3-d meshes of at most 10 cells per axis, seeded sample of textures, masks, rotations and scalings",
    "rounding budgets are stated in the clause texts (1e-10 absolute on O(1) charges; a-priori forward error bound for the 64-term Newell differences)",
    "hedgehog counting is a finite-difference estimate: only meshes with >= 8 cells per axis and a centre in the central 30% are claimed",
    "demag_trace is read modulo the translation phase of the centred tensor origin (literal '-1' without phase does not hold by construction of Field.fftn)",
    "Berg-Luescher exceptional configurations are not claimed (the signed area is undefined there): an exactly antipodal pair in a triangle, three vectors on a great "
    "circle surrounding the origin; near-exceptional triangles are claimed within the stated conditioning budget (nearly-hemisphere triangles are generated with |triple product| >= 1e-9)",
    "the library averages the two diagonal triangulations of every plaquette: for rough closed textures on which the two triangulations wrap a different whole number "
    "of times the charge is a half-integer; integrality is claimed only where both agree (wrapping number well defined), the value (N_A+N_B)/2 always",
    "coarse whole wraps: |w| = 1 and radius >= 1.5*sqrt((d1^2+d2^2)/2) (the four cells nearest to the core lie beyond the equator wherever the centre sits); below ~1.41 the sampled "
    "texture no longer wraps the sphere and nothing is claimed",
    "oracle for the signed solid angle: Girard's theorem (sum of the three dihedral angles - pi) evaluated with mpmath at 200 bits on the exact double inputs (treated as directions)",
    "metadata cases: the numbers handed to a field with dtype= are exactly representable in that dtype (float32: rounded first; int: texture scaled to |.| <= 1000 and rounded), so the "
    "plain float64 reference field holds the same numbers; float32 fields are processed by the library in float32, budgets use the float32 eps there",
    "the demag functions look components and directions up by their default names: a refusal (any exception) of renamed components / directions is accepted there, nowhere else",
    "demag_field of a field whose component labels are a permutation of x, y, z: both readings (by label, by stored position) are accepted",
    "the meaning of the mask for the emergent field / angles is not stated by the property: masked cases compare with the plain field carrying the same mask, and with the oracle "
    "only at cells whose stencil is entirely valid (angles: every pair, the tools ignore the mask)",
    "Aharoni's closed form for the demagnetising factors of a rectangular prism is trusted as oracle",
]


# --------------------------------------------------------------------------------------------- helpers
def _rot_matrix(rng):
    q = rng.normal(size=4)
    q /= np.linalg.norm(q)
    w, x, y, z = q
    return [[1 - 2 * (y * y + z * z), 2 * (x * y - z * w), 2 * (x * z + y * w)],
            [2 * (x * y + z * w), 1 - 2 * (x * x + z * z), 2 * (y * z - x * w)],
            [2 * (x * z - y * w), 2 * (y * z + x * w), 1 - 2 * (x * x + y * y)]]


def _mesh(p0, n, cell, dims=None, units=None):
    p0 = np.asarray(p0, dtype=float)
    p2 = p0 + np.asarray(n) * np.asarray(cell, dtype=float)
    kw = {}
    if dims is not None:
        kw["dims"] = list(dims)
    if units is not None:
        kw["units"] = list(units)
    return df.Mesh(region=df.Region(p1=tuple(p0), p2=tuple(p2), **kw), n=tuple(int(k) for k in n))


# ---- metadata of the input field -------------------------------------------------------------------------------------------------------
# meta (JSON dict, every key optional):
#   dims / units      names of the mesh directions / their units
#   vdims             component labels
#   mapping           "empty" -> vdim_mapping={}; list of 3 entries (index of a mesh direction or None) -> component k is declared to point along that
#                     direction; absent -> keyword not given (library default)
#   unit              physical unit of the field
#   dtype             "float32" / "int64" / "int32": dtype= of the field (the array handed over holds numbers exactly representable in it)
#   valid             "default" -> keyword not given; "norm" -> valid="norm"; absent -> the Boolean mask array
#   slice_of (2-d)    k -> the 2-d field is obtained the documented way, as f3.sel(<dims3[k]>) of a 3-d field with one cell along direction k
#                     (its mapping then names a direction the 2-d mesh does not have); dims3 = names of the three directions
EPS32_RATIO = float(np.finfo(np.float32).eps) / float(np.finfo(float).eps)


def _epsr(meta):
    """rounding unit of the stored dtype in units of the double eps (float32 fields are processed in float32 by the library)"""
    return EPS32_RATIO if (meta or {}).get("dtype") == "float32" else 1.0


def _is_int(meta):
    return str((meta or {}).get("dtype", "")).startswith("int")


def _stored(arr, meta):
    """float64 array holding exactly the numbers a field of the meta's dtype stores: float32 -> rounded to float32; int -> scaled to |.| <= 1000 and rounded
    (a positive rescaling followed by a small perturbation of the texture: still a legitimate seeded texture)"""
    dt = (meta or {}).get("dtype")
    arr = np.asarray(arr, dtype=float)
    if dt is None:
        return arr
    if dt.startswith("int"):
        m = float(np.abs(arr).max())
        return np.rint(arr * (1000.0 / m)) if m > 0 else np.zeros_like(arr)
    return arr.astype(dt).astype(float)


def _meta_kwargs(meta, dims, valid):
    kw = {}
    vd = meta.get("vdims")
    if vd:
        kw["vdims"] = list(vd)
    names = list(vd) if vd else ["x", "y", "z"]
    mp = meta.get("mapping")
    if mp == "empty":
        kw["vdim_mapping"] = {}
    elif mp is not None:
        kw["vdim_mapping"] = {names[k]: (None if t is None else dims[t]) for k, t in enumerate(mp)}
    if meta.get("unit") is not None:
        kw["unit"] = meta["unit"]
    if meta.get("dtype") is not None:
        kw["dtype"] = np.dtype(meta["dtype"])
    v = meta.get("valid")
    if v == "norm" or isinstance(valid, str):
        kw["valid"] = "norm"
    elif v != "default":
        kw["valid"] = np.array(valid, dtype=bool)
    return kw


def _build(p0, n, cell, arr, valid, meta):
    """the field with the given metadata holding the numbers arr (already in stored form, see _stored) and the mask valid (bool array or 'norm')"""
    meta = meta or {}
    n = [int(k) for k in n]
    value = np.asarray(arr).astype(np.dtype(meta["dtype"])) if meta.get("dtype") else np.asarray(arr, dtype=float)
    sl = meta.get("slice_of")
    if sl is None:
        mesh = _mesh(p0, n, cell, meta.get("dims"), meta.get("units"))
        return df.Field(mesh, nvdim=3, value=value, **_meta_kwargs(meta, list(mesh.region.dims), valid))
    thick = 0.7 * float(cell[0])
    p3, n3, c3 = list(p0), list(n), list(cell)
    p3.insert(sl, -0.3 * thick)
    n3.insert(sl, 1)
    c3.insert(sl, thick)
    mesh3 = _mesh(p3, n3, c3, meta.get("dims3"), None)
    v3 = valid if isinstance(valid, str) else np.expand_dims(np.asarray(valid, dtype=bool), sl)
    f3 = df.Field(mesh3, nvdim=3, value=np.expand_dims(value, sl), **_meta_kwargs(meta, list(mesh3.region.dims), v3))
    return f3.sel(mesh3.region.dims[sl])


def _plain(p0, n, cell, arr, vb):
    """the plain default-metadata float64 field with the same numbers and the same mask"""
    return df.Field(_mesh(p0, n, cell), nvdim=3, value=np.asarray(arr, dtype=float), valid=np.array(vb, dtype=bool))


def _meta_sig(meta):
    """signature of a metadata dependence: which keys of the configuration are non-default"""
    return "metadata:" + "+".join(sorted(k for k in (meta or {}) if k not in ("dims3",)))


def _metas3(rng):
    """metadata configurations of a 3-component field on a 3-d mesh (name -> meta)"""
    out = [({"mapping": list(p)}) for p in itertools.permutations(range(3)) if p != (0, 1, 2)]
    out += [{"mapping": "empty"}, {"mapping": [0, None, None]}, {"mapping": [None, None, None]}, {"mapping": [1, 1, 1]}, {"mapping": [0, 1, 2], "valid": "default"},
            {"vdims": ["a", "b", "c"]}, {"vdims": ["z", "y", "x"]}, {"vdims": ["p", "q", "r"], "mapping": [1, 2, 0]},
            {"dims": ["a", "b", "c"], "units": ["m", "um", "nm"]}, {"dims": ["z", "x", "y"]},
            {"dims": ["y", "z", "x"], "vdims": ["mx", "my", "mz"], "mapping": [2, 0, 1], "unit": "A/m"},
            {"unit": "A/m"}, {"dtype": "float32"}, {"dtype": "int64"}, {"dtype": "float32", "mapping": [2, 0, 1]}, {"dtype": "int32", "mapping": "empty"},
            {"valid": "default"}, {"valid": "norm"}, {"valid": "norm", "mapping": [1, 0, 2], "unit": "T"}]
    return out


def _metas2(rng):
    """metadata configurations of a 3-component field on a 2-d mesh"""
    out = [{"mapping": list(p)} for p in ([0, 1, None], [1, 0, None], [None, 0, 1], [1, None, 0], [None, 1, 0], [0, None, 1])]
    out += [{"mapping": "empty"}, {"valid": "default"}, {"mapping": [None, None, None]}, {"mapping": [0, 0, 0]}, {"mapping": [None, None, 1]},
            {"vdims": ["a", "b", "c"]}, {"vdims": ["z", "y", "x"], "mapping": [0, 1, None]}, {"vdims": ["p", "q", "r"], "mapping": [None, 1, 0], "unit": "A/m"},
            {"dims": ["a", "b"], "units": ["m", "um"]}, {"dims": ["y", "x"]}, {"dims": ["z", "y"], "units": ["nm", "nm"], "mapping": [1, None, 0]},
            {"unit": "A/m"}, {"dtype": "float32"}, {"dtype": "int64"}, {"dtype": "float32", "mapping": [1, 0, None]}, {"dtype": "int32", "mapping": "empty"},
            {"valid": "norm"}, {"valid": "norm", "mapping": [1, 0, None]},
            {"slice_of": 2}, {"slice_of": 0}, {"slice_of": 1}, {"slice_of": 2, "dims3": ["a", "b", "c"], "vdims": ["u", "v", "w"], "mapping": [2, 0, 1]},
            {"slice_of": 1, "dtype": "float32", "mapping": "empty"}]
    return out


def _centres(n, cell):
    return np.stack(np.meshgrid(*[(np.arange(k) + 0.5) * d for k, d in zip(n, cell)], indexing="ij"), -1)


def _texture2d(tex, n, cell):
    """(n0, n1, 3) array of vectors (not normalised, lengths vary) from the texture description"""
    n = [int(k) for k in n]
    X = _centres(n, cell)
    t = tex["type"]
    if t == "skyrmion":
        half = 0.5 * np.asarray(n) * np.asarray(cell)
        c = half + np.asarray(tex["c"]) * np.asarray(cell)
        # two uniform boundary layers: R <= distance from the centre to the second cell layer
        R = float(np.min(half - 1.5 * np.asarray(cell) - np.abs(np.asarray(tex["c"]) * np.asarray(cell)))) * 0.999
        if "rho" in tex:
            # sharp texture: radius given in units of the cell half-diagonal*sqrt2 (= cells, for square cells); the generator leaves one uniform layer
            R = float(tex["rho"]) * float(np.hypot(*np.asarray(cell, dtype=float))) / math.sqrt(2.0)
        x, y = X[..., 0] - c[0], X[..., 1] - c[1]
        r = np.hypot(x, y)
        phi = np.arctan2(y, x)
        th = np.pi * (1 - np.minimum(r / R, 1.0))          # pi in the core -> 0 outside
        if tex["pol"] < 0:
            th = np.pi - th
        a = np.stack([np.sin(th) * np.cos(tex["wind"] * phi + tex["gamma"]),
                      np.sin(th) * np.sin(tex["wind"] * phi + tex["gamma"]), np.cos(th)], -1)
        out = r >= R                                       # exactly uniform outside
        a[out] = [0.0, 0.0, 1.0 if tex["pol"] > 0 else -1.0]
        return a * tex.get("length", 1.0)
    if t == "uniform":
        return np.broadcast_to(np.asarray(tex["v"], dtype=float), (*n, 3)).copy()
    rng = np.random.default_rng(tex["seed"])
    if t == "random":
        return rng.normal(size=(*n, 3)) * tex.get("length", 1.0)
    if t == "frame":
        # closed rough lattice texture: random vectors (varying lengths) inside one layer of a uniform background direction
        a = rng.normal(size=(*n, 3))
        bg = np.asarray(tex["bg"], dtype=float)
        a[0, :], a[-1, :], a[:, 0], a[:, -1] = bg, bg, bg, bg
        return a * tex.get("length", 1.0)
    if t == "smooth":
        a = np.zeros((*n, 3))
        L = np.asarray(n) * np.asarray(cell)
        for _ in range(4):
            k = rng.integers(0, 3, size=2) * 2 * np.pi / L
            ph = rng.uniform(0, 2 * np.pi, size=3)
            amp = rng.normal(size=3)
            a += amp * np.cos((X[..., 0] * k[0] + X[..., 1] * k[1])[..., None] + ph)
        a += rng.normal(size=3) * 0.3
        return a * tex.get("length", 1.0)
    raise ValueError(t)


def _mask(mask, arr):
    """returns (array, valid) ; valid is a bool array or the string 'norm'"""
    shape = arr.shape[:-1]
    if mask is None:
        return arr, np.ones(shape, dtype=bool)
    rng = np.random.default_rng(mask["seed"])
    hit = rng.random(shape) < mask["p"]
    if mask["type"] == "random":
        return arr, ~hit
    arr = arr.copy()
    arr[hit] = 0.0
    if mask["type"] == "norm":
        return arr, "norm"
    return arr, np.ones(shape, dtype=bool)       # zero vectors, not masked


def _tex_arr(pr):
    """(numbers as stored by a field of the case's dtype, mask) of a 2-d case"""
    arr, valid = _mask(pr.get("mask"), _texture2d(pr["tex"], pr["n"], pr["cell"]))
    return _stored(arr, pr.get("meta")), valid


def _field2d(pr, arr=None, valid=None, p0=None, cell=None):
    cell = pr["cell"] if cell is None else cell
    p0 = pr["p0"] if p0 is None else p0
    if pr.get("meta") is not None:
        if arr is None:
            arr, valid = _tex_arr(pr)
        return _build(p0, pr["n"], cell, arr, valid, pr["meta"])
    mesh = _mesh(p0, pr["n"], cell, pr.get("dims"), pr.get("units"))
    if arr is None:
        arr, valid = _mask(pr.get("mask"), _texture2d(pr["tex"], pr["n"], pr["cell"]))
    vd = pr.get("vdims") or ["x", "y", "z"]
    dims = mesh.region.dims
    order = pr.get("map", [0, 1])       # which of the first two vdims points along dims[0], dims[1]
    mapping = {vd[order[0]]: dims[0], vd[order[1]]: dims[1], vd[2]: None}
    return df.Field(mesh, nvdim=3, value=arr, valid=valid if isinstance(valid, str) else valid.copy(), vdims=vd, vdim_mapping=mapping)


def _Q(f, method, absolute=False):
    return float(dft.topological_charge(f, method=method, absolute=absolute))


def _budget_newell(n, cell):
    """a-priori forward rounding bound of sum_r |err N(r)|: 64-term alternating sum of terms <= (|r|+|d|)^3, divided by 4 pi V;
    factor 16 for the elementary functions inside f and g"""
    n = [int(k) for k in n]
    cell = np.asarray(cell, dtype=float)
    ax = [np.arange(-k + 1, k) * d for k, d in zip(n, cell)]
    X = np.stack(np.meshgrid(*ax, indexing="ij"), -1)
    r = np.linalg.norm(X, axis=-1) + np.linalg.norm(cell)
    return float(16 * 64 * EPS * np.sum(r ** 3) / (4 * np.pi * np.prod(cell)))


def _aharoni_nz(a, b, c):
    """demagnetising factor along z of the prism 2a x 2b x 2c (A. Aharoni, J. Appl. Phys. 83, 3432 (1998))"""
    r = math.sqrt(a * a + b * b + c * c)
    ab, bc, ac = math.sqrt(a * a + b * b), math.sqrt(b * b + c * c), math.sqrt(a * a + c * c)
    v = ((b * b - c * c) / (2 * b * c) * math.log((r - a) / (r + a))
         + (a * a - c * c) / (2 * a * c) * math.log((r - b) / (r + b))
         + b / (2 * c) * math.log((ab + a) / (ab - a))
         + a / (2 * c) * math.log((ab + b) / (ab - b))
         + c / (2 * a) * math.log((bc - b) / (bc + b))
         + c / (2 * b) * math.log((ac - a) / (ac + a))
         + 2 * math.atan(a * b / (c * r))
         + (a ** 3 + b ** 3 - 2 * c ** 3) / (3 * a * b * c)
         + (a * a + b * b - 2 * c * c) / (3 * a * b * c) * r
         + c / (a * b) * (ac + bc)
         - (ab ** 3 + bc ** 3 + ac ** 3) / (3 * a * b * c))
    return v / math.pi


def _aharoni(L):
    a, b, c = (0.5 * x for x in L)
    return [_aharoni_nz(b, c, a), _aharoni_nz(c, a, b), _aharoni_nz(a, b, c)]


def _mp_dot(a, b):
    return a[0] * b[0] + a[1] * b[1] + a[2] * b[2]


def _mp_cross(a, b):
    return [a[1] * b[2] - a[2] * b[1], a[2] * b[0] - a[0] * b[2], a[0] * b[1] - a[1] * b[0]]


def _omega_oracle(v1, v2, v3):
    """(signed area/(4 pi) of the geodesic triangle of the three directions as mpf, rho as float).
    Girard's theorem: area = (sum of the three interior angles) - pi, each interior angle = angle between the two great-circle planes meeting at the
    vertex; sign = orientation = sign of the triple product. 200-bit arithmetic on the exact doubles (products of three doubles are exact at 159 bits).
    Exactly coplanar: 0 (exceptional when the three surround the origin - not generated); a zero vector: 0 and rho = inf."""
    with mp.workprec(200):
        V = [[mp.mpf(float(x)) for x in v] for v in (v1, v2, v3)]
        if any(_mp_dot(v, v) == 0 for v in V):
            return mp.mpf(0), math.inf
        T = _mp_dot(V[0], _mp_cross(V[1], V[2]))
        V = [[x / mp.sqrt(_mp_dot(v, v)) for x in v] for v in V]
        rho = mp.sqrt(2 * (1 + _mp_dot(V[0], V[1])) * (1 + _mp_dot(V[1], V[2])) * (1 + _mp_dot(V[2], V[0])))
        if T == 0:
            return mp.mpf(0), float(rho)
        exc = -mp.pi
        for k in range(3):
            a, b, c = V[k], V[(k + 1) % 3], V[(k + 2) % 3]
            n1, n2 = _mp_cross(a, b), _mp_cross(a, c)
            exc += mp.acos(_mp_dot(n1, n2) / mp.sqrt(_mp_dot(n1, n1) * _mp_dot(n2, n2)))
        return mp.sign(T) * exc / (4 * mp.pi), float(rho)


def _bl_cell_triangles(arr, valid, i, j):
    """the library's documented stencil: right-angle triangles at cell (i, j) whose two neighbours exist and are valid, counter-clockwise"""
    n0, n1 = valid.shape
    nb = [(i + 1, j), (i, j + 1), (i - 1, j), (i, j - 1)]
    ok = [0 <= a < n0 and 0 <= b < n1 and bool(valid[a, b]) for a, b in nb]
    return [(k, nb[k], nb[(k + 1) % 4]) for k in range(4) if ok[k] and ok[(k + 1) % 4]]


def _bl_lattice_oracle(arr, valid, R=1.0):
    """per cell: (sum of oracle areas as mpf, triangle count, rounding budget, [area of triangle k or None]*4)"""
    out = {}
    for i in range(valid.shape[0]):
        for j in range(valid.shape[1]):
            if not valid[i, j]:
                out[i, j] = (mp.mpf(0), 0, 0.0, [None] * 4)
                continue
            tot, cnt, bud, per = mp.mpf(0), 0, 0.0, [None] * 4
            for k, p, q in _bl_cell_triangles(arr, valid, i, j):
                w, rho = _omega_oracle(arr[i, j], arr[p], arr[q])
                per[k] = w
                with mp.workprec(200):
                    tot = tot + w
                cnt += 1
                bud += R * (32 * EPS / rho + 8 * EPS)
            out[i, j] = (tot, cnt, bud, per)
    return out


ANGLE_CLASSES = ("random", "wide", "hemisphere", "quarter", "needle", "tiny", "antipodal")


def _sph(polar, azim):
    return np.array([np.sin(polar) * np.cos(azim), np.sin(polar) * np.sin(azim), np.cos(polar)])


def _triples(cls, seed, count):
    """(count, 3, 3) double unit vectors (to rounding) of the class; every triple is rotated by its own random proper rotation and
    its orientation (sign) is random"""
    rng = np.random.default_rng(seed)
    out = []
    for _ in range(count):
        if cls == "random":
            v = rng.normal(size=(3, 3))
        elif cls == "wide":
            # lattice-like: both neighbours 100..179 degrees away from the corner vector -> mostly more than a quarter of the sphere
            al = np.radians(rng.uniform(100, 179, size=2))
            az = rng.uniform(0, 2 * np.pi, size=2)
            v = np.array([[0.0, 0.0, 1.0], _sph(al[0], az[0]), _sph(al[1], az[1])])
        elif cls == "hemisphere":
            # three directions around a great circle, all tilted to the same side by h: area = +-(2 pi - O(h)), |triple product| ~ h >= 1e-9
            h = 10.0 ** rng.uniform(-8, -0.3)
            az = 2 * np.pi * np.arange(3) / 3 + rng.uniform(-0.5, 0.5, size=3)
            v = np.array([_sph(np.pi / 2 - h * (1 + 0.3 * rng.uniform(-1, 1)), a) for a in az])
        elif cls == "quarter":
            # symmetric tripod at the polar angle where 1 + v1.v2 + v2.v3 + v3.v1 changes sign (area = pi), +- a small detuning
            t = math.acos(-1.0 / 3.0) + rng.uniform(-1, 1) * 10.0 ** rng.uniform(-14, -1)
            # polar angle th of a tripod with mutual angle t: cos t = 1 - 1.5 sin^2 th
            th = math.asin(math.sqrt((1 - math.cos(t)) / 1.5))
            th = np.pi - th if rng.random() < 0.5 else th
            a0 = rng.uniform(0, 2 * np.pi)
            v = np.array([_sph(th, a0 + 2 * np.pi * k / 3) for k in range(3)])
        elif cls == "needle":
            # nearly on a great circle, inside a half circle: tiny area of either sign
            az = rng.permutation(np.sort(rng.uniform(0, np.radians(170), size=3)))
            v = np.array([_sph(np.pi / 2 - 10.0 ** rng.uniform(-12, -1) * rng.normal(), a) for a in az])
        elif cls == "tiny":
            e = 10.0 ** rng.uniform(-7, -1)
            v0 = rng.normal(size=3)
            v0 /= np.linalg.norm(v0)
            v = np.array([v0, v0 + e * rng.normal(size=3), v0 + e * rng.normal(size=3)])
        elif cls == "antipodal":
            # one pair nearly antipodal (distance 1e-6..1e-1 from the exceptional configuration), third vector anywhere
            v0 = rng.normal(size=3)
            v0 /= np.linalg.norm(v0)
            v = np.array([v0, -v0 + 10.0 ** rng.uniform(-6, -1) * rng.normal(size=3), rng.normal(size=3)])
            v = v[rng.permutation(3)]
        else:
            raise ValueError(cls)
        v = v @ np.asarray(_rot_matrix(rng)).T
        if rng.random() < 0.5:
            v = v[[0, 2, 1]]
        out.append(v / np.linalg.norm(v, axis=1, keepdims=True))
    return np.asarray(out)


def _exact_triples():
    """(vectors, expected value or None=oracle only, label): integer / closed-form configurations"""
    out = []
    E = np.eye(3)
    for perm in itertools.permutations(range(3)):
        par = np.linalg.det(E[list(perm)])
        for sg in itertools.product((1, -1), repeat=3):
            v = np.array([sg[k] * E[perm[k]] for k in range(3)])
            out.append((v, par * sg[0] * sg[1] * sg[2] / 8.0, "octant"))
    out.append((np.array([[1, 0, 0], [0, 1, 0], [0, 0, 1]]), 0.125, "octant-int"))        # integer dtype
    out.append((np.array([[1, 0, 0], [0, 0, 1], [0, 1, 0]]), -0.125, "octant-int"))
    tet = np.array([[1, 1, 1], [1, -1, -1], [-1, 1, -1], [-1, -1, 1]]) / math.sqrt(3.0)
    for tri in itertools.permutations(range(4), 3):
        v = tet[list(tri)]
        out.append((v, float(np.sign(np.linalg.det(v))) / 4.0, "tetrahedron-face"))
    for a, b in ((0.3, 1.1), (2.0, 0.4), (1.0, 3.0), (3.1, 0.02)):                     # coplanar, inside a half plane
        out.append((np.array([[1.0, 0.0, 0.0], [math.cos(a), math.sin(a), 0.0], [math.cos(b), math.sin(b), 0.0]]), 0.0, "coplanar-half-plane"))
        out.append((np.array([[0.0, 1.0, 0.0], [0.0, math.cos(a), math.sin(a)], [0.0, math.cos(b), math.sin(b)]]), 0.0, "coplanar-half-plane"))
    u, w = _sph(0.7, 0.3), _sph(2.9, 4.0)
    out.append((np.array([u, u, w]), 0.0, "repeated"))
    out.append((np.array([u, w, u]), 0.0, "repeated"))
    out.append((np.array([w, u, u]), 0.0, "repeated"))
    out.append((np.array([u, u, u]), 0.0, "repeated"))
    cube = np.array(list(itertools.product((1, -1), repeat=3))) / math.sqrt(3.0)
    for tri in ((0, 1, 2), (0, 3, 5), (0, 6, 3), (1, 2, 7), (0, 3, 6), (7, 1, 4)):    # cube vertices: oracle only (some span > quarter sphere)
        out.append((cube[list(tri)], None, "cube-vertices"))
    return out


# --------------------------------------------------------------------------------------------- cases
def _geom2d(rng, lo, hi, aniso=True):
    n = rng.integers(lo, hi + 1, size=2).tolist()
    scale = float(10.0 ** rng.uniform(-9, 3))
    cell = (scale * (rng.uniform(1.0, 1.6, size=2) if aniso else np.ones(2))).tolist()
    p0 = (rng.uniform(-3, 3, size=2) * scale * 5).tolist()
    return n, cell, p0


_LABELS = [
    {},
    {"dims": ["x", "z"], "units": ["nm", "nm"]},
    {"dims": ["a", "b"], "units": ["m", "um"], "vdims": ["p", "q", "r"], "map": [1, 0]},
    {"vdims": ["mx", "my", "mz"], "map": [1, 0]},
]


def _skyrmion(rng, wind=None):
    return {"type": "skyrmion", "wind": int(wind if wind is not None else rng.choice([-2, -1, 1, 2])), "pol": int(rng.choice([-1, 1])),
            "gamma": float(rng.uniform(0, 2 * np.pi)), "c": rng.uniform(-0.5, 0.5, size=2).tolist()}


def cases(ctx):
    rng = ctx.rng
    quick = ctx.tier == "quick"
    # ---- invariances of both charge methods
    reps = 6 if quick else 60
    masks = [None, {"type": "random", "p": 0.15}, {"type": "norm", "p": 0.12}, {"type": "zeros", "p": 0.1}]
    for rep in range(reps):
        for ti, ttype in enumerate(("skyrmion", "smooth", "random")):
            for mi, m in enumerate(masks):
                lo, hi = (10, 12) if ttype == "skyrmion" else (3, 8)
                n, cell, p0 = _geom2d(rng, lo, hi)
                tex = _skyrmion(rng) if ttype == "skyrmion" else {"type": ttype, "seed": int(rng.integers(1 << 30))}
                tex["length"] = float(10.0 ** rng.uniform(-3, 6))
                ms = 10.0 ** rng.uniform(-3, 3, size=2)        # anisotropic rescaling; translation by up to 30 (new) cells
                pr = {"n": n, "cell": cell, "p0": p0, "tex": tex,
                      "mask": None if m is None else dict(m, seed=int(rng.integers(1 << 30))),
                      "R": _rot_matrix(rng), "s": float(10.0 ** rng.uniform(-12, 12)), "s_seed": int(rng.integers(1 << 30)),
                      "mesh_scale": ms.tolist(), "mesh_shift": (rng.uniform(-30, 30, size=2) * ms * np.asarray(cell)).tolist(),
                      "k": int(1 + (rep + ti + mi) % 3)}
                pr.update(_LABELS[(rep + ti + mi) % len(_LABELS)])
                yield "charge_inv", pr
    # fixed: both tiny and huge vector lengths
    for s in (1e-12, 1e-9, 1e-7, 1e9):
        yield "charge_inv", {"n": [10, 11], "cell": [1e-9, 1.5e-9], "p0": [0.0, -5e-9], "tex": {"type": "skyrmion", "wind": 1, "pol": 1, "gamma": 0.4, "c": [0.2, -0.1], "length": 1.0},
                             "mask": None, "R": _rot_matrix(rng), "s": s, "s_seed": 3, "mesh_scale": [1e9, 2e9], "mesh_shift": [1.0, 2.0], "k": 1}
    # ---- uniform fields
    for rep in range(4 if quick else 20):
        n, cell, p0 = _geom2d(rng, 1 if rep == 0 else 2, 7)
        m = masks[rep % 3]
        yield "uniform", {"n": n, "cell": cell, "p0": p0, "tex": {"type": "uniform", "v": (rng.normal(size=3) * 10.0 ** rng.uniform(-3, 6)).tolist()},
                          "mask": None if m is None else dict(m, seed=int(rng.integers(1 << 30)))}
    yield "uniform", {"n": [5, 4], "cell": [1.0, 2.0], "p0": [0.0, 0.0], "tex": {"type": "uniform", "v": [1.0, 1.0, -1.0]}, "mask": None}
    yield "uniform", {"n": [3, 3], "cell": [2e-9, 1e-9], "p0": [0.0, 0.0], "tex": {"type": "uniform", "v": [0.0, 0.0, 8e5]}, "mask": None}
    # ---- whole wraps (Berg-Luescher integer)
    for rep in range(2 if quick else 8):
        for wind in (-2, -1, 1, 2, 3):
            lo = 10 if abs(wind) == 1 else (13 if abs(wind) == 2 else 15)
            n, cell, p0 = _geom2d(rng, lo, lo + 1)
            cell = (cell[0] * rng.uniform(1.0, 1.25, size=2)).tolist()      # mild anisotropy keeps the texture resolved
            pr = {"n": n, "cell": cell, "p0": p0, "tex": _skyrmion(rng, wind), "R": _rot_matrix(rng)}
            pr["tex"]["length"] = float(10.0 ** rng.uniform(-3, 6))
            pr.update(_LABELS[(rep + wind) % len(_LABELS)])
            yield "wrap", pr
    # ---- Berg-Luescher signed solid angle against the Girard oracle, over the whole range of triangles
    for rep in range(3 if quick else 24):
        for cls in ANGLE_CLASSES:
            yield "bl_angle", {"cls": cls, "seed": int(rng.integers(1 << 30)), "count": 24 if quick else 48}
    yield "bl_angle_exact", {}
    # ---- sharp whole wraps on coarse meshes: radius 1.5..2.2 cells, one uniform boundary layer, both polarities and chiralities
    for rep in range(32 if quick else 400):
        n = rng.integers(6, 9 if quick else 11, size=2).tolist()
        scale = float(10.0 ** rng.uniform(-9, 3))
        cell = (scale * rng.uniform(1.0, 1.25, size=2)).tolist()
        rho = float(rng.uniform(1.5, 2.2 if rep % 4 else 1.6))         # every fourth at the sharp end
        R = rho * float(np.hypot(*cell)) / math.sqrt(2.0)
        # room (in cells) for the centre offset so that the outermost layer stays uniform
        room = [min(0.5, 0.98 * ((0.5 * n[k] - 0.5) - R / cell[k])) for k in range(2)]
        if min(room) < 0:
            continue
        tex = {"type": "skyrmion", "wind": int(rng.choice([-1, 1])), "pol": int([-1, 1][rep % 2]), "gamma": float(rng.uniform(0, 2 * np.pi)),
               "c": [float(rng.uniform(-1, 1) * room[k]) for k in range(2)], "rho": rho, "length": float(10.0 ** rng.uniform(-3, 6))}
        pr = {"n": n, "cell": cell, "p0": (rng.uniform(-3, 3, size=2) * scale * 5).tolist(), "tex": tex, "R": _rot_matrix(rng)}
        pr.update(_LABELS[rep % len(_LABELS)])
        yield "wrap_coarse", pr
    # ---- rough lattices: per-cell lattice density with validity handling; closed rough textures (two triangulations)
    bl_masks = [None, {"type": "random", "p": 0.15}, {"type": "norm", "p": 0.12}]
    for rep in range(36 if quick else 420):
        ttype = ("random", "frame", "skyrmion")[rep % 3]
        m = None if ttype == "frame" and rep % 2 else bl_masks[(rep // 3) % 3]
        if ttype == "skyrmion":
            n = rng.integers(6, 9, size=2).tolist()
            scale = float(10.0 ** rng.uniform(-9, 3))
            cell = (scale * rng.uniform(1.0, 1.25, size=2)).tolist()
            p0 = (rng.uniform(-3, 3, size=2) * scale * 5).tolist()
            tex = {"type": "skyrmion", "wind": int(rng.choice([-2, -1, 1, 2])), "pol": int(rng.choice([-1, 1])), "gamma": float(rng.uniform(0, 2 * np.pi)),
                   "c": rng.uniform(-0.5, 0.5, size=2).tolist(), "rho": float(rng.uniform(1.0, 2.5))}      # any radius / winding: value against the oracle only
        else:
            n, cell, p0 = _geom2d(rng, 1 if rep % 10 == 9 else 2, 8 if quick else 10)
            tex = {"type": ttype, "seed": int(rng.integers(1 << 30))}
            if ttype == "frame":
                n = [max(3, k) for k in n]
                tex["bg"] = rng.normal(size=3).tolist()
        tex["length"] = float(10.0 ** rng.uniform(-3, 6))
        pr = {"n": n, "cell": cell, "p0": p0, "tex": tex, "mask": None if m is None else dict(m, seed=int(rng.integers(1 << 30)))}
        pr.update(_LABELS[rep % len(_LABELS)])
        yield "bl_lattice", pr
    # ---- continuous density oracle / charge as integral
    for rep in range(12 if quick else 150):
        n, cell, p0 = _geom2d(rng, 3, 8)
        m = masks[rep % 4]
        tex = {"type": ["smooth", "random"][rep % 2], "seed": int(rng.integers(1 << 30)), "length": float(10.0 ** rng.uniform(-3, 6))}
        pr = {"n": n, "cell": cell, "p0": p0, "tex": tex, "mask": None if m is None else dict(m, seed=int(rng.integers(1 << 30)))}
        pr.update(_LABELS[rep % len(_LABELS)])
        yield "density", pr
    # ---- hedgehogs
    for rep in range(6 if quick else 60):
        n = rng.integers(8, 10 if quick else 11, size=3).tolist()
        scale = float(10.0 ** rng.uniform(-9, 0))
        cell = (scale * rng.uniform(1.0, 1.8, size=3)).tolist()
        yield "hedgehog", {"n": n, "cell": cell, "p0": (rng.uniform(-3, 3, size=3) * scale).tolist(), "frac": rng.uniform(0.35, 0.65, size=3).tolist(),
                           "length": float(10.0 ** rng.uniform(-3, 6))}
    # the bare coordinates of a nanometre-sized sample as vectors (lengths ~1e-9)
    yield "hedgehog", {"n": [8, 8, 8], "cell": [1e-9, 1.25e-9, 1.5e-9], "p0": [0.0, 0.0, 0.0], "frac": [0.47, 0.55, 0.52], "length": 1.0, "raw": True}
    yield "bp_uniform", {"n": [3, 4, 5], "cell": [1.0, 2.0, 1.5], "p0": [0.0, 0.0, 0.0], "v": rng.normal(size=3).tolist()}
    # ---- angles and emergent field
    for rep in range(16 if quick else 200):
        ndim = [3, 3, 2, 3][rep % 4]
        n = rng.integers(1 if rep % 5 == 4 else 2, 6, size=ndim).tolist()
        scale = float(10.0 ** rng.uniform(-9, 3))
        yield "angles", {"n": n, "cell": (scale * rng.uniform(1, 2, size=ndim)).tolist(), "p0": (rng.uniform(-3, 3, size=ndim) * scale * 5).tolist(),
                         "seed": int(rng.integers(1 << 30)), "special": bool(rep % 3 == 0), "length": float(10.0 ** rng.uniform(-3, 6))}
    yield "angles", {"n": [3, 4, 3], "cell": [1e-9, 2e-9, 1.5e-9], "p0": [0.0, 0.0, 0.0], "seed": 11, "special": False, "length": 1e-10}
    for rep in range(8 if quick else 80):
        n = rng.integers(3, 6, size=3).tolist()
        scale = float(10.0 ** rng.uniform(-9, 3))
        yield "emergent", {"n": n, "cell": (scale * rng.uniform(1, 2, size=3)).tolist(), "p0": (rng.uniform(-3, 3, size=3) * scale).tolist(),
                           "seed": int(rng.integers(1 << 30)), "uniform": bool(rep % 4 == 3)}
    # ---- demagnetisation
    shapes = [([3, 3, 3], [1.0, 1.0, 1.0]), ([2, 3, 4], [1.0, 1.0, 1.0]), ([4, 2, 1], [2e-9, 2e-9, 2e-9]), ([1, 1, 1], [5e-9, 5e-9, 5e-9]),
              ([2, 3, 4], [6e-9, 4e-9, 3e-9]),          # a cube made of non-cubic cells
              ([3, 3, 3], [1.0, 2.0, 3.0]), ([2, 2, 3], [3e-9, 1e-9, 2e-9]), ([1, 1, 1], [1.0, 2.0, 4.0])]
    if not quick:
        for rep in range(30):
            n = rng.integers(1, 7, size=3).tolist()
            scale = float(10.0 ** rng.uniform(-9, 0))
            cubic = rep % 2 == 0
            cell = (scale * (np.ones(3) if cubic else rng.uniform(1, 3, size=3))).tolist()
            shapes.append((n, cell))
    for n, cell in shapes:
        yield "demag_tensor", {"n": n, "cell": cell, "p0": (rng.uniform(-3, 3, size=3) * cell[0]).tolist()}
        yield "demag_cuboid", {"n": n, "cell": cell, "p0": (rng.uniform(-3, 3, size=3) * cell[0]).tolist(), "M": float(10.0 ** rng.uniform(-1, 6))}
    # ---- metadata of the input field: every tool on fields with non-default mapping / labels / direction names / unit / dtype / form of the mask
    reps = 1 if quick else 4
    for i, meta in enumerate(_metas2(rng)):
        for rep in range(reps):
            def mask_for(k):
                if meta.get("valid") == "default":
                    return None
                if meta.get("valid") == "norm":
                    return None if (k + rep) % 2 else {"type": "norm", "p": 0.12, "seed": int(rng.integers(1 << 30))}
                return [None, {"type": "random", "p": 0.15, "seed": int(rng.integers(1 << 30))}, {"type": "zeros", "p": 0.1, "seed": int(rng.integers(1 << 30))}][(i + k + rep) % 3]
            n, cell, p0 = _geom2d(rng, 3, 7)
            tex = {"type": ["smooth", "random"][(i + rep) % 2], "seed": int(rng.integers(1 << 30)), "length": float(10.0 ** rng.uniform(-3, 6))}
            yield "density", {"n": n, "cell": cell, "p0": p0, "tex": tex, "mask": mask_for(0), "meta": meta}
            n, cell, p0 = _geom2d(rng, 3, 7)
            ttype = ["random", "frame", "smooth"][(i + rep) % 3]
            tex = {"type": ttype, "seed": int(rng.integers(1 << 30)), "length": float(10.0 ** rng.uniform(-3, 6))}
            m = mask_for(1)
            if ttype == "frame":
                tex["bg"] = rng.normal(size=3).tolist()
                m = m if (m is None or m["type"] == "norm") and i % 2 else None
            if m is not None and m["type"] == "zeros":
                m = None            # unmasked zero vectors: the signed area is not defined (nothing claimed for the lattice method)
            yield "bl_lattice", {"n": n, "cell": cell, "p0": p0, "tex": tex, "mask": m, "meta": meta}
            if (i + rep) % 4 == 0:
                n, cell, p0 = _geom2d(rng, 2, 6)
                yield "uniform", {"n": n, "cell": cell, "p0": p0, "tex": {"type": "uniform", "v": (rng.normal(size=3) * 10.0 ** rng.uniform(-3, 6)).tolist()},
                                  "mask": mask_for(2), "meta": meta}
            if (i + rep) % 3 == 0:
                wind = int(rng.choice([-1, 1]))
                n, cell, p0 = _geom2d(rng, 10, 11)
                cell = (cell[0] * rng.uniform(1.0, 1.25, size=2)).tolist()
                pr = {"n": n, "cell": cell, "p0": p0, "tex": _skyrmion(rng, wind), "R": _rot_matrix(rng), "meta": meta}
                pr["tex"]["length"] = float(10.0 ** rng.uniform(-3, 6))
                yield "wrap", pr
    # invariances on fields with permuted in-plane mapping / permuted direction names / reversed labels / a unit / obtained by slicing a 3-d field
    for i, meta in enumerate([{"mapping": [1, 0, None], "unit": "A/m"}, {"dims": ["y", "x"], "mapping": [0, 1, None]}, {"vdims": ["z", "y", "x"], "mapping": [0, 1, None]},
                              {"vdims": ["p", "q", "r"], "mapping": [None, 1, 0]}, {"slice_of": 2}, {"valid": "default", "mapping": [0, 1, None]}]):
        for rep in range(reps):
            ttype = ("skyrmion", "smooth", "random")[(i + rep) % 3]
            lo, hi = (10, 12) if ttype == "skyrmion" else (3, 8)
            n, cell, p0 = _geom2d(rng, lo, hi)
            tex = _skyrmion(rng) if ttype == "skyrmion" else {"type": ttype, "seed": int(rng.integers(1 << 30))}
            tex["length"] = float(10.0 ** rng.uniform(-3, 6))
            ms = 10.0 ** rng.uniform(-3, 3, size=2)
            yield "charge_inv", {"n": n, "cell": cell, "p0": p0, "tex": tex, "mask": None, "R": _rot_matrix(rng), "s": float(10.0 ** rng.uniform(-4, 12)),
                                 "s_seed": int(rng.integers(1 << 30)), "mesh_scale": ms.tolist(), "mesh_shift": (rng.uniform(-30, 30, size=2) * ms * np.asarray(cell)).tolist(),
                                 "k": 1 + (i + rep) % 3, "meta": meta}
    for i, meta in enumerate(_metas3(rng)):
        for rep in range(reps):
            mask = None
            if "valid" not in meta and (i + rep) % 3 == 0:
                mask = {"p": 0.15, "seed": int(rng.integers(1 << 30))}
            n = rng.integers(8, 10, size=3).tolist()
            scale = float(10.0 ** rng.uniform(-9, 0))
            cell = (scale * rng.uniform(1.0, 1.8, size=3)).tolist()
            yield "hedgehog", {"n": n, "cell": cell, "p0": (rng.uniform(-3, 3, size=3) * scale).tolist(), "frac": rng.uniform(0.35, 0.65, size=3).tolist(),
                               "length": float(10.0 ** rng.uniform(-3, 6)), "meta": meta}
            n = rng.integers(3, 6, size=3).tolist()
            scale = float(10.0 ** rng.uniform(-9, 3))
            yield "angles", {"n": n, "cell": (scale * rng.uniform(1, 2, size=3)).tolist(), "p0": (rng.uniform(-3, 3, size=3) * scale * 5).tolist(),
                             "seed": int(rng.integers(1 << 30)), "special": False, "length": float(10.0 ** rng.uniform(-3, 6)), "mask": mask, "meta": meta}
            n = rng.integers(3, 6, size=3).tolist()
            scale = float(10.0 ** rng.uniform(-9, 3))
            yield "emergent", {"n": n, "cell": (scale * rng.uniform(1, 2, size=3)).tolist(), "p0": (rng.uniform(-3, 3, size=3) * scale).tolist(),
                               "seed": int(rng.integers(1 << 30)), "uniform": False, "mask": mask, "meta": meta}
            n = rng.integers(1, 4, size=3).tolist()
            scale = float(10.0 ** rng.uniform(-9, 0))
            cell = (scale * rng.uniform(1, 3, size=3)).tolist()
            yield "demag_meta", {"n": n, "cell": cell, "p0": (rng.uniform(-3, 3, size=3) * scale).tolist(), "seed": int(rng.integers(1 << 30)),
                                 "M": float(10.0 ** rng.uniform(-1, 6)), "mask": mask, "meta": meta}
            if not (meta.get("vdims") or meta.get("dims")) and (i + rep) % 2 == 0:
                yield "demag_cuboid", {"n": [2, 3, 2], "cell": (scale * np.array([3.0, 2.0, 3.0])).tolist(), "p0": (rng.uniform(-3, 3, size=3) * scale).tolist(),
                                       "M": float(10.0 ** rng.uniform(-1, 6)), "meta": meta}
    # ---- refusals
    for nvdim, ndim in itertools.product((1, 2, 3, 4), (1, 2, 3)):
        yield "refuse", {"nvdim": nvdim, "ndim": ndim, "seed": int(rng.integers(1 << 30))}


# --------------------------------------------------------------------------------------------- checks
def check(kind, pr, ctx):
    with warnings.catch_warnings():
        warnings.simplefilter("ignore")
        with np.errstate(all="ignore"):
            return globals()["_check_" + kind](pr, ctx)


def _density_scale(f):
    """int |q| of both methods (rounding scale of the charge)"""
    out = {}
    for m in METHODS:
        q = dft.topological_charge_density(f, method=m)
        out[m] = float(np.abs(q.array).sum() * np.prod(f.mesh.cell))
    return out


def _check_charge_inv(pr, ctx):
    n = pr["n"]
    arr, valid = _mask(pr.get("mask"), _texture2d(pr["tex"], n, pr["cell"]))
    f = _field2d(pr, arr, valid)
    vb = f.valid.copy()
    if int(np.prod(n)) == 1:
        ctx.trivial()
    scale = _density_scale(f)
    R = np.asarray(pr["R"])
    rng = np.random.default_rng(pr["s_seed"])
    percell = rng.uniform(0.5, 2.0, size=(*n, 1))
    variants = {
        "rot": lambda: _field2d(pr, arr @ R.T, vb),
        "scale_global": lambda: _field2d(pr, arr * pr["s"], vb),
        "scale_cell": lambda: _field2d(pr, arr * percell, vb),
        "mesh": lambda: _field2d(pr, arr, vb, p0=(np.asarray(pr["p0"]) * pr["mesh_scale"] + pr["mesh_shift"]).tolist(),
                                 cell=(np.asarray(pr["cell"]) * pr["mesh_scale"]).tolist()),
        "neg": lambda: _field2d(pr, -arr, vb),
    }
    for k in sorted({pr["k"], 2} if pr["k"] != 2 else {2, 3}):
        variants["rot90_%d" % k] = (lambda k=k: f.rotate90(f.mesh.region.dims[0], f.mesh.region.dims[1], k=k))
    clause = {"rot": "C19.rot_vectors", "scale_global": "C19.rescale_vectors", "scale_cell": "C19.rescale_vectors", "mesh": "C19.rescale_mesh",
              "neg": "C19.reversal"}
    base = {m: _Q(f, m) for m in METHODS}
    base_abs = {m: _Q(f, m, absolute=True) for m in METHODS}
    for name, make in variants.items():
        cl = clause.get(name, "C19.quarter_turn")
        r, g = raises(Exception, make)
        if r:
            ctx.require(False, cl, "building the transformed field raised", sig="raised:" + type(g).__name__, variant=name, error=repr(g))
            continue
        for m in METHODS:
            tol = 1e-10 * max(1.0, scale[m])
            r2, q = raises(Exception, _Q, g, m)
            if r2:
                ctx.require(False, cl, "topological_charge raised on the transformed field", sig="raised:" + type(q).__name__, variant=name, method=m, error=repr(q))
                continue
            want = -base[m] if name == "neg" else base[m]
            sig = None
            if name == "scale_global" and abs(q - want) > tol:
                nrm = np.linalg.norm(arr * pr["s"], axis=-1)
                if np.any((nrm > 0) & (nrm < 1e-6)):
                    sig = "tiny-vectors-treated-as-zero(np.isclose atol=1e-8 in orientation)"
            ctx.require(abs(q - want) <= tol, cl, "charge changed under '%s'" % name, sig=sig, method=m, variant=name, got=q, want=want, tol=tol,
                        s=pr["s"] if name == "scale_global" else None)
            if name == "neg":
                qa = _Q(g, m, absolute=True)
                ctx.require(abs(qa - base_abs[m]) <= tol, cl, "absolute charge changed under reversal", method=m, got=qa, want=base_abs[m])
            if name.startswith("rot90"):
                k = int(name[-1])
                ctx.require(list(g.mesh.n) == (list(n)[::-1] if k % 2 else list(n)), cl, "rotated sample has the wrong n", got=g.mesh.n, k=k)


def _check_uniform(pr, ctx):
    arr, valid = _tex_arr(pr)
    f = _field2d(pr, arr, valid)
    for m in METHODS:
        q = dft.topological_charge_density(f, method=m)
        ctx.require(q.nvdim == 1 and np.all(np.abs(q.array) <= 1e-12 / np.prod(f.mesh.cell)), "C19.uniform_zero", "density of a uniform field is not zero", method=m,
                    got=float(np.abs(q.array).max()))
        for a in (False, True):
            Q = _Q(f, m, absolute=a)
            ctx.require(abs(Q) <= 1e-12, "C19.uniform_zero", "charge of a uniform field is not zero", method=m, absolute=a, got=Q)


def _check_wrap(pr, ctx):
    arr0, _ = _tex_arr(pr)
    f = _field2d(pr, arr0, np.ones(pr["n"], dtype=bool))
    want = -pr["tex"]["wind"] * pr["tex"]["pol"]
    Q = _Q(f, "berg-luescher")
    # float32 fields: the library normalises in float32, the vectors handed to the lattice formula are unit to 6e-8 only -> 64 float32 ulp instead of 1e-9
    ti = 1e-9 if _epsr(pr.get("meta")) == 1.0 else 64 * EPS * _epsr(pr.get("meta"))
    if pr.get("meta") is not None:
        Q0 = _Q(_plain(pr["p0"], pr["n"], pr["cell"], arr0, np.ones(pr["n"], dtype=bool)), "berg-luescher")
        ctx.require(abs(Q - Q0) <= ti, "C19.meta_independent", "Berg-Luescher charge of a whole wrap depends on the metadata of the field", sig=_meta_sig(pr["meta"]),
                    got=Q, plain=Q0, meta=pr["meta"])
    ctx.require(abs(Q - round(Q)) <= ti, "C19.bl_integer", "Berg-Luescher charge of a whole wrap is not an integer", got=Q, meta=pr.get("meta"))
    ctx.require(abs(Q - want) <= ti, "C19.bl_integer", "Berg-Luescher charge differs from the known winding -w*p", got=Q, want=want, meta=pr.get("meta"))
    g = _field2d(pr, _stored(arr0 @ np.asarray(pr["R"]).T, pr.get("meta")), np.ones(pr["n"], dtype=bool))
    Qr = _Q(g, "berg-luescher")
    ctx.require(abs(Qr - want) <= ti, "C19.bl_integer", "Berg-Luescher charge of the rotated whole wrap differs from -w*p", got=Qr, want=want, meta=pr.get("meta"))
    Qa = _Q(f, "berg-luescher", absolute=True)
    ctx.require(Qa >= abs(Q) - 1e-9, "C19.charge_integral", "absolute charge smaller than |charge|", got=Qa, Q=Q)
    Qc = _Q(f, "continuous")
    ctx.require(Qc * want > 0, "C19.known_sign", "continuous charge has the wrong sign", got=Qc, want=want)


def _unit(a):
    nrm = np.linalg.norm(a, axis=-1, keepdims=True)
    return np.divide(a, nrm, out=np.zeros_like(a), where=nrm > 0)


def _bl_call(v1, v2, v3):
    r, g = raises(Exception, _dfu.bergluescher_angle, v1, v2, v3)
    if r:
        return None, repr(g)
    try:
        g = float(g)
    except Exception as e:          # complex / array result
        return None, "not a real number: %r (%r)" % (g, e)
    return g, None


def _check_one_triangle(v, ctx, label, expected=None):
    """value, range and symmetry clauses on one triple of unit vectors v (3, 3)"""
    w, rho = _omega_oracle(v[0], v[1], v[2])
    if expected is not None and abs(float(w) - expected) > 1e-30 + (0 if expected == 0 else 4 * EPS):
        # closed forms and the oracle must agree (1/8 and 1/4 are met to the rounding of the double inputs 1/sqrt3)
        raise AssertionError("oracle %r differs from the closed form %r (%s)" % (w, expected, label))
    want = float(w) if expected is None else float(expected)
    if not (rho > 0):
        ctx.trivial()               # exceptional configuration: nothing claimed
        return
    tol = 16 * EPS / rho + 4 * EPS
    det = {"vectors": np.asarray(v, dtype=float).tolist(), "cls": label, "rho": rho, "tol": tol,
           "denominator_1+sum_of_dots": float(1 + v[0] @ v[1] + v[1] @ v[2] + v[2] @ v[0])}
    g, err = _bl_call(v[0], v[1], v[2])
    if g is None:
        ctx.require(False, "C19.bl_angle_value", "bergluescher_angle raised / returned no real number", sig="raised-or-not-real", error=err, **det)
        return
    big = det["denominator_1+sum_of_dots"] < 0
    ctx.require(not math.isnan(g) and abs(g - want) <= tol, "C19.bl_angle_value",
                "signed solid angle/(4 pi) differs from the area of the geodesic triangle" + (" (triangle larger than a quarter of the sphere)" if big else ""),
                sig="large-triangle" if big else "small-triangle", got=g, want=want, **det)
    ctx.require(abs(g) <= 0.5 * (1 + 4 * EPS), "C19.bl_angle_range", "signed area/(4 pi) outside [-1/2, 1/2]", got=g, **det)
    variants = {"cyclic": ((v[1], v[2], v[0]), 1.0), "cyclic2": ((v[2], v[0], v[1]), 1.0), "transposed": ((v[1], v[0], v[2]), -1.0),
                "reversed": ((-v[0], -v[1], -v[2]), -1.0)}
    for name, (vv, sgn) in variants.items():
        h, err = _bl_call(*vv)
        ctx.require(h is not None and abs(h - sgn * g) <= 2 * tol, "C19.bl_angle_sym", "bergluescher_angle is not %s under '%s'" % ("invariant" if sgn > 0 else "odd", name),
                    variant=name, got=h, base=g, error=err, **det)


def _check_bl_angle(pr, ctx):
    for v in _triples(pr["cls"], pr["seed"], pr["count"]):
        _check_one_triangle(v, ctx, pr["cls"])


def _check_bl_angle_exact(pr, ctx):
    for v, expected, label in _exact_triples():
        _check_one_triangle(v, ctx, label, expected)


def _uniform_frame(arr):
    b = np.concatenate([arr[0, :], arr[-1, :], arr[:, 0], arr[:, -1]])
    return bool(np.all(b == b[0])) and bool(np.any(b[0] != 0))


def _two_triangulations(orc, n):
    """(N_A, N_B) as mpf: triangulation A = corner triangles 0 and 2 of every cell (diagonal (i+1,j)-(i,j+1) of each plaquette), B = 1 and 3"""
    with mp.workprec(200):
        NA = sum((orc[i, j][3][k] or 0 for i in range(n[0]) for j in range(n[1]) for k in (0, 2)), mp.mpf(0))
        NB = sum((orc[i, j][3][k] or 0 for i in range(n[0]) for j in range(n[1]) for k in (1, 3)), mp.mpf(0))
    return NA, NB


def _check_wrap_coarse(pr, ctx):
    n = pr["n"]
    arr = _texture2d(pr["tex"], n, pr["cell"])
    ones = np.ones(n, dtype=bool)
    if not _uniform_frame(arr):
        ctx.trivial()
        return
    want = -pr["tex"]["wind"] * pr["tex"]["pol"]
    u = _unit(arr)
    ang = max(float(np.arccos(np.clip(np.einsum("ijk,ijk->ij", u[1:], u[:-1]), -1, 1)).max()),
              float(np.arccos(np.clip(np.einsum("ijk,ijk->ij", u[:, 1:], u[:, :-1]), -1, 1)).max()))
    orc = _bl_lattice_oracle(arr, ones)
    NA, NB = _two_triangulations(orc, n)
    det = {"oracle_N_A": float(NA), "oracle_N_B": float(NB), "max_neighbour_angle_deg": math.degrees(ang), "radius_cells": pr["tex"]["rho"]}
    sig = "coarse-texture(neighbours > 100 deg)" if math.degrees(ang) > 100 else "coarse-texture"
    f = _field2d(pr, arr, ones)
    for name, g, w in (("as is", f, want), ("rotated", _field2d(pr, arr @ np.asarray(pr["R"]).T, ones), want), ("reversed", _field2d(pr, -arr, ones), -want)):
        r, Q = raises(Exception, _Q, g, "berg-luescher")
        if r:
            ctx.require(False, "C19.bl_integer_coarse", "topological_charge raised", sig="raised:" + type(Q).__name__, variant=name, error=repr(Q))
            continue
        ctx.require(abs(Q - round(Q)) <= 1e-9, "C19.bl_integer_coarse", "Berg-Luescher charge of a sharp whole wrap is not an integer (%s)" % name, sig=sig, got=Q, want=w, variant=name, **det)
        ctx.require(abs(Q - w) <= 1e-9, "C19.bl_integer_coarse", "Berg-Luescher charge of a sharp whole wrap differs from the known winding (%s)" % name, sig=sig, got=Q, want=w, variant=name, **det)
        Qa = _Q(g, "berg-luescher", absolute=True)
        ctx.require(Qa >= abs(Q) - 1e-9, "C19.charge_integral", "absolute charge smaller than |charge|", got=Qa, Q=Q, variant=name)


def _check_bl_lattice(pr, ctx):
    n = pr["n"]
    meta = pr.get("meta")
    R = _epsr(meta)
    arr, valid = _tex_arr(pr)
    f = _field2d(pr, arr, valid)
    vb = (np.linalg.norm(arr, axis=-1) > 0) if (isinstance(valid, str) or (meta or {}).get("valid") == "norm") else valid
    d1, d2 = (float(c) for c in f.mesh.cell)
    half_area = 0.5 * d1 * d2
    r, q = raises(Exception, dft.topological_charge_density, f, method="berg-luescher")
    if r:
        ctx.require(False, "C19.density_bl", "topological_charge_density raised", sig="raised:" + type(q).__name__, error=repr(q))
        return
    okm = q.nvdim == 1 and q.mesh == f.mesh and q.array.shape == (*n, 1) and tuple(q.mesh.region.dims) == tuple(f.mesh.region.dims)
    ctx.require(okm, "C19.density_bl", "lattice density is not a scalar field on the same mesh")
    if not okm:
        return
    orc = _bl_lattice_oracle(arr, vb, R)
    ntri = sum(c[1] for c in orc.values())
    if ntri == 0:
        ctx.trivial()
    bad, big, Qw, Qb = [], False, mp.mpf(0), 0.0
    for (i, j), (tot, cnt, bud, per) in orc.items():
        got = float(q.array[i, j, 0])
        want = float(tot) / (cnt * half_area) if cnt else 0.0
        tol = bud / (cnt * half_area) if cnt else 0.0
        if cnt:
            with mp.workprec(200):
                Qw = Qw + 2 * tot / cnt
            Qb += 2 * bud / cnt
        if not (abs(got - want) <= tol):
            bad.append({"cell": [i, j], "got_times_area": got * 2 * half_area, "want_times_area": want * 2 * half_area, "triangles": cnt,
                        "areas_over_4pi": [None if w is None else float(w) for w in per]})
            big = big or any(w is not None and abs(w) > 0.25 for w in per)
    ctx.require(not bad, "C19.density_bl", "lattice density differs from the oracle at %d cell(s)" % len(bad),
                sig="cell-with-large-triangle" if big else "cell", cells=bad[:4], masked=int((~vb).sum()))
    Qw = float(Qw)
    Q = _Q(f, "berg-luescher")
    ctx.require(abs(Q - Qw) <= Qb + 64 * EPS * max(1.0, abs(Qw)), "C19.density_bl", "lattice charge differs from the weighted sum of the oracle triangle areas", got=Q, want=Qw, tol=Qb)
    if meta is not None:
        f0 = _plain(pr["p0"], n, pr["cell"], arr, vb)
        q0 = dft.topological_charge_density(f0, method="berg-luescher")
        tolc = np.array([[2 * orc[i, j][2] / (orc[i, j][1] * half_area) if orc[i, j][1] else 0.0 for j in range(n[1])] for i in range(n[0])])
        ctx.require(np.all(np.abs(q.array[..., 0] - q0.array[..., 0]) <= tolc), "C19.meta_independent", "lattice density depends on the metadata of the field",
                    sig=_meta_sig(meta), worst=float(np.max(np.abs(q.array - q0.array))) * 2 * half_area, meta=meta)
        Q0 = _Q(f0, "berg-luescher")
        ctx.require(abs(Q - Q0) <= 2 * Qb + 64 * EPS * max(1.0, abs(Q0)), "C19.meta_independent", "lattice charge depends on the metadata of the field", sig=_meta_sig(meta),
                    got=Q, plain=Q0, meta=meta)
    if pr.get("mask") is None and min(n) >= 3 and _uniform_frame(arr):
        NA, NB = _two_triangulations(orc, n)
        if abs(NA - mp.nint(NA)) > 1e-30 or abs(NB - mp.nint(NB)) > 1e-30:
            raise AssertionError("oracle: a triangulation of a closed texture does not wrap a whole number of times: %r %r" % (NA, NB))
        NA, NB = int(mp.nint(NA)), int(mp.nint(NB))
        tol = max(1e-9, Qb)
        ctx.require(abs(Q - 0.5 * (NA + NB)) <= tol, "C19.bl_two_triangulations", "charge of a closed rough texture is not the mean of the two whole-number wrappings", got=Q, N_A=NA, N_B=NB, tol=tol)
        if NA == NB:
            ctx.require(abs(Q - NA) <= tol and abs(Q - round(Q)) <= tol, "C19.bl_two_triangulations", "charge of a closed rough texture with a well defined wrapping number is not that integer",
                        got=Q, want=NA, tol=tol)


def _check_density(pr, ctx):
    n = pr["n"]
    meta = pr.get("meta")
    arr, valid = _tex_arr(pr)
    f = _field2d(pr, arr, valid)
    vb = np.array(f.valid, dtype=bool)
    if meta is not None:
        vwant = (np.linalg.norm(arr, axis=-1) > 0) if (isinstance(valid, str) or meta.get("valid") == "norm") else valid
        ctx.require(vb.shape == tuple(n) and np.array_equal(vb, vwant), "C19.meta_independent", "the field does not carry the mask it was given", sig=_meta_sig(meta), meta=meta)
        vb = np.array(vwant, dtype=bool)
    d1, d2 = (float(c) for c in f.mesh.cell)
    dA = d1 * d2
    q = dft.topological_charge_density(f, method="continuous")
    ctx.require(q.nvdim == 1 and q.mesh == f.mesh and q.array.shape == (*n, 1) and tuple(q.mesh.region.dims) == tuple(f.mesh.region.dims), "C19.density_continuous",
                "density is not a scalar field on the same mesh")
    u = _unit(arr)
    ok, worst, cnt = True, None, 0
    tol = 256 * EPS * _epsr(meta) / (4 * np.pi * dA)
    for i in range(1, n[0] - 1):
        for j in range(1, n[1] - 1):
            if not (vb[i, j] and vb[i - 1, j] and vb[i + 1, j] and vb[i, j - 1] and vb[i, j + 1]):
                continue
            cnt += 1
            a = (u[i + 1, j] - u[i - 1, j]) / (2 * d1)
            b = (u[i, j + 1] - u[i, j - 1]) / (2 * d2)
            want = float(np.dot(u[i, j], np.cross(a, b))) / (4 * np.pi)
            got = float(q.array[i, j, 0])
            if abs(got - want) > tol:
                ok, worst = False, (i, j, got, want)
    if cnt == 0:
        ctx.trivial()
    ctx.require(ok, "C19.density_continuous", "continuous density differs from n.(d1n x d2n)/4pi at an interior cell", worst=worst, tol=tol, meta=meta)
    if meta is not None:
        f0 = _plain(pr["p0"], n, pr["cell"], arr, vb)
        q0 = dft.topological_charge_density(f0, method="continuous")
        ctx.require(q.array.shape == q0.array.shape and np.all(np.abs(q.array - q0.array) <= 2 * tol), "C19.meta_independent",
                    "continuous density depends on the metadata of the field (all cells, one-sided stencils at the border and next to invalid cells included)",
                    sig=_meta_sig(meta), worst=float(np.max(np.abs(q.array - q0.array))) if q.array.shape == q0.array.shape else None, tol=2 * tol, meta=meta)
        for a in (False, True):
            Qm, Q0 = _Q(f, "continuous", absolute=a), _Q(f0, "continuous", absolute=a)
            t0 = 2 * tol * dA * int(np.prod(n))
            ctx.require(abs(Qm - Q0) <= t0, "C19.meta_independent", "continuous charge depends on the metadata of the field", sig=_meta_sig(meta), got=Qm, plain=Q0, absolute=a, meta=meta)
    for m in METHODS:
        qd = dft.topological_charge_density(f, method=m)
        s = float(qd.array.sum() * dA)
        sa = float(np.abs(qd.array).sum() * dA)
        t = 256 * EPS * max(sa, 1e-300)
        Q, Qa = _Q(f, m), _Q(f, m, absolute=True)
        ctx.require(abs(Q - s) <= t, "C19.charge_integral", "charge is not the integral of the density", method=m, got=Q, want=s)
        ctx.require(abs(Qa - sa) <= t and Qa >= abs(Q) - t, "C19.charge_integral", "absolute charge is not the integral of |density|", method=m, got=Qa, want=sa)


def _hedgehog_field(pr, sign=1.0):
    n, cell = pr["n"], np.asarray(pr["cell"])
    mesh = _mesh(pr["p0"], n, cell)
    c = np.asarray(pr["frac"]) * np.asarray(n) * cell
    X = _centres(n, cell) - c
    # vector lengths: 'length' times the distance in units of the smallest cell edge; raw=True: the bare coordinates r-c
    fac = 1.0 if pr.get("raw") else pr["length"] / float(np.min(cell))
    if pr.get("meta") is not None:
        arr = _stored(sign * fac * X, pr["meta"])
        return _build(pr["p0"], n, cell, arr, np.ones(n, dtype=bool), pr["meta"]), c, arr
    return df.Field(mesh, nvdim=3, value=sign * fac * X), c, None


def _check_hedgehog(pr, ctx):
    n, cell = pr["n"], np.asarray(pr["cell"])
    TINY = "tiny-vectors-treated-as-zero(np.isclose atol=1e-8 in orientation)"
    meta = pr.get("meta")
    for sign in (1.0, -1.0):
        f, c, arr = _hedgehog_field(pr, sign)
        tiny = TINY if float(np.linalg.norm(f.array, axis=-1).max()) < 1e-6 else None
        f0 = None if meta is None else _plain(pr["p0"], n, cell, arr, np.ones(n, dtype=bool))
        for a, d in enumerate(f.mesh.region.dims):
            r, res = raises(Exception, dft.count_bps, f, d)
            if r:
                ctx.require(False, "C19.bp_hedgehog", "count_bps raised", sig="raised:" + type(res).__name__, error=repr(res), direction=d, meta=meta)
                continue
            if f0 is not None:
                d0 = "xyz"[a]
                res0 = dft.count_bps(f0, d0)
                same = (set(res) == {"bp_number", "bp_number_hh", "bp_number_tt", "bp_pattern_" + d}
                        and all(res.get(k) == res0[k] for k in ("bp_number", "bp_number_hh", "bp_number_tt")) and res.get("bp_pattern_" + d) == res0["bp_pattern_" + d0])
                ctx.require(same, "C19.meta_independent", "Bloch-point count / arrangement depends on the metadata of the field", sig=_meta_sig(meta), direction=d, got=res, plain=res0, meta=meta)
            want = {"bp_number": 1.0, "bp_number_tt": 1.0 if sign > 0 else 0.0, "bp_number_hh": 0.0 if sign > 0 else 1.0}
            got = {k: res.get(k) for k in want}
            ctx.require(got == want, "C19.bp_hedgehog", "hedgehog not counted as one %s Bloch point" % ("tail-to-tail" if sign > 0 else "head-to-head"),
                        sig=tiny, direction=d, got=res, want=want, meta=meta)
            pat = res.get("bp_pattern_" + d)
            try:
                runs = [(float(v), int(k)) for v, k in eval(pat, {"__builtins__": {}})]
            except Exception:
                runs = None
            pos = float(c[a] / cell[a])
            okp = (runs is not None and len(runs) == 2 and runs[0][0] == 0.0 and runs[1][0] == sign
                   and runs[0][1] + runs[1][1] == n[a] and abs(runs[0][1] - pos) <= 1.5)
            ctx.require(okp, "C19.bp_location", "arrangement does not jump once at the hedgehog centre", sig=tiny, direction=d, got=pat, centre_in_cells=pos)


def _check_bp_uniform(pr, ctx):
    mesh = _mesh(pr["p0"], pr["n"], pr["cell"])
    f = df.Field(mesh, nvdim=3, value=tuple(pr["v"]))
    for d in "xyz":
        res = dft.count_bps(f, d)
        ctx.require(res["bp_number"] == 0 and res["bp_number_hh"] == 0 and res["bp_number_tt"] == 0, "C19.bp_hedgehog", "uniform field has Bloch points", got=res)


def _vec_field(pr):
    n = pr["n"]
    rng = np.random.default_rng(pr["seed"])
    arr = rng.normal(size=(*n, 3))
    if pr.get("special") and int(np.prod(n)) >= 4:
        flat = arr.reshape(-1, 3)
        flat[1] = flat[0] * 2.5                     # parallel neighbours (angle 0)
        flat[-1] = -flat[-2] * 0.5                  # may or may not be neighbours; antiparallel pair
        idx = tuple([0] * len(n))
        nb = list(idx)
        nb[-1] = min(1, n[-1] - 1)
        arr[tuple(nb)] = -1.5 * arr[idx] if n[-1] > 1 else arr[tuple(nb)]
    return arr * pr.get("length", 1.0)


def _check_angles(pr, ctx):
    n, cell = pr["n"], np.asarray(pr["cell"])
    ndim = len(n)
    meta = pr.get("meta")
    R = _epsr(meta)
    arr = _stored(_vec_field(pr), meta)
    if meta is not None:
        vb = np.ones(n, dtype=bool) if pr.get("mask") is None else _mask(dict(pr["mask"], type="random"), arr)[1]
        f = _build(pr["p0"], n, cell, arr, vb, meta)
        f0 = _plain(pr["p0"], n, cell, arr, vb)
        mesh = f.mesh
    else:
        mesh = _mesh(pr["p0"], n, cell)
        f = df.Field(mesh, nvdim=3, value=arr)
        f0 = None
    u = _unit(arr)
    tiny = "tiny-vectors-treated-as-zero(np.isclose atol=1e-8 in orientation)" if float(np.linalg.norm(arr, axis=-1).min()) < 1e-6 else None
    pmin, pmax = np.asarray(mesh.region.pmin), np.asarray(mesh.region.pmax)
    cscale = np.maximum(np.abs(pmin), np.abs(pmax))
    if int(np.prod(n)) == 1:
        ctx.trivial()
    per_dir = {}
    for a, d in enumerate(mesh.region.dims):
        if n[a] == 1:
            r, e = raises(Exception, dft.neighbouring_cell_angle, f, d)
            ctx.require(r or (not r and e.mesh.n[a] == 0), "C19.angle_mesh", "one cell in the direction: a field with n-1 = 0 cells cannot exist, yet a result came back",
                        got=None if r else e.mesh.n)
            per_dir[d] = None
            continue
        lo = [slice(None)] * ndim
        hi = [slice(None)] * ndim
        lo[a], hi[a] = slice(0, n[a] - 1), slice(1, n[a])
        U, V = u[tuple(lo)], u[tuple(hi)]
        want = np.arctan2(np.linalg.norm(np.cross(U, V), axis=-1), np.einsum("...k,...k->...", U, V))
        tol = 64 * EPS * R / np.maximum(np.sin(want), math.sqrt(EPS * R)) + 64 * EPS * R * np.pi
        per_dir[d] = want
        for units, fac in (("rad", 1.0), ("deg", 180.0 / np.pi)):
            r, g = raises(Exception, dft.neighbouring_cell_angle, f, d, units=units)
            if r:
                ctx.require(False, "C19.angle_value", "neighbouring_cell_angle raised", sig="raised:" + type(g).__name__, error=repr(g), direction=d)
                continue
            nn = list(n)
            nn[a] -= 1
            okm = g.nvdim == 1 and list(g.mesh.n) == nn and g.array.shape == (*nn, 1)
            wmin, wmax = pmin.copy(), pmax.copy()
            wmin[a] += cell[a] / 2
            wmax[a] -= cell[a] / 2
            okm = okm and np.all(np.abs(np.asarray(g.mesh.region.pmin) - wmin) <= 8 * EPS * cscale) and np.all(np.abs(np.asarray(g.mesh.region.pmax) - wmax) <= 8 * EPS * cscale)
            okm = okm and np.all(np.abs(np.asarray(g.mesh.cell) - cell) <= 8 * EPS * np.maximum(cell, cscale))
            ctx.require(okm, "C19.angle_mesh", "angle field lives on the wrong mesh", direction=d, got_n=g.mesh.n, want_n=nn, got_pmin=g.mesh.region.pmin, want_pmin=wmin)
            okd = tuple(g.mesh.region.dims) == tuple(mesh.region.dims) and tuple(g.mesh.region.units) == tuple(mesh.region.units)
            ctx.require(okd, "C19.angle_mesh", "the mesh of the angle field does not keep the names / units of the directions of the field's mesh",
                        sig="angle-mesh-loses-dims-units", direction=d, got=(g.mesh.region.dims, g.mesh.region.units), want=(mesh.region.dims, mesh.region.units))
            if not (g.array.shape == (*nn, 1)):
                continue
            got = g.array[..., 0]
            ctx.require(np.all(got >= 0) and np.all(got <= np.pi * fac * (1 + 2 * EPS)) and not np.any(np.isnan(got)), "C19.angle_range", "angle outside [0, pi]",
                        units=units, lo=float(got.min()), hi=float(got.max()))
            ctx.require(np.all(np.abs(got - want * fac) <= tol * fac), "C19.angle_value", "angle differs from the angle between the unit vectors", sig=tiny, units=units, direction=d,
                        err=float(np.max(np.abs(got - want * fac))), meta=meta)
            if f0 is not None:
                g0 = dft.neighbouring_cell_angle(f0, "xyz"[a], units=units)
                ctx.require(g0.array.shape == g.array.shape and np.all(np.abs(got - g0.array[..., 0]) <= 2 * tol * fac), "C19.meta_independent",
                            "neighbour angles depend on the metadata of the field", sig=tiny or _meta_sig(meta), units=units, direction=d, meta=meta)
    r, g = raises(Exception, dft.max_neighbouring_cell_angle, f)
    if r:
        # one cell in a direction: no neighbour angle exists there (n-1 = 0 cells), raising is accepted
        sig = "squeeze-drops-length-1-axes(some n==2)" if (isinstance(g, ValueError) and "broadcast" in str(g) and 2 in n) else "raised:" + type(g).__name__
        ctx.require(any(k == 1 for k in n), "C19.angle_max", "max_neighbouring_cell_angle raised", sig=sig, error=repr(g), n=n)
        return
    want = np.zeros(n)
    for a, d in enumerate(mesh.region.dims):
        if per_dir[d] is None:
            continue
        lo = [slice(None)] * ndim
        hi = [slice(None)] * ndim
        lo[a], hi[a] = slice(0, n[a] - 1), slice(1, n[a])
        want[tuple(lo)] = np.maximum(want[tuple(lo)], per_dir[d])
        want[tuple(hi)] = np.maximum(want[tuple(hi)], per_dir[d])
    tol = 64 * EPS * R / np.maximum(np.sin(want), math.sqrt(EPS * R)) + 64 * EPS * R * np.pi
    ctx.require(g.nvdim == 1 and g.mesh == mesh and tuple(g.mesh.region.dims) == tuple(mesh.region.dims) and g.array.shape == (*n, 1)
                and np.all(np.abs(g.array[..., 0] - want) <= tol), "C19.angle_max",
                "maximum neighbour angle differs from the maximum over the neighbours", sig=tiny, meta=meta)
    if f0 is not None:
        g0 = dft.max_neighbouring_cell_angle(f0)
        ctx.require(g0.array.shape == g.array.shape and np.all(np.abs(g.array - g0.array)[..., 0] <= 2 * tol), "C19.meta_independent",
                    "maximum neighbour angle depends on the metadata of the field", sig=tiny or _meta_sig(meta), meta=meta)


def _check_emergent(pr, ctx):
    n, cell = pr["n"], np.asarray(pr["cell"])
    meta = pr.get("meta")
    R = _epsr(meta)
    rng = np.random.default_rng(pr["seed"])
    if pr["uniform"]:
        arr = np.broadcast_to(_unit(rng.normal(size=3)), (*n, 3)).copy()
    else:
        arr = _unit(rng.normal(size=(*n, 3)) + 2 * rng.normal(size=3))
    arr = _stored(arr, meta)
    vb = np.ones(n, dtype=bool) if pr.get("mask") is None else _mask(dict(pr["mask"], type="random"), arr)[1]
    if meta is not None:
        f = _build(pr["p0"], n, cell, arr, vb, meta)
        f0 = _plain(pr["p0"], n, cell, arr, vb)
        mesh = f.mesh
    else:
        mesh = _mesh(pr["p0"], n, cell)
        f = df.Field(mesh, nvdim=3, value=arr)
        f0 = None
    intsig = "int-dtype-derivative-truncated(Field.diff writes the quotient into an integer array)" if _is_int(meta) else None
    r, F = raises(Exception, dft.emergent_magnetic_field, f)
    if r:
        ctx.require(False, "C19.emergent", "emergent_magnetic_field raised on a 3-component field on a 3-d mesh", sig="raised:" + type(F).__name__, error=repr(F), meta=meta)
        return
    dims = list(mesh.region.dims)
    ctx.require(F.nvdim == 3 and F.mesh == mesh and list(F.mesh.region.dims) == dims and F.array.shape == (*n, 3), "C19.emergent",
                "emergent field is not a 3-component field on the same mesh", meta=meta)
    # component k of the emergent field belongs to the k-th direction of the mesh, whatever the input's components are declared to point along
    okmap = F.nvdim == 3 and F.vdims is not None and len(F.vdims) == 3 and dict(F.vdim_mapping) == dict(zip(F.vdims, dims))
    ctx.require(okmap, "C19.emergent_meta", "component k of the emergent field is not declared to belong to the k-th direction of the mesh",
                sig=None if meta is None else _meta_sig(meta), got=F.vdim_mapping, vdims=F.vdims, dims=dims, meta=meta)
    inv = 1.0 / cell
    s3 = max(1.0, float(np.abs(arr).max())) ** 3
    tol = 256 * EPS * R * s3 * np.array([inv[1] * inv[2], inv[2] * inv[0], inv[0] * inv[1]])
    if f0 is not None:
        F0 = dft.emergent_magnetic_field(f0)
        ctx.require(F.array.shape == F0.array.shape and np.all(np.abs(F.array - F0.array) <= 2 * tol), "C19.meta_independent",
                    "emergent field depends on the metadata of the field (all cells, one-sided stencils included)", sig=intsig or _meta_sig(meta),
                    worst=float(np.max(np.abs(F.array - F0.array))) if F.array.shape == F0.array.shape else None, tol=(2 * tol), meta=meta)
    # its divergence (what the Bloch-point count integrates) is the spatial one: sum_k d_k F_k, central differences in the interior
    rd, D = raises(Exception, lambda: F.div)
    if rd:
        ctx.require(False, "C19.emergent_meta", "the divergence of the emergent field cannot be taken", sig="div-raised:" + type(D).__name__, error=repr(D), meta=meta)
    elif min(n) >= 3 and F.array.shape == (*n, 3):
        A = np.asarray(F.array, dtype=float)
        want = ((A[2:, 1:-1, 1:-1, 0] - A[:-2, 1:-1, 1:-1, 0]) * inv[0] / 2 + (A[1:-1, 2:, 1:-1, 1] - A[1:-1, :-2, 1:-1, 1]) * inv[1] / 2
                + (A[1:-1, 1:-1, 2:, 2] - A[1:-1, 1:-1, :-2, 2]) * inv[2] / 2)
        inner = np.ones(n, dtype=bool)
        if not vb.all():
            # central stencil only where the cell and its six neighbours are valid
            inner = vb.copy()
            for a in range(3):
                inner &= np.roll(vb, 1, axis=a) & np.roll(vb, -1, axis=a)
        inner = inner[1:-1, 1:-1, 1:-1]
        tdiv = 64 * EPS * R * float(np.abs(A).max() + 1e-300) * float(inv.sum())
        got = np.asarray(D.array, dtype=float)[1:-1, 1:-1, 1:-1, 0]
        ctx.require(D.nvdim == 1 and np.all(np.abs(got - want)[inner] <= tdiv), "C19.emergent_meta",
                    "the divergence of the emergent field is not sum_k d_k F_k over the directions of the mesh", sig=None if meta is None else _meta_sig(meta),
                    worst=float(np.max(np.abs(got - want)[inner])) if inner.any() else 0.0, tol=tdiv, mapping=F.vdim_mapping, meta=meta)
    if pr["uniform"]:
        ctx.require(np.all(np.abs(F.array) <= tol), "C19.emergent", "emergent field of a uniform field is not zero", got=float(np.abs(F.array).max()), meta=meta)
        return
    if min(n) < 3:
        ctx.trivial()
        return
    ok, worst = True, None
    for idx in itertools.product(*[range(1, k - 1) for k in n]):
        nbok = bool(vb[idx])
        d = []
        for a in range(3):
            up, dn = list(idx), list(idx)
            up[a] += 1
            dn[a] -= 1
            nbok = nbok and bool(vb[tuple(up)]) and bool(vb[tuple(dn)])
            d.append((arr[tuple(up)] - arr[tuple(dn)]) * inv[a] / 2)
        if not nbok:
            continue
        m = arr[idx]
        want = np.array([np.dot(m, np.cross(d[1], d[2])), np.dot(m, np.cross(d[2], d[0])), np.dot(m, np.cross(d[0], d[1]))])
        if np.any(np.abs(F.array[idx] - want) > tol):
            ok, worst = False, (idx, F.array[idx].tolist(), want.tolist())
    ctx.require(ok, "C19.emergent", "emergent field differs from m.(d_k m x d_l m) at an interior cell", sig=intsig, worst=worst, meta=meta)


def _noncubic(cell):
    c = np.asarray(cell, dtype=float)
    return bool(np.max(c) / np.min(c) > 1 + 1e-9)


def _check_demag_tensor(pr, ctx):
    n, cell = [int(k) for k in pr["n"]], np.asarray(pr["cell"], dtype=float)
    mesh = _mesh(pr["p0"], n, cell)
    B = _budget_newell(n, cell)
    sig = "noncubic-cell-edges-not-permuted-with-coordinates" if _noncubic(cell) else None
    if n == [1, 1, 1]:
        ctx.trivial()
    r, t = raises(Exception, dft.demag_tensor, mesh)
    if r:
        ctx.require(False, "C19.demag_trace", "demag_tensor raised", sig="raised:" + type(t).__name__, error=repr(t))
        return
    shape = tuple(2 * k - 1 for k in n)
    ok_meta = t.nvdim == 6 and t.array.shape == (*shape, 6)
    ctx.require(ok_meta, "C19.demag_trace", "tensor field has the wrong shape", got=t.array.shape)
    tr = t.array[..., 0] + t.array[..., 1] + t.array[..., 2]
    # frequency index m (centred by fftshift) of a length-L axis: m = i - L//2 ; origin of the tensor at array index n-1
    phase = np.ones(shape, dtype=complex)
    for a, L in enumerate(shape):
        m = np.arange(L) - L // 2
        ph = np.exp(-2j * np.pi * m * (n[a] - 1) / L)
        sh = [1, 1, 1]
        sh[a] = L
        phase = phase * ph.reshape(sh)
    ctx.require(np.all(np.abs(np.abs(tr) - 1) <= B + 64 * EPS), "C19.demag_trace", "|trace| != 1 at some frequency", sig=sig, worst=float(np.max(np.abs(np.abs(tr) - 1))), budget=B)
    ctx.require(np.all(np.abs(tr + phase) <= B + 64 * EPS), "C19.demag_trace", "trace != -1 (times the origin phase) at some frequency", sig=sig,
                worst=float(np.max(np.abs(tr + phase))), budget=B)
    # real space: -1 in the central cell, 0 elsewhere
    real = np.fft.ifftn(np.fft.ifftshift(tr))
    delta = np.zeros(shape)
    delta[tuple(k - 1 for k in n)] = -1.0
    ctx.require(np.all(np.abs(real - delta) <= B + 64 * EPS), "C19.demag_trace", "real-space trace is not -delta(r)", sig=sig, worst=float(np.max(np.abs(real - delta))), budget=B)
    r2, t2 = raises(Exception, _tools._demag_tensor_field_based, mesh)
    if r2:
        ctx.require(False, "C19.demag_impls", "_demag_tensor_field_based raised", sig="raised:" + type(t2).__name__, error=repr(t2))
        return
    ok = t2.mesh == t.mesh and list(t2.vdims) == list(t.vdims) == ["ft_xx", "ft_yy", "ft_zz", "ft_xy", "ft_xz", "ft_yz"] and t2.array.shape == t.array.shape
    ctx.require(ok, "C19.demag_impls", "the two implementations differ in mesh / component names", got=(t.vdims, t2.vdims))
    if t2.array.shape == t.array.shape:
        ctx.require(np.all(np.abs(t2.array - t.array) <= B + 64 * EPS), "C19.demag_impls", "the two implementations differ in value", worst=float(np.max(np.abs(t2.array - t.array))), budget=B)


def _check_demag_cuboid(pr, ctx):
    n, cell, M = [int(k) for k in pr["n"]], np.asarray(pr["cell"], dtype=float), pr["M"]
    meta = pr.get("meta")
    if meta is not None:
        M = float(_stored(np.array([M]), meta)[0])       # the magnitude as a field of that dtype stores it
    mesh = _mesh(pr["p0"], n, cell)
    B = _budget_newell(n, cell)
    sig = "noncubic-cell-edges-not-permuted-with-coordinates" if _noncubic(cell) else None
    t = dft.demag_tensor(mesh)
    L = np.asarray(n) * cell
    means = []
    for k in range(3):
        v = [0.0, 0.0, 0.0]
        v[k] = M
        if meta is not None:
            m = _build(pr["p0"], n, cell, np.broadcast_to(np.asarray(v), (*n, 3)).copy(), np.ones(n, dtype=bool), meta)
        else:
            m = df.Field(mesh, nvdim=3, value=tuple(v))
        r, h = raises(Exception, dft.demag_field, m, t)
        if r:
            ctx.require(False, "C19.demag_cuboid", "demag_field raised", sig="raised:" + type(h).__name__, error=repr(h), meta=meta)
            return
        ok = h.nvdim == 3 and h.mesh == mesh and not np.iscomplexobj(h.array)
        ctx.require(ok, "C19.demag_cuboid", "demag field is not a real 3-component field on the magnetisation's mesh")
        means.append(h.array.reshape(-1, 3).mean(axis=0))
    means = np.asarray(means)
    tol = (B + 256 * EPS) * M
    diag = np.diag(means)
    ctx.require(abs(diag.sum() + M) <= 3 * tol, "C19.demag_cuboid", "mean demag components do not sum to -|M|", sig=sig, got=float(diag.sum()), want=-M, tol=3 * tol)
    off = means - np.diag(diag)
    ctx.require(np.all(np.abs(off) <= tol), "C19.demag_cuboid", "transverse mean demag field of a uniformly magnetised cuboid is not zero", sig=sig, worst=float(np.abs(off).max()))
    if np.max(L) / np.min(L) <= 1 + 1e-12:
        ctx.require(np.all(np.abs(diag + M / 3) <= tol), "C19.demag_cuboid", "cube: mean demag component is not -M/3", sig=sig, got=diag, want=-M / 3)
    N = np.asarray(_aharoni(L / np.min(L)))
    ctx.require(np.all(np.abs(diag + N * M) <= tol + 1e-11 * M), "C19.demag_factors", "mean demag component differs from -N_k M (Aharoni)", sig=sig, got=(diag / M), want=(-N))


def _check_demag_meta(pr, ctx):
    """demag tensor / field of a seeded magnetisation with non-default metadata against the plain field with the same numbers"""
    n, cell, meta = [int(k) for k in pr["n"]], np.asarray(pr["cell"], dtype=float), pr["meta"]
    rng = np.random.default_rng(pr["seed"])
    arr = _stored(rng.normal(size=(*n, 3)) * pr["M"], meta)
    vb = np.ones(n, dtype=bool) if pr.get("mask") is None else _mask(dict(pr["mask"], type="random"), arr)[1]
    f = _build(pr["p0"], n, cell, arr, vb, meta)
    f0 = _plain(pr["p0"], n, cell, arr, vb)
    B = _budget_newell(n, cell)
    scale = float(np.abs(arr).max())
    t0 = dft.demag_tensor(f0.mesh)
    h0 = dft.demag_field(f0, t0)
    alt = None
    if meta.get("vdims") and sorted(meta["vdims"]) == ["x", "y", "z"]:
        # components labelled with a permutation of x, y, z: the implementation picks the components by these names; whether the label or the stored position says which
        # component is 'x' is not decided by the property - either reading is accepted (result components in x, y, z order)
        order = [list(meta["vdims"]).index(c) for c in "xyz"]
        alt = dft.demag_field(_plain(pr["p0"], n, cell, arr[..., order], vb), t0)
    # the labels the implementation looks up by name: renamed components / directions may be refused (any exception, as in C19.refuse), everything else must work
    relabelled = bool(meta.get("vdims") or meta.get("dims"))
    r, t = raises(Exception, dft.demag_tensor, f.mesh)
    if r:
        ctx.require(relabelled, "C19.meta_independent", "demag_tensor raised for the mesh of a legal field", sig="raised:" + type(t).__name__, error=repr(t), meta=meta)
        return
    ctx.require(t.array.shape == t0.array.shape and np.all(np.abs(t.array - t0.array) <= B + 64 * EPS), "C19.meta_independent",
                "demag tensor depends on the names / units of the mesh directions", sig=_meta_sig(meta), meta=meta)
    r, h = raises(Exception, dft.demag_field, f, t)
    if r:
        ctx.require(relabelled, "C19.meta_independent", "demag_field raised for a legal field with default component and direction names", sig="raised:" + type(h).__name__,
                    error=repr(h), meta=meta)
        return
    ok = h.nvdim == 3 and h.array.shape == (*n, 3) and not np.iscomplexobj(h.array)
    if alt is not None and ok and np.all(np.abs(h.array - alt.array) <= (B + 256 * EPS) * scale):
        return
    ctx.require(ok and np.all(np.abs(h.array - h0.array) <= (B + 256 * EPS) * scale), "C19.meta_independent", "demag field depends on the metadata of the magnetisation",
                sig=_meta_sig(meta), worst=float(np.max(np.abs(h.array - h0.array))) if ok else None, tol=(B + 256 * EPS) * scale, meta=meta)
    # independent value: direct real-space sum with the real-space tensor obtained from the plain mesh's Fourier tensor (inverse DFT by numpy), interior of the convolution
    N = np.fft.ifftn(np.fft.ifftshift(np.asarray(t0.array), axes=(0, 1, 2)), axes=(0, 1, 2)).real
    comp = {(0, 0): 0, (1, 1): 1, (2, 2): 2, (0, 1): 3, (1, 0): 3, (0, 2): 4, (2, 0): 4, (1, 2): 5, (2, 1): 5}
    want = np.zeros((*n, 3))
    for i in itertools.product(*[range(k) for k in n]):
        for j in itertools.product(*[range(k) for k in n]):
            dlt = tuple(i[a] - j[a] + n[a] - 1 for a in range(3))
            for a in range(3):
                for b in range(3):
                    want[i][a] += N[dlt][comp[a, b]] * arr[j][b]
    ctx.require(ok and np.all(np.abs(h.array - want) <= (B + 256 * EPS) * scale * int(np.prod(n))), "C19.meta_independent",
                "demag field differs from the real-space sum over cells of N(r_i - r_j) M_j on the stored component arrays (component order of the array)",
                sig=_meta_sig(meta), worst=float(np.max(np.abs(h.array - want))) if ok else None, meta=meta)


_REFUSE_2D = ("topological_charge", "topological_charge_density")


def _check_refuse(pr, ctx):
    nvdim, ndim = pr["nvdim"], pr["ndim"]
    rng = np.random.default_rng(pr["seed"])
    n = [3] * ndim
    mesh = _mesh([0.0] * ndim, n, [1.0] * ndim)
    f = df.Field(mesh, nvdim=nvdim, value=rng.normal(size=(*n, nvdim)))
    d0 = mesh.region.dims[0]
    calls = []
    for m in METHODS:
        calls.append(("topological_charge/" + m, lambda m=m: dft.topological_charge(f, method=m), nvdim == 3 and ndim == 2))
        calls.append(("topological_charge_density/" + m, lambda m=m: dft.topological_charge_density(f, method=m), nvdim == 3 and ndim == 2))
    calls.append(("emergent_magnetic_field", lambda: dft.emergent_magnetic_field(f), nvdim == 3 and ndim == 3))
    calls.append(("count_bps", lambda: dft.count_bps(f, d0), nvdim == 3 and ndim == 3))
    calls.append(("neighbouring_cell_angle", lambda: dft.neighbouring_cell_angle(f, d0), nvdim == 3))
    for name, fn, legal in calls:
        r, e = raises(Exception, fn)
        if legal:
            ctx.require(not r, "C19.refuse", "a legal field was refused", call=name, error=repr(e) if r else None)
        else:
            ctx.require(r and isinstance(e, ValueError), "C19.refuse", "field of the wrong nvdim/ndim not refused with ValueError", call=name, nvdim=nvdim, ndim=ndim,
                        sig=None if not r else "refused-with-" + type(e).__name__, got=repr(e) if r else "returned a result")
    # unknown method / direction / units
    if nvdim == 3 and ndim == 2:
        ctx.require(raises(ValueError, dft.topological_charge, f, method="wrong")[0], "C19.refuse", "unknown method accepted")
    if nvdim == 3:
        ctx.require(raises(ValueError, dft.neighbouring_cell_angle, f, "q")[0] and raises(ValueError, dft.neighbouring_cell_angle, f, d0, units="grad")[0],
                    "C19.refuse", "unknown direction / units accepted")
    # demag functions: no result for a wrong dimension
    if ndim != 3:
        r, e = raises(Exception, dft.demag_tensor, mesh)
        ctx.require(r, "C19.refuse", "demag_tensor accepted a mesh that is not 3-d", ndim=ndim)
    elif nvdim != 3:
        t = dft.demag_tensor(mesh)
        r, e = raises(Exception, dft.demag_field, f, t)
        ctx.require(r, "C19.refuse", "demag_field accepted a field that has not 3 components", nvdim=nvdim,
                    got=None if r else getattr(e, "nvdim", None))
