"""C20 bounded run-time tier: what the matplotlib plotting methods of a 2-d field hand to matplotlib
(AxesImage array/extent, Quiver X/Y/U/V/colour, the arguments of Axes.contour and the resulting level lines,
axis labels) compared with the field's own numbers; frame condition on the field and on user-supplied
filter / colour / lightness fields; refusals.  Agg backend, figures closed after every case."""
import colorsys
import itertools
import math
import warnings
from fractions import Fraction

import numpy as np
import matplotlib

matplotlib.use("Agg", force=False)
import matplotlib.colors
import matplotlib.pyplot as plt
from matplotlib.quiver import Quiver
from matplotlib.contour import ContourSet

import discretisedfield as df

from .common import raises

PROPERTY = "C20"
EPS = float(np.finfo(float).eps)

CLAUSES = {
    "C20.scalar_values": "mpl.scalar: the AxesImage holds exactly field.array[i, j] at row j, column i (origin lower) for every drawn cell",
    "C20.extent": "image extent == [pmin0, pmax0, pmin1, pmax1] / multiplier (4 ulp of the coordinate scale)",
    "C20.positions": "arrows / contour grid sit at the cell centres / multiplier (8 ulp of the coordinate scale), first dimension horizontal, arrows pivot in the middle",
    "C20.vector_components": "mpl.vector: U, V are exactly the components mapped to the horizontal / vertical dimension through vdim_mapping (or the given vdims; zeros for None) of cell (i, j)",
    "C20.vector_colour": "mpl.vector: the colour array is the remaining (third) component, or the given colour field sampled at the cell centres (same or different resolution); no colour array when use_color=False",
    "C20.contour_values": "mpl.contour hands matplotlib Z[j, i] == field.array[i, j] (NaN for hidden cells); level lines of a linear field a*x+b*y+c lie on a*x+b*y+c == level (1e-9 of the value range)",
    "C20.lightness_colours": "mpl.lightness: RGB of cell (i, j) == hls_to_rgb(hue = in-plane angle (or the scalar value)/2pi, lightness = lightness field (third component / norm / given field) normalised to clim (default 0..1), saturation 1) within 1e-12; alpha 1 for drawn cells",
    "C20.hidden_filter": "cells where the filter field (sampled at the cell centre; same or different resolution) is zero are not drawn (masked / NaN / alpha 0); all other valid cells are drawn",
    "C20.hidden_invalid": "invalid cells are not drawn (image masked / NaN / alpha 0, arrows masked, contour NaN)",
    "C20.labels": "x/y axis labels are '<dim> (<SI prefix of the multiplier><unit>)' for the two dimensions",
    "C20.default_multiplier": "without an explicit multiplier the largest edge length divided by the multiplier lies in [1, 1000) (power of 1000); an explicit multiplier is used as given",
    "C20.call": "field.mpl(): scalar image of the out-of-plane component (scalar field: the field itself) with invalid cells hidden, plus arrows of the in-plane components for vector fields, labels set",
    "C20.frame_field": "plotting leaves the field unchanged: bytes of array and valid, dtype, region corners, n, dims, units, vdims, vdim_mapping, unit",
    "C20.frame_aux": "plotting leaves user-supplied filter / colour / lightness fields unchanged (bytes of array and valid, region, n)",
    "C20.frame_args": "no plotting call modifies an object the caller handed in: the deep snapshots (dict keys in order, nested dicts / lists / tuples / arrays / colormaps / fields) of every argument object - scalar_kw, vector_kw, the values of expanded keyword dicts, vdims, clim, levels, colors, colorwheel_args, figsize - and of every other object of the caller's pool are equal before and after each call of a history",
    "C20.history_independent": "every call of a history of plotting calls that share argument objects (different fields and the same field, changed by the caller in between or not, one kept plotter object or a new one, one figure or several) hands matplotlib exactly what that call alone does in a fresh world - freshly built equal field, fresh equal arguments, fresh figure: image data / mask / extent / clim / cmap, quiver X/Y/U/V/mask/colour/clim/cmap, the arguments of Axes.contour and the levels, axis and colorbar labels (exact equality); a call refused / failing in the history is refused / fails alone",
    "C20.refuse": "fields with ndim != 2 have no mpl; scalar/contour of a vector field, vector of a scalar or 4-component field, lightness/mpl() of a 4-component field, and filter/colour/lightness fields that are not scalar or not 2-d are refused (an exception, nothing drawn)",
}
RULE = ("seeded 2-d fields: scale 10^U(-9.5,3.5) (nm..km) with edge magnitudes differing by up to 100x between the axes, either corner order, n in 1..6 per axis "
        "(anisotropic cells), dims/units names varied, 1-3 components with default / custom vdims and default / permuted / partial / absent vdim_mapping, "
        "masks (none, random) x plot kind (scalar, vector, contour, lightness, mpl()) x multiplier (default, 1e-9..1e3) x filter / colour / lightness field "
        "(none, same resolution, coarser, finer; cell centres never on a face of the other mesh); "
        "histories: 2-6 successive calls of one entry point (mpl() with shared scalar_kw / vector_kw; mpl.scalar / contour / vector / lightness with a shared expanded keyword dict and shared "
        "vdims / clim / levels / colors / colorwheel_args / figsize lists, arrays, Colormap objects, shared filter / colour / lightness fields) or of several entry points with refused calls in between, "
        "on 2-3 fields (1-3 components, each with invalid and valid cells, own mesh or own resolution on a common region) visited in varying orders including the same field twice, "
        "optionally changed by the caller between two plots (new validity / new values / in-place values), through one kept plotter object or a new one per call, on one figure or several, "
        "on given axes or axes the library makes; each step against its own oracle and against the same call alone in a fresh world; "
        "non-trivial = at least 2 cells; distinct by (kind, params)")
ASSUMPTIONS = [
    "bounded: 2-d meshes of at most 6 cells per axis, seeded sample of geometry / labels / mappings / options",
    "matplotlib (Agg) artists are trusted to report the data they were given: AxesImage.get_array/get_extent, Quiver.X/Y/U/V/Umask/get_array, ContourSet.levels/get_paths; the arguments of Axes.contour are recorded by wrapping the bound method of the Axes instance",
    "colorsys.hls_to_rgb is trusted as the HLS->RGB oracle",
    "histories: the reference for step k is that step alone with freshly built fields (the caller's changes up to step k applied), fresh argument objects and a fresh figure, run BEFORE the history and in reverse order, in the same process; "
    "a colormap argument is snapshotted by name, N and its bad / under / over colours; objects reachable from the arguments other than dict / list / tuple / ndarray / Colormap / Field are compared by repr",
    "auxiliary fields of a different resolution live on the same region; resolutions are chosen so that no cell centre of the plotted field lies on a cell face of the auxiliary mesh",
]

PREFIX = {1e-12: "p", 1e-9: "n", 1e-6: "u", 1e-3: "m", 1: "", 1e3: "k", 1e6: "M", 1e9: "G"}
MULTS = [1e-9, 1e-6, 1e-3, 1, 1e3]


# --------------------------------------------------------------------------------------------- builders
def _region(spec):
    return df.Region(p1=tuple(spec["p1"]), p2=tuple(spec["p2"]), dims=list(spec["dims"]), units=list(spec["units"]))


def _field(spec):
    n = [int(k) for k in spec["n"]]
    mesh = df.Mesh(region=_region(spec), n=tuple(n))
    rng = np.random.default_rng(spec["seed"])
    nv = spec["nvdim"]
    if spec.get("linear") is not None:
        a, b, c = spec["linear"]
        X, Y = np.meshgrid(np.asarray(mesh.cells[0]), np.asarray(mesh.cells[1]), indexing="ij")
        arr = (a * X + b * Y + c)[..., None]
    elif spec.get("hue"):
        arr = rng.uniform(0.05, 2 * np.pi - 0.05, size=(*n, nv))
    else:
        arr = rng.normal(size=(*n, nv)) * spec.get("vscale", 1.0) + spec.get("voffset", 0.0)
    valid = True
    if spec.get("mask") is not None:
        mr = np.random.default_rng(spec["mask"]["seed"])
        valid = mr.random(n) >= spec["mask"]["p"]
    kw = {}
    if spec.get("vdims") is not None:
        kw["vdims"] = list(spec["vdims"])
    if spec.get("mapping") is not None:
        kw["vdim_mapping"] = {k: v for k, v in spec["mapping"]}
    return df.Field(mesh, nvdim=nv, value=arr, valid=valid, unit=spec.get("unit"), **kw)


def _aux(spec, aux):
    """scalar helper field (filter / colour / lightness) on the same region with its own resolution"""
    n = [int(k) for k in aux["n"]]
    mesh = df.Mesh(region=_region(spec), n=tuple(n))
    rng = np.random.default_rng(aux["seed"])
    arr = rng.normal(size=(*n, 1)) * aux.get("vscale", 1.0)
    if aux.get("zeros"):
        z = rng.random(n) < aux["zeros"]
        arr[z] = 0.0
    return df.Field(mesh, nvdim=1, value=arr)


def _sample(aux_arr, n):
    """value of the auxiliary field in the aux cell that contains the centre of cell (i, j) of an n-mesh (exact integer arithmetic)"""
    na = aux_arr.shape[:2]
    i0 = [((2 * i + 1) * na[0]) // (2 * n[0]) for i in range(n[0])]
    i1 = [((2 * j + 1) * na[1]) // (2 * n[1]) for j in range(n[1])]
    return aux_arr[np.ix_(i0, i1)][..., 0]


def _snap(f):
    r = f.mesh.region
    return (f.array.tobytes(), f.array.dtype.str, f.array.shape, np.asarray(f.valid).tobytes(), np.asarray(f.valid).dtype.str,
            np.asarray(r.pmin).tobytes(), np.asarray(r.pmax).tobytes(), tuple(int(k) for k in f.mesh.n), tuple(r.dims), tuple(r.units),
            None if f.vdims is None else tuple(f.vdims), tuple(sorted((str(k), str(v)) for k, v in f.vdim_mapping.items())), f.unit, f.nvdim)


_SNAP_NAMES = ("array bytes", "array dtype", "array shape", "valid bytes", "valid dtype", "pmin", "pmax", "n", "dims", "units", "vdims", "vdim_mapping", "unit", "nvdim")


def _diff_snap(a, b):
    return [nm for nm, x, y in zip(_SNAP_NAMES, a, b) if x != y]


def _default_multiplier(edges):
    best = None
    for e in edges:
        for m in sorted(PREFIX):
            if 1 <= abs(e) / m < 1e3:
                best = m if best is None else max(best, m)
    return best


def _rmap(f):
    """dims -> vdim through the mapping (None when unmapped), computed from the public vdim_mapping"""
    rev = {}
    for k, v in f.vdim_mapping.items():
        rev[v] = k
    return [rev.get(d) for d in f.mesh.region.dims]


# --------------------------------------------------------------------------------------------- cases
_LABELS = [
    {"dims": ["x", "y"], "units": ["m", "m"]},
    {"dims": ["x", "z"], "units": ["m", "m"]},
    {"dims": ["a", "b"], "units": ["m", "s"]},
    {"dims": ["y", "x"], "units": ["rad", "m"]},
]


def _geom(rng, nmin=1, nmax=6):
    while True:
        s = 10.0 ** rng.uniform(-9.5, 3.5)
        e = s * rng.uniform(1.0, 3.0, size=2) * np.array([1.0, 10.0 ** rng.choice([0, 0, 0, -1, 1, 2, -2])])
        big = float(np.max(e))
        m = _default_multiplier([big])
        if m is None or not (1.001 <= big / m <= 999.0):
            continue
        off = rng.uniform(-3, 3, size=2) * e
        pa, pb = off, off + e
        flip = rng.integers(0, 2, size=2).astype(bool)
        p1 = np.where(flip, pb, pa)
        p2 = np.where(flip, pa, pb)
        n = rng.integers(nmin, nmax + 1, size=2).tolist()
        g = {"p1": p1.tolist(), "p2": p2.tolist(), "n": n}
        g.update(_LABELS[int(rng.integers(len(_LABELS)))])
        return g


def _aux_n(rng, n, mode):
    """resolution of an auxiliary field such that no centre of the n-mesh lies on a face of the aux mesh"""
    if mode == "same":
        return list(n)
    for _ in range(50):
        if mode == "finer":
            na = [int(k * rng.choice([3, 5])) if rng.random() < 0.7 else int(k + rng.integers(1, 4)) for k in n]
        else:
            na = [max(1, int(k // rng.choice([2, 3]))) if rng.random() < 0.7 else max(1, int(k - 1)) for k in n]
        ok = True
        for k, ka in zip(n, na):
            for i in range(k):
                if (Fraction(2 * i + 1, 2 * k) * ka).denominator == 1:
                    ok = False
        if ok and list(na) != list(n):
            return na
    return [3 * k for k in n]


def _maybe_mask(rng, p=0.5):
    return {"seed": int(rng.integers(1 << 30)), "p": 0.25} if rng.random() < p else None


def _mult(rng):
    return None if rng.random() < 0.5 else MULTS[int(rng.integers(len(MULTS)))]


def _aux_spec(rng, n, mode, zeros=None):
    if mode is None:
        return None
    a = {"n": _aux_n(rng, n, mode), "seed": int(rng.integers(1 << 30)), "vscale": float(10.0 ** rng.uniform(-3, 3)), "mode": mode}
    if zeros:
        a["zeros"] = zeros
    return a


_MODES = [None, "same", "coarser", "finer"]


def _vector_variants(rng, dims):
    """(nvdim, vdims, mapping, vdims_arg) combinations: default, permuted, explicit, partial"""
    d0, d1 = dims
    out = [
        (3, None, [["x", d0], ["y", d1], ["z", None]], None),
        (3, ["p", "q", "r"], [["p", d1], ["q", None], ["r", d0]], None),            # permuted mapping
        (3, ["p", "q", "r"], [["r", d1], ["p", d0], ["q", "other"]], None),        # third component mapped to a foreign dim
        (3, None, None, ["z", "x"]),                                               # no mapping, explicit labels
        (3, ["a1", "a2", "a3"], [["a1", d0], ["a2", d1], ["a3", None]], ["a3", "a2"]),  # explicit labels override the mapping
        (2, None, None, None),                                                     # default mapping of a 2-component field
        (2, ["u", "v"], [["u", d1], ["v", d0]], None),                             # swapped mapping
        (2, ["u", "v"], [["u", d0], ["v", "other"]], None),                        # only one in-plane component
        (2, None, [], ["y", None]),
        (2, None, [], [None, "x"]),
    ]
    return out


# --------------------------------------------------------------------------------------------- generators of histories
_T_S = (1, None, None)
_T_V2 = (2, None, None)
_T_V2S = (2, ["u", "v"], [["u", "D1"], ["v", "D0"]])
_T_V3 = (3, None, [["x", "D0"], ["y", "D1"], ["z", None]])
_T_V3P = (3, ["p", "q", "r"], [["p", "D1"], ["q", None], ["r", "D0"]])
_T_V3N = (3, None, None)                      # no mapping: arrows need explicit labels
_ORDERS = [[0, 1, 2, 0], [0, 1, 0], [1, 0, 2], [0, 0, 1, 1], [2, 1, 0, 1]]


def _two_sided_mask(rng, n, p=0.3):
    """mask description with at least one invalid and one valid cell (computed as _field computes it)"""
    for _ in range(200):
        mk = {"seed": int(rng.integers(1 << 30)), "p": p}
        v = np.random.default_rng(mk["seed"]).random([int(k) for k in n]) >= p
        if v.any() and not v.all():
            return mk
    return mk


def _hist_field(rng, g, tmpl, p=0.3, vscale=None, hue=False):
    nv, vd, mp = tmpl
    spec = dict(g, nvdim=nv, seed=int(rng.integers(1 << 30)), vscale=float(10.0 ** rng.uniform(-3, 6)) if vscale is None else vscale)
    spec["mask"] = _two_sided_mask(rng, g["n"], p)
    if hue and nv == 1:
        spec["hue"] = True
    if vd is not None:
        spec["vdims"] = vd
    if mp is not None:
        spec["mapping"] = [[a, {"D0": g["dims"][0], "D1": g["dims"][1]}.get(b, b)] for a, b in mp]
    return spec


def _hist_aux(rng, ns, zeros=None):
    """auxiliary field description whose resolution suits every field resolution in ns (no cell centre on a face of the aux mesh):
    the resolution of one of the fields when that is compatible with all others, else odd numbers"""
    def ok(na):
        return all((Fraction(2 * i + 1, 2 * k) * ka).denominator != 1 for n in ns for k, ka in zip(n, na) for i in range(k))
    cand = [list(n) for n in ns if ok(n)]
    if cand and rng.random() < 0.4:
        na = cand[int(rng.integers(len(cand)))]
    else:
        na = [int(rng.choice([1, 3, 5, 7, 9, 15])) for _ in range(2)]
    a = {"n": na, "seed": int(rng.integers(1 << 30)), "vscale": float(10.0 ** rng.uniform(-3, 3)), "mode": "shared"}
    if zeros:
        a["zeros"] = zeros
    return a


def _history(rng, tmpls, share, pool, aux, calls, nmin=2, nmax=5, p=0.3, vscale=None, hue=False, options=True):
    """calls: list of (field index, entry, kwargs description, name of the pool dict to **-expand or None, refusal text or None)"""
    g0 = _geom(rng, nmin=nmin, nmax=nmax)
    fields = []
    for t in tmpls:
        g = dict(g0, n=rng.integers(nmin, nmax + 1, size=2).tolist()) if share else _geom(rng, nmin=nmin, nmax=nmax)
        fields.append(_hist_field(rng, g, t, p=p, vscale=vscale, hue=hue))
    ns = [f["n"] for f in fields]
    auxd = {nm: _hist_aux(rng, ns, zeros=z) for nm, z in aux.items()}
    pool = dict(pool)
    steps = []
    for fi, entry, kw, expand, refused in calls:
        st = {"field": fi, "entry": entry, "kwargs": dict(kw), "expand": expand, "multiplier": _mult(rng)}
        if refused:
            st["refused"] = refused
        steps.append(st)
    pr = {"fields": fields, "aux": auxd, "pool": pool, "steps": steps, "same_fig": False, "keep_plotter": False}
    if options:
        pr["same_fig"] = bool(rng.random() < 0.4)
        pr["keep_plotter"] = bool(rng.random() < 0.5)
        # the caller changes a field between two plots of it
        again = [k for k, st in enumerate(steps) if any(s["field"] == st["field"] for s in steps[:k])]
        if again and rng.random() < 0.7:
            k = again[int(rng.integers(len(again)))]
            sp = fields[steps[k]["field"]]
            kind = ["valid", "valid", "array", "array_inplace"][int(rng.integers(4))]
            if kind == "valid":
                steps[k]["pre"] = dict(_two_sided_mask(rng, sp["n"], 0.4), what="valid")
            elif kind == "array":
                steps[k]["pre"] = {"what": "array", "seed": int(rng.integers(1 << 30))}
            else:
                steps[k]["pre"] = {"what": "array_inplace", "factor": -0.5}
        # the library makes the figure itself from a figsize list of the caller
        own = [k for k, st in enumerate(steps) if st["entry"] != "contour" and not st.get("refused")]
        if own and rng.random() < 0.25:
            pool["figsize"] = [4.0, 3.0]
            for k in own[:: 2]:
                steps[k]["own_axes"] = True
                steps[k]["kwargs"]["figsize"] = _ref("figsize")
    return "history", pr


def _skw_variant(v):
    """(pool entries, needs aux) for a shared scalar_kw"""
    return [
        ({"skw": {"cmap": "viridis", "colorbar": False}}, {}),
        ({"clim": [-0.7, 1.3], "skw": {"clim": _ref("clim"), "colorbar_label": "shared label"}}, {}),
        ({"cmapobj": {"__t": "cmap", "name": "coolwarm"}, "skw": {"symmetric_clim": True, "cmap": _ref("cmapobj")}}, {}),
        ({"skw": {"filter_field": _auxref("filter"), "colorbar": False}}, {"filter": 0.3}),
        ({"skw": {"filter_field": None, "interpolation": "nearest"}}, {}),
        ({"skw": {}}, {}),
        ({}, {}),
    ][v]


def _vkw_variant(v):
    return [
        ({"vkw": {"use_color": False}}, {}),
        ({"vkw": {"use_color": True, "colorbar": True, "colorbar_label": "c", "cmap": "plasma"}}, {}),
        ({"vkw": {"scale": 2.5, "width": 0.01}}, {}),
        ({"vclim": [-1.0, 2.0], "vkw": {"color_field": _auxref("color"), "use_color": True, "clim": _ref("vclim")}}, {"color": None}),
        ({"vdims": ["y", "x"], "vkw": {"vdims": _ref("vdims")}}, {}),
        ({"vkw": {}}, {}),
        ({}, {}),
    ][v]


def _history_cases(rng, quick):
    R = 4 if quick else 20
    # ---- field.mpl() with shared scalar_kw / vector_kw
    for rep in range(R):
        for vs in range(7):
            vv = (vs * 3 + rep) % 7
            ps, as_ = _skw_variant(vs)
            pv, av = _vkw_variant(vv)
            img = [_T_S, _T_V3] if vv == 4 else [_T_S, _T_V3, _T_V3P]
            anyt = [_T_S, _T_V2, _T_V3] if vv == 4 else [_T_S, _T_V2, _T_V2S, _T_V3, _T_V3P]
            tmpls = [img[int(rng.integers(len(img)))], img[int(rng.integers(len(img)))], anyt[int(rng.integers(len(anyt)))]]
            if rng.random() < 0.5:
                tmpls = [tmpls[0], tmpls[2], tmpls[1]]
            pool = dict(ps, **pv)
            aux = dict(as_, **av)
            kw = {}
            if "skw" in pool:
                kw["scalar_kw"] = _ref("skw")
            if "vkw" in pool:
                kw["vector_kw"] = _ref("vkw")
            order = _ORDERS[int(rng.integers(len(_ORDERS)))]
            yield _history(rng, tmpls, bool(aux) or rng.random() < 0.3, pool, aux, [(i, "call", kw, None, None) for i in order])
    # ---- mpl.scalar(**kw)
    for rep in range(R):
        for v in range(4):
            pool, aux = [
                ({"clim": [-0.7, 1.3], "kw": {"cmap": "viridis", "clim": _ref("clim"), "colorbar": False}}, {}),
                ({"kw": {"symmetric_clim": True}}, {}),
                ({"kw": {"filter_field": _auxref("filter"), "colorbar": True, "colorbar_label": "lab"}}, {"filter": 0.3}),
                ({"cmapobj": {"__t": "cmap", "name": "coolwarm"}, "kw": {"filter_field": _auxref("filter"), "symmetric_clim": True, "cmap": _ref("cmapobj")}}, {"filter": 0.3}),
            ][v]
            order = _ORDERS[int(rng.integers(len(_ORDERS)))]
            yield _history(rng, [_T_S] * 3, bool(aux) or rng.random() < 0.3, pool, aux, [(i, "scalar", {}, "kw", None) for i in order])
    # ---- mpl.contour(**kw)
    for rep in range(R):
        for v in range(4):
            pool, aux = [
                ({"levels": [-0.6, -0.1, 0.4], "kw": {"levels": _ref("levels")}}, {}),
                ({"levels": {"__t": "array", "v": [-0.8, 0.0, 0.3, 0.9]}, "kw": {"levels": _ref("levels"), "filter_field": _auxref("filter")}}, {"filter": 0.15}),
                ({"colors": ["r", "g", "b", "k"], "kw": {"levels": 4, "colors": _ref("colors"), "colorbar": False}}, {}),
                ({"kw": {"filter_field": _auxref("filter"), "colorbar": False, "cmap": "viridis"}}, {"filter": 0.15}),
            ][v]
            order = _ORDERS[int(rng.integers(len(_ORDERS)))]
            yield _history(rng, [_T_S] * 3, bool(aux) or rng.random() < 0.3, pool, aux, [(i, "contour", {}, "kw", None) for i in order],
                           nmin=3, nmax=6, p=0.12, vscale=1.0)
    # ---- mpl.vector(vdims=..., **kw)
    for rep in range(R):
        for v in range(5):
            pool, aux, kwd, tm = [
                ({"vdims": ["x", "y"], "kw": {"use_color": False}}, {}, {"vdims": _ref("vdims")}, [_T_V2, _T_V3, _T_V3N]),
                ({"vdims": ["y", None], "kw": {"use_color": False, "scale": 3.0}}, {}, {"vdims": _ref("vdims")}, [_T_V3N, _T_V2, _T_V3]),
                ({"clim": [-1.0, 2.0], "cmapobj": {"__t": "cmap", "name": "plasma"}, "kw": {"color_field": _auxref("color"), "clim": _ref("clim"), "cmap": _ref("cmapobj")}},
                 {"color": None}, {}, [_T_V2, _T_V3, _T_V2S]),
                ({"vdims": ["z", "x"], "kw": {"use_color": True, "colorbar_label": "y"}}, {}, {"vdims": _ref("vdims")}, [_T_V3N, _T_V3, _T_V3]),
                ({"kw": {"use_color": True, "colorbar": True}}, {}, {}, [_T_V3, _T_V3P, _T_V3]),
            ][v]
            order = _ORDERS[int(rng.integers(len(_ORDERS)))]
            yield _history(rng, tm, bool(aux) or rng.random() < 0.3, pool, aux, [(i, "vector", kwd, "kw", None) for i in order])
    # ---- mpl.lightness(clim=..., colorwheel_args=..., **kw)
    for rep in range(R):
        for v in range(4):
            pool, aux, kwd = [
                ({"clim": [0.2, 0.85]}, {}, {"clim": _ref("clim"), "colorwheel": False}),
                ({"clim": {"__t": "array", "v": [0.1, 0.9]}}, {"light": None, "filter": 0.3},
                 {"clim": _ref("clim"), "lightness_field": _auxref("light"), "filter_field": _auxref("filter"), "colorwheel": False}),
                ({"cw": {"width": 0.6, "height": 0.6, "loc": "upper left"}}, {}, {"colorwheel": True, "colorwheel_args": _ref("cw"), "colorwheel_xlabel": "a"}),
                ({"kw": {"interpolation": "nearest"}}, {"light": None}, {"lightness_field": _auxref("light"), "colorwheel": False}),
            ][v]
            tm = [[_T_S, _T_V2, _T_V3], [_T_V3P, _T_V2S, _T_S], [_T_V3, _T_S, _T_V2], [_T_V2, _T_V3P, _T_V3]][(v + rep) % 4]
            order = [0, 1] if v == 2 else _ORDERS[int(rng.integers(len(_ORDERS)))]      # the colour wheel is slow
            yield _history(rng, tm, bool(aux) or rng.random() < 0.3, pool, aux, [(i, "lightness", kwd, "kw" if "kw" in pool else None, None) for i in order], hue=True)
    # ---- different entry points sharing argument objects, refused calls in between
    for rep in range(R):
        tm = [_T_S, _T_V3, _T_S]
        pool = {"clim": [0.15, 0.9], "kw": {"clim": _ref("clim"), "cmap": "viridis", "colorbar": False}}
        K, F = _ref("kw"), _auxref("filter")
        yield _history(rng, tm, True, pool, {}, [
            (0, "scalar", {}, "kw", None), (1, "call", {"scalar_kw": K}, None, None), (1, "scalar", {}, "kw", "scalar plot of a vector field"),
            (2, "call", {"scalar_kw": K}, None, None), (1, "lightness", {"clim": _ref("clim"), "colorwheel": False}, None, None), (0, "call", {"scalar_kw": K}, None, None)])
        yield _history(rng, tm, True, {"fkw": {"filter_field": F}}, {"filter": 0.3}, [
            (0, "contour", {"filter_field": F}, None, None), (2, "scalar", {}, "fkw", None), (0, "vector", {}, "fkw", "vector plot of a scalar field"),
            (1, "lightness", {"colorwheel": False}, "fkw", None), (0, "call", {"scalar_kw": _ref("fkw")}, None, None), (1, "call", {"scalar_kw": _ref("fkw")}, None, None)],
            nmin=3, nmax=5, p=0.12)
        yield _history(rng, [_T_V3, _T_V2, _T_V3P], True, {"vkw": {"use_color": True, "color_field": _auxref("color")}}, {"color": None}, [
            (0, "vector", {}, "vkw", None), (1, "call", {"vector_kw": _ref("vkw")}, None, None), (1, "contour", {}, None, "contour plot of a vector field"),
            (2, "vector", {}, "vkw", None), (0, "call", {"vector_kw": _ref("vkw"), "scalar_kw": {"colorbar": False}}, None, None)])


def cases(ctx):
    rng = ctx.rng
    quick = ctx.tier == "quick"
    R = 3 if quick else 20
    # ---- scalar
    for rep in range(R):
        for fm in _MODES:
            for masked in (False, True):
                g = _geom(rng)
                spec = dict(g, nvdim=1, seed=int(rng.integers(1 << 30)), vscale=float(10.0 ** rng.uniform(-3, 6)), voffset=float(rng.normal()),
                            mask=_maybe_mask(rng, 1.0) if masked else None)
                if rng.random() < 0.3:
                    spec["vdims"] = ["s"]
                yield "scalar", {"f": spec, "multiplier": _mult(rng), "filter": _aux_spec(rng, g["n"], fm, zeros=0.3), "colorbar": bool(rng.random() < 0.5),
                                 "symmetric_clim": bool(rng.random() < 0.3)}
    # ---- vector
    for rep in range(R):
        for vi in range(10):
            g = _geom(rng)
            nv, vd, mp, va = _vector_variants(rng, g["dims"])[vi]
            spec = dict(g, nvdim=nv, seed=int(rng.integers(1 << 30)), vscale=float(10.0 ** rng.uniform(-3, 6)), mask=_maybe_mask(rng))
            if vd is not None:
                spec["vdims"] = vd
            if mp is not None:
                spec["mapping"] = mp
            cm = _MODES[(vi + rep) % 4]
            none_in_arg = va is not None and None in va
            use_color = True
            if nv == 2 and cm is None:
                use_color = bool(rng.random() < 0.5)          # warns and ignores when True
            if none_in_arg and nv == 3 and cm is None:
                use_color = False
            yield "vector", {"f": spec, "multiplier": _mult(rng), "vdims_arg": va, "use_color": use_color, "color": _aux_spec(rng, g["n"], cm),
                             "colorbar": bool(rng.random() < 0.5)}
    # ---- contour
    for rep in range(R):
        for fm in _MODES:
            for lin in (False, True):
                g = _geom(rng, nmin=2)
                spec = dict(g, nvdim=1, seed=int(rng.integers(1 << 30)), vscale=float(10.0 ** rng.uniform(-3, 6)), mask=_maybe_mask(rng, 0.4))
                if lin:
                    e = np.abs(np.asarray(g["p2"]) - np.asarray(g["p1"]))
                    spec["linear"] = [float(rng.normal() / e[0]), float(rng.normal() / e[1]), float(rng.normal())]
                    spec["mask"] = None
                    fm_ = None
                else:
                    fm_ = fm
                yield "contour", {"f": spec, "multiplier": _mult(rng), "filter": _aux_spec(rng, g["n"], fm_, zeros=0.25), "colorbar": bool(rng.random() < 0.5)}
    # ---- lightness
    for rep in range(R):
        lv = [(1, None, None), (2, None, None), (2, ["u", "v"], [["u", "D1"], ["v", "D0"]]), (3, None, [["x", "D0"], ["y", "D1"], ["z", None]]),
              (3, ["p", "q", "r"], [["p", "D1"], ["q", None], ["r", "D0"]]), (2, ["u", "v"], [["u", "D0"], ["v", "other"]]), (2, ["u", "v"], [["v", "D1"], ["u", "other"]]),
              (3, None, None)]
        for li, (nv, vd, mp) in enumerate(lv):
            for lm in _MODES if not quick else [_MODES[(li + k) % 4] for k in (0, 1)]:
                g = _geom(rng)
                spec = dict(g, nvdim=nv, seed=int(rng.integers(1 << 30)), vscale=float(10.0 ** rng.uniform(-3, 6)), mask=_maybe_mask(rng))
                if nv == 1:
                    spec["hue"] = True
                if vd is not None:
                    spec["vdims"] = vd
                if mp is not None:
                    spec["mapping"] = [[a, {"D0": g["dims"][0], "D1": g["dims"][1]}.get(b, b)] for a, b in mp]
                fmode = _MODES[int(rng.integers(4))]
                yield "lightness", {"f": spec, "multiplier": _mult(rng), "lightness": _aux_spec(rng, g["n"], lm), "filter": _aux_spec(rng, g["n"], fmode, zeros=0.3),
                                    "clim": None if rng.random() < 0.6 else [0.2, 0.85], "colorwheel": bool(rng.random() < 0.3)}
    # ---- mpl()
    for rep in range(R):
        for nv, vd, mp in [(1, None, None), (2, None, None), (2, ["u", "v"], [["u", "D1"], ["v", "D0"]]), (3, None, [["x", "D0"], ["y", "D1"], ["z", None]]),
                           (3, ["p", "q", "r"], [["p", "D1"], ["q", None], ["r", "D0"]])]:
            g = _geom(rng)
            spec = dict(g, nvdim=nv, seed=int(rng.integers(1 << 30)), vscale=float(10.0 ** rng.uniform(-3, 6)), mask=_maybe_mask(rng, 0.7))
            if vd is not None:
                spec["vdims"] = vd
            if mp is not None:
                spec["mapping"] = [[a, {"D0": g["dims"][0], "D1": g["dims"][1]}.get(b, b)] for a, b in mp]
            yield "call", {"f": spec, "multiplier": _mult(rng)}
    # ---- refusals
    for ndim in (1, 3):
        for nv in (1, 3):
            yield "refuse_ndim", {"ndim": ndim, "nvdim": nv}
    g = _geom(rng, nmin=2)
    for what in ("scalar_nvdim2", "scalar_nvdim3", "contour_nvdim2", "contour_nvdim3", "vector_nvdim1", "vector_nvdim1_vdims",
                 "vector_nvdim3_nomapping", "vector_vdims_len3", "vector_vdims_none_none", "lightness_nvdim4", "call_nvdim4",
                 "filter_nvdim2", "filter_ndim3", "filter_ndim1", "color_nvdim3", "color_ndim3", "lightness_field_nvdim2", "lightness_field_ndim3",
                 "contour_filter_nvdim2", "lightness_filter_nvdim3"):
        yield "refuse", dict(g, what=what, seed=int(rng.integers(1 << 30)))
    # ---- histories of calls that share argument objects
    yield from _history_cases(rng, quick)


# --------------------------------------------------------------------------------------------- checks
def check(kind, pr, ctx):
    try:
        with warnings.catch_warnings():
            warnings.simplefilter("ignore")
            with np.errstate(all="ignore"):
                return globals()["_check_" + kind](pr, ctx)
    finally:
        plt.close("all")


def _mult_and_labels(ax, f, pr, ctx, clause_extra=None):
    """returns the multiplier the plot must have used; checks labels"""
    r = f.mesh.region
    edges = np.abs(np.asarray(r.pmax) - np.asarray(r.pmin))
    if pr.get("multiplier") is None:
        m = _default_multiplier(edges)
        big = float(np.max(edges))
        ctx.require(m is not None and 1 <= big / m < 1e3, "C20.default_multiplier", "no SI multiplier puts the largest edge into [1, 1000)", edges=edges, m=m)
    else:
        m = pr["multiplier"]
    want = ["%s (%s%s)" % (r.dims[k], PREFIX[m], r.units[k]) for k in (0, 1)]
    got = [ax.get_xlabel(), ax.get_ylabel()]
    ctx.require(got == want, "C20.labels", "axis labels differ from '<dim> (<prefix><unit>)'", got=got, want=want)
    if pr.get("multiplier") is not None:
        ctx.require(got == want, "C20.default_multiplier", "explicit multiplier not used in the labels", got=got, want=want)
    return m


def _check_extent(im, f, m, ctx):
    r = f.mesh.region
    pmin, pmax = np.asarray(r.pmin, dtype=float), np.asarray(r.pmax, dtype=float)
    want = np.array([pmin[0], pmax[0], pmin[1], pmax[1]]) / m
    got = np.array([float(v) for v in im.get_extent()])
    sc = np.array([max(abs(pmin[0]), abs(pmax[0]))] * 2 + [max(abs(pmin[1]), abs(pmax[1]))] * 2) / m
    ctx.require(np.all(np.abs(got - want) <= 4 * EPS * sc), "C20.extent", "image extent differs from the region corners / multiplier", got=got, want=want)
    ctx.require(getattr(im, "origin", None) == "lower", "C20.extent", "image origin is not 'lower'", got=getattr(im, "origin", None))


def _centres(f, m):
    r = f.mesh.region
    pmin, pmax = np.asarray(r.pmin, dtype=float), np.asarray(r.pmax, dtype=float)
    n = [int(k) for k in f.mesh.n]
    out, sc = [], []
    for a in (0, 1):
        cell = (pmax[a] - pmin[a]) / n[a]
        out.append((pmin[a] + (np.arange(n[a]) + 0.5) * cell) / m)
        sc.append(max(abs(pmin[a]), abs(pmax[a])) / m)
    return out, sc


def _hidden_sets(f, spec, faux, n):
    """(valid, filter_nonzero) boolean (n0, n1) arrays; filter_nonzero is all True without a filter field"""
    valid = np.asarray(f.valid).astype(bool).copy()
    if faux is None:
        return valid, np.ones(n, dtype=bool)
    return valid, _sample(faux.array.copy(), n) != 0


def _require_hidden(shown, valid, fnz, has_filter, ctx, what):
    """shown: bool (n0, n1) of cells that reached matplotlib as drawable"""
    ctx.require(not np.any(shown & ~fnz), "C20.hidden_filter", "%s: a cell with zero filter value is drawn" % what, cells=np.argwhere(shown & ~fnz)[:5])
    ctx.require(np.all(shown[valid & fnz]), "C20.hidden_filter", "%s: a valid cell with non-zero filter value is hidden" % what, cells=np.argwhere(~shown & valid & fnz)[:5])
    bad = shown & ~valid & fnz
    ctx.require(not np.any(bad), "C20.hidden_invalid", "%s: an invalid cell is drawn" % what,
                sig="invalid-cells-drawn-when-filter_field-given" if has_filter else None, cells=np.argwhere(bad)[:5])


def _frame(ctx, f, before, aux=()):
    d = _diff_snap(before, _snap(f))
    ctx.require(not d, "C20.frame_field", "plotting modified the field", changed=d)
    for name, fld, snap in aux:
        if fld is None:
            continue
        d = _diff_snap(snap, _snap(fld))
        sig = None
        if d == ["array bytes"] and name == "lightness_field":
            sig = "lightness_field-normalised-in-place(normalise_to_range)"
        ctx.require(not d, "C20.frame_aux", "plotting modified the user-supplied %s" % name, sig=sig, changed=d)


def _new_ax():
    fig = plt.figure(figsize=(4, 3))
    return fig.add_subplot(111)


def _verify_image(ctx, ax, f, arr_want, valid, fnz, has_filter, m, clause, what):
    """the single AxesImage of `ax` against the values `arr_want[i, j]`: extent, orientation, drawn values, hidden cells"""
    n = [int(k) for k in f.mesh.n]
    ctx.require(len(ax.images) == 1, clause, "%s: expected exactly one image on the axes" % what, got=len(ax.images))
    if len(ax.images) != 1:
        return
    im = ax.images[0]
    _check_extent(im, f, m, ctx)
    A = np.ma.masked_invalid(im.get_array())
    ok_shape = A.shape == (n[1], n[0])
    ctx.require(ok_shape, clause, "%s: image array is not (n1, n0)" % what, got=A.shape, n=n)
    if not ok_shape:
        return
    shown = ~np.ma.getmaskarray(A).T
    data = np.ma.getdata(A).T
    ctx.require(np.array_equal(data[shown], arr_want[shown]), clause, "%s: a drawn pixel differs from the field value of its cell (transposition / origin / copy)" % what,
                where=np.argwhere(shown & (data != arr_want))[:5])
    _require_hidden(shown, valid, fnz, has_filter, ctx, what)


def _check_scalar(pr, ctx):
    spec = pr["f"]
    f = _field(spec)
    n = [int(k) for k in f.mesh.n]
    if n[0] * n[1] < 2:
        ctx.trivial()
    faux = _aux(spec, pr["filter"]) if pr.get("filter") else None
    arr0 = f.array.copy()
    valid, fnz = _hidden_sets(f, spec, faux, n)
    before, fb = _snap(f), (None if faux is None else _snap(faux))
    ax = _new_ax()
    kw = {"colorbar": pr["colorbar"], "symmetric_clim": pr["symmetric_clim"]}
    if pr.get("multiplier") is not None:
        kw["multiplier"] = pr["multiplier"]
    if faux is not None:
        kw["filter_field"] = faux
    r, e = raises(Exception, f.mpl.scalar, ax=ax, **kw)
    if r:
        ctx.require(False, "C20.scalar_values", "mpl.scalar raised", sig="raised:" + type(e).__name__, error=repr(e))
        return
    _frame(ctx, f, before, [("filter_field", faux, fb)])
    m = _mult_and_labels(ax, f, pr, ctx)
    _verify_image(ctx, ax, f, arr0[..., 0], valid, fnz, faux is not None, m, "C20.scalar_values", "scalar")


def _verify_quiver(ctx, ax, f, arr0, valid, m, vdims_arg, use_color, caux0, clause, what, cmode=None):
    """the single Quiver of `ax`: positions, components (explicit labels or the mapping), hidden arrows, colour array"""
    n = [int(k) for k in f.mesh.n]
    qs = [c for c in ax.collections if isinstance(c, Quiver)]
    ctx.require(len(qs) == 1, clause, "%s: expected exactly one Quiver on the axes" % what, got=len(qs))
    if len(qs) != 1:
        return
    q = qs[0]
    N = n[0] * n[1]
    (c0, c1), (s0, s1) = _centres(f, m)
    X = np.asarray(q.X, dtype=float).ravel()
    Y = np.asarray(q.Y, dtype=float).ravel()
    okshape = X.size == N and Y.size == N and np.asarray(q.U).size == N and np.asarray(q.V).size == N
    ctx.require(okshape, "C20.positions", "%s: quiver has not one arrow per cell" % what, got=X.size, want=N)
    if not okshape:
        return
    X, Y = X.reshape(n[1], n[0]).T, Y.reshape(n[1], n[0]).T           # -> [i, j]
    ctx.require(np.all(np.abs(X - c0[:, None]) <= 8 * EPS * s0) and np.all(np.abs(Y - c1[None, :]) <= 8 * EPS * s1), "C20.positions",
                "%s: arrow positions differ from the cell centres / multiplier" % what, gotx=X[:, 0], wantx=c0, goty=Y[0, :], wanty=c1)
    ctx.require(str(q.pivot) in ("mid", "middle"), "C20.positions", "%s: arrows do not pivot about their middle" % what, got=q.pivot)
    # components
    vd = list(f.vdims)
    names = list(vdims_arg) if vdims_arg is not None else _rmap(f)
    U = np.asarray(np.ma.getdata(q.U), dtype=float).reshape(n[1], n[0]).T
    V = np.asarray(np.ma.getdata(q.V), dtype=float).reshape(n[1], n[0]).T
    mask = np.broadcast_to(np.asarray(getattr(q, "Umask", False)), (N,)).reshape(n[1], n[0]).T | np.isnan(U) | np.isnan(V)
    shown = ~mask
    wantU = arr0[..., vd.index(names[0])] if names[0] is not None else np.zeros(n)
    wantV = arr0[..., vd.index(names[1])] if names[1] is not None else np.zeros(n)
    ctx.require(np.array_equal(U[shown], wantU[shown]) and np.array_equal(V[shown], wantV[shown]), clause,
                "%s: arrow components differ from the mapped field components of the cell" % what, names=names, vdims=vd)
    ctx.require(not np.any(shown & ~valid), "C20.hidden_invalid", "%s: an invalid cell has an arrow" % what, cells=np.argwhere(shown & ~valid)[:5])
    ctx.require(np.all(shown[valid]), "C20.hidden_invalid", "%s: a valid cell has no arrow" % what, cells=np.argwhere(~shown & valid)[:5])
    # colour
    C = q.get_array()
    if caux0 is not None and use_color:
        wantC = _sample(caux0, n)
    elif use_color and f.nvdim == 3:
        rest = [v for v in vd if v not in names]
        wantC = arr0[..., vd.index(rest[0])] if len(rest) == 1 else None
    else:
        wantC = None
    if wantC is None:
        ctx.require(C is None, "C20.vector_colour", "%s: a colour array was handed over although colouring is off / impossible" % what,
                    got=None if C is None else np.asarray(C)[:6])
    else:
        okc = C is not None and np.asarray(C).size == N
        if okc:
            Cd = np.asarray(np.ma.getdata(C), dtype=float).reshape(n[1], n[0]).T
            okc = np.array_equal(Cd[shown], wantC[shown])
        ctx.require(okc, "C20.vector_colour", "%s: colour array differs from the third component / the colour field at the cell centres" % what, mode=cmode)


def _check_vector(pr, ctx):
    spec = pr["f"]
    f = _field(spec)
    n = [int(k) for k in f.mesh.n]
    if n[0] * n[1] < 2:
        ctx.trivial()
    caux = _aux(spec, pr["color"]) if pr.get("color") else None
    arr0 = f.array.copy()
    caux0 = None if caux is None else caux.array.copy()
    valid = np.asarray(f.valid).astype(bool).copy()
    before, cb = _snap(f), (None if caux is None else _snap(caux))
    ax = _new_ax()
    kw = {"colorbar": pr["colorbar"], "use_color": pr["use_color"]}
    if pr.get("multiplier") is not None:
        kw["multiplier"] = pr["multiplier"]
    if pr.get("vdims_arg") is not None:
        kw["vdims"] = list(pr["vdims_arg"])
    if caux is not None:
        kw["color_field"] = caux
    r, e = raises(Exception, f.mpl.vector, ax=ax, **kw)
    if r:
        ctx.require(False, "C20.vector_components", "mpl.vector raised", sig="raised:" + type(e).__name__, error=repr(e))
        return
    _frame(ctx, f, before, [("color_field", caux, cb)])
    m = _mult_and_labels(ax, f, pr, ctx)
    _verify_quiver(ctx, ax, f, arr0, valid, m, pr.get("vdims_arg"), pr["use_color"], caux0, "C20.vector_components", "vector",
                   cmode=None if caux is None else pr["color"]["mode"])


def _record_contour(ax):
    """wrap the bound Axes.contour of this Axes instance; returns the list the (args, kwargs) of every call are appended to"""
    rec = []
    real = ax.contour

    def recorder(*a, **k):
        rec.append((a, k))
        return real(*a, **k)

    ax.contour = recorder
    return rec


def _verify_contour(ctx, ax, rec, r, e, f, arr0, valid, fnz, has_filter, mult, linear, what="contour"):
    """what mpl.contour handed to Axes.contour (rec) and the resulting level lines; r, e: outcome of the call.
    Returns False when the call must be regarded as failed."""
    n = [int(k) for k in f.mesh.n]
    if r:
        nshown = int(np.sum(valid & fnz))
        if rec and nshown < 4:          # matplotlib cannot contour (almost) empty data; the data handed over is still checked below
            pass
        else:
            ctx.require(False, "C20.contour_values", "%s: mpl.contour raised" % what, sig="raised:" + type(e).__name__, error=repr(e))
            if not rec:
                return False
    ctx.require(len(rec) == 1 and len(rec[0][0]) >= 3, "C20.contour_values", "%s: Axes.contour was not called once with (X, Y, Z)" % what, got=len(rec))
    if not (len(rec) == 1 and len(rec[0][0]) >= 3):
        return False
    m = mult if mult is not None else _default_multiplier(np.abs(np.asarray(f.mesh.region.pmax) - np.asarray(f.mesh.region.pmin)))
    if not r:
        m = _mult_and_labels(ax, f, {"multiplier": mult}, ctx)
    Xa, Ya, Z = (np.asarray(v, dtype=float) for v in rec[0][0][:3])
    (c0, c1), (s0, s1) = _centres(f, m)
    okpos = Xa.shape == (n[0],) and Ya.shape == (n[1],) and np.all(np.abs(Xa - c0) <= 8 * EPS * s0) and np.all(np.abs(Ya - c1) <= 8 * EPS * s1)
    ctx.require(okpos, "C20.positions", "%s: contour grid differs from the cell centres / multiplier" % what, gotx=Xa, wantx=c0, goty=Ya, wanty=c1)
    okz = Z.shape == (n[1], n[0])
    ctx.require(okz, "C20.contour_values", "%s: Z is not (n1, n0)" % what, got=Z.shape)
    if not okz:
        return False
    shown = ~np.isnan(Z).T
    ctx.require(np.array_equal(Z.T[shown], arr0[..., 0][shown]), "C20.contour_values", "%s: a contour value differs from the field value of its cell" % what)
    _require_hidden(shown, valid, fnz, has_filter, ctx, what)
    if r:
        return True
    css = [c for c in ax.collections if isinstance(c, ContourSet)]
    ctx.require(len(css) == 1, "C20.contour_values", "%s: expected one ContourSet on the axes" % what, got=len(css))
    if linear is not None and len(css) == 1:
        a, b, c = linear
        cs = css[0]
        vals = arr0[..., 0]
        rngv = float(vals.max() - vals.min())
        worst, cnt = 0.0, 0
        for lev, path in zip(cs.levels, cs.get_paths()):
            v = np.asarray(path.vertices, dtype=float)
            if v.size == 0:
                continue
            cnt += len(v)
            worst = max(worst, float(np.max(np.abs(a * v[:, 0] * m + b * v[:, 1] * m + c - lev))))
        if cnt == 0:
            ctx.trivial()
        ctx.require(worst <= 1e-9 * max(rngv, abs(c)), "C20.contour_values", "level lines of a linear field are not where a*x+b*y+c == level", worst=worst, value_range=rngv)
    return True


def _check_contour(pr, ctx):
    spec = pr["f"]
    f = _field(spec)
    n = [int(k) for k in f.mesh.n]
    faux = _aux(spec, pr["filter"]) if pr.get("filter") else None
    arr0 = f.array.copy()
    valid, fnz = _hidden_sets(f, spec, faux, n)
    before, fb = _snap(f), (None if faux is None else _snap(faux))
    ax = _new_ax()
    rec = _record_contour(ax)
    kw = {"colorbar": pr["colorbar"]}
    if pr.get("multiplier") is not None:
        kw["multiplier"] = pr["multiplier"]
    if faux is not None:
        kw["filter_field"] = faux
    r, e = raises(Exception, f.mpl.contour, ax=ax, **kw)
    if not (r and not rec):
        _frame(ctx, f, before, [("filter_field", faux, fb)])
    _verify_contour(ctx, ax, rec, r, e, f, arr0, valid, fnz, faux is not None, pr.get("multiplier"), spec.get("linear"))


def _lightness_oracle(f, arr0, clim, laux0, n):
    """rgb (n0, n1, 3) from the statement: hue = in-plane angle / 2 pi, lightness = normalised lightness field"""
    nv = f.nvdim
    if nv == 1:
        ang = arr0[..., 0]
        light = np.abs(arr0[..., 0])
    else:
        vd = list(f.vdims)
        x, y = _rmap(f)
        vx = arr0[..., vd.index(x)] if x is not None else np.zeros(n)
        vy = arr0[..., vd.index(y)] if y is not None else np.zeros(n)
        ang = np.arctan2(vy, vx)
        ang = np.where(ang < 0, ang + 2 * np.pi, ang)
        if nv == 2:
            light = np.sqrt(np.sum(arr0 ** 2, axis=-1))
        else:
            rest = [v for v in vd if v not in (x, y)]
            light = arr0[..., vd.index(rest[0])] if len(rest) == 1 else None
    if laux0 is not None:
        light = _sample(laux0, n)
    if light is None:
        return None
    lo, hi = (0.0, 1.0) if clim is None else clim
    l = light - light.min()
    if l.max() != 0:
        l = l / l.max()
    l = lo + l * (hi - lo)
    h = ang / (2 * np.pi)
    rgb = np.zeros((*n, 3))
    for i in range(n[0]):
        for j in range(n[1]):
            rgb[i, j] = colorsys.hls_to_rgb(float(h[i, j]), float(l[i, j]), 1.0)
    return rgb


def _verify_lightness(ctx, ax, r, e, f, arr0, valid, fnz, has_filter, mult, clim, laux0, lmode=None, what="lightness"):
    """outcome (r, e) and image of a mpl.lightness call"""
    n = [int(k) for k in f.mesh.n]
    x_y = _rmap(f) if f.nvdim > 1 else [None, None]
    no_inplane = f.nvdim > 1 and x_y[0] is None and x_y[1] is None
    if no_inplane:
        # no component is mapped to either plane direction: there is no in-plane angle, the plot must be refused
        ctx.require(r and len(ax.images) == 0, "C20.refuse", "%s: lightness plot of a vector field without in-plane components not refused" % what)
        return
    if r:
        sig = "raised:" + type(e).__name__
        if isinstance(e, TypeError) and f.nvdim > 1 and (x_y[0] is None) != (x_y[1] is None):
            sig = "inplane_angle-swapped-None-conditions(one in-plane component)"
        if isinstance(e, IndexError) and 1 in n:
            sig = "hls2rgb-squeeze-drops-length-1-axis(n==1)"
        ctx.require(False, "C20.lightness_colours", "%s: mpl.lightness raised" % what, sig=sig, error=repr(e), in_plane=x_y)
        return
    m = _mult_and_labels(ax, f, {"multiplier": mult}, ctx)
    ctx.require(len(ax.images) == 1, "C20.lightness_colours", "%s: expected exactly one image on the main axes" % what, got=len(ax.images))
    if len(ax.images) != 1:
        return
    im = ax.images[0]
    _check_extent(im, f, m, ctx)
    A = np.asarray(im.get_array(), dtype=float)
    oks = A.shape == (n[1], n[0], 4)
    ctx.require(oks, "C20.lightness_colours", "%s: image is not an (n1, n0, 4) RGBA array" % what, got=A.shape)
    if not oks:
        return
    A = np.transpose(A, (1, 0, 2))
    shown = A[..., 3] > 0
    _require_hidden(shown, valid, fnz, has_filter, ctx, what)
    want = _lightness_oracle(f, arr0, clim, laux0, n)
    if want is None:
        ctx.trivial()
        return
    ok = np.all(np.abs(A[..., :3][shown] - want[shown]) <= 1e-12) and np.all(A[..., 3][shown] == 1.0)
    ctx.require(ok, "C20.lightness_colours", "%s: RGB of a drawn cell differs from hls_to_rgb(angle/2pi, normalised lightness, 1)" % what,
                worst=float(np.max(np.abs(A[..., :3][shown] - want[shown]))) if np.any(shown) else None,
                lightness=lmode, in_plane=x_y)


def _check_lightness(pr, ctx):
    spec = pr["f"]
    f = _field(spec)
    n = [int(k) for k in f.mesh.n]
    if n[0] * n[1] < 2:
        ctx.trivial()
    faux = _aux(spec, pr["filter"]) if pr.get("filter") else None
    laux = _aux(spec, pr["lightness"]) if pr.get("lightness") else None
    arr0 = f.array.copy()
    laux0 = None if laux is None else laux.array.copy()
    valid, fnz = _hidden_sets(f, spec, faux, n)
    before = _snap(f)
    fb, lb = (None if faux is None else _snap(faux)), (None if laux is None else _snap(laux))
    ax = _new_ax()
    kw = {"colorwheel": pr["colorwheel"]}
    if pr.get("multiplier") is not None:
        kw["multiplier"] = pr["multiplier"]
    if faux is not None:
        kw["filter_field"] = faux
    if laux is not None:
        kw["lightness_field"] = laux
    if pr.get("clim") is not None:
        kw["clim"] = tuple(pr["clim"])
    r, e = raises(Exception, f.mpl.lightness, ax=ax, **kw)
    _frame(ctx, f, before, [("filter_field", faux, fb), ("lightness_field", laux, lb)])
    _verify_lightness(ctx, ax, r, e, f, arr0, valid, fnz, faux is not None, pr.get("multiplier"), pr.get("clim"), laux0,
                      lmode=None if laux is None else pr["lightness"]["mode"])


def _verify_call(ctx, ax, f, arr0, valid, mult, fnz=None, has_filter=False, vdims_arg=None, use_color=False, caux0=None, what="mpl()"):
    """artists of a successful field.mpl(): image of the out-of-plane component (scalar field: the field itself) hidden where invalid
    (or where the filter field given through scalar_kw is zero), arrows of the in-plane components (options given through vector_kw)"""
    n = [int(k) for k in f.mesh.n]
    if fnz is None:
        fnz = np.ones(n, dtype=bool)
    m = _mult_and_labels(ax, f, {"multiplier": mult}, ctx)
    nv = f.nvdim
    qs = [c for c in ax.collections if isinstance(c, Quiver)]
    ctx.require(len(ax.images) == (0 if nv == 2 else 1) and len(qs) == (0 if nv == 1 else 1), "C20.call", "%s: wrong artists for the number of components" % what,
                images=len(ax.images), quivers=len(qs), nvdim=nv)
    vd = None if f.vdims is None else list(f.vdims)
    names = _rmap(f) if nv > 1 else None
    if len(ax.images) == 1:
        if nv == 1:
            want = arr0[..., 0]
        else:
            rest = [v for v in vd if v not in names]
            want = arr0[..., vd.index(rest[0])]
        _verify_image(ctx, ax, f, want, valid, fnz, has_filter, m, "C20.call", what)
    if len(qs) == 1:
        _verify_quiver(ctx, ax, f, arr0, valid, m, vdims_arg, use_color, caux0, "C20.call", what)


def _check_call(pr, ctx):
    spec = pr["f"]
    f = _field(spec)
    n = [int(k) for k in f.mesh.n]
    if n[0] * n[1] < 2:
        ctx.trivial()
    arr0 = f.array.copy()
    valid = np.asarray(f.valid).astype(bool).copy()
    before = _snap(f)
    ax = _new_ax()
    kw = {}
    if pr.get("multiplier") is not None:
        kw["multiplier"] = pr["multiplier"]
    r, e = raises(Exception, f.mpl, ax=ax, **kw)
    if r:
        ctx.require(False, "C20.call", "field.mpl() raised", sig="raised:" + type(e).__name__, error=repr(e))
        return
    _frame(ctx, f, before)
    _verify_call(ctx, ax, f, arr0, valid, pr.get("multiplier"))


# --------------------------------------------------------------------------------------------- histories of calls sharing argument objects
# Argument description language (JSON): scalars as they are; list -> list; dict without "__t" -> dict (key order kept);
# {"__t": "ref", "name": k} -> THE object pool[k] of the environment (one object per environment, shared by every use);
# {"__t": "aux", "name": k} -> THE auxiliary scalar field aux[k]; {"__t": "tuple", "v": [...]}; {"__t": "array", "v": [...], "dtype": d};
# {"__t": "cmap", "name": s} -> a Colormap object (matplotlib.colormaps[s], a private copy).
def _ref(name):
    return {"__t": "ref", "name": name}


def _auxref(name):
    return {"__t": "aux", "name": name}


def _resolve(d, pool):
    """description with every ref replaced by the description it points to (aux / tuple / array / cmap nodes are kept)"""
    if isinstance(d, dict):
        t = d.get("__t")
        if t == "ref":
            return _resolve(pool[d["name"]], pool)
        if t == "tuple":
            return {"__t": "tuple", "v": [_resolve(v, pool) for v in d["v"]]}
        if t is not None:
            return d
        return {k: _resolve(v, pool) for k, v in d.items()}
    if isinstance(d, list):
        return [_resolve(v, pool) for v in d]
    return d


def _plain(d):
    """resolved description -> plain python value (tuple / array nodes become lists); aux / cmap nodes are kept"""
    if isinstance(d, dict):
        if d.get("__t") in ("tuple", "array"):
            return [_plain(v) for v in d["v"]]
        if d.get("__t") is not None:
            return d
        return {k: _plain(v) for k, v in d.items()}
    if isinstance(d, list):
        return [_plain(v) for v in d]
    return d


def _auxname(d):
    return d["name"] if isinstance(d, dict) and d.get("__t") == "aux" else None


def _mask_of(spec, mask):
    return np.random.default_rng(mask["seed"]).random([int(k) for k in spec["n"]]) >= mask["p"]


class _Env:
    """one world of a history: the field objects, the auxiliary fields and the pool of argument objects, each built once from the params"""

    def __init__(self, pr):
        self.pr = pr
        self.fields = [_field(s) for s in pr["fields"]]
        self.aux = {k: _aux(pr["fields"][0], a) for k, a in (pr.get("aux") or {}).items()}
        self.aux0 = {k: a.array.copy() for k, a in self.aux.items()}
        self.pool = {}
        for k, d in (pr.get("pool") or {}).items():     # in order: later entries may refer to earlier ones
            self.pool[k] = self.build(d)
        self.plotters = [f.mpl for f in self.fields] if pr.get("keep_plotter") else None

    def build(self, d):
        if isinstance(d, dict):
            t = d.get("__t")
            if t == "ref":
                return self.pool[d["name"]]
            if t == "aux":
                return self.aux[d["name"]]
            if t == "tuple":
                return tuple(self.build(v) for v in d["v"])
            if t == "array":
                return np.array(d["v"], dtype=d.get("dtype", "float64"))
            if t == "cmap":
                return matplotlib.colormaps[d["name"]]
            return {k: self.build(v) for k, v in d.items()}
        if isinstance(d, list):
            return [self.build(v) for v in d]
        return d

    def mutate(self, step):
        """the change of a field the caller makes before this step (new validity mask / new values)"""
        mu = step.get("pre")
        if not mu:
            return
        f = self.fields[step["field"]]
        spec = self.pr["fields"][step["field"]]
        if mu["what"] == "valid":
            f.valid = _mask_of(spec, mu)
        elif mu["what"] == "array":
            f.array = np.random.default_rng(mu["seed"]).normal(size=f.array.shape) * spec.get("vscale", 1.0)
        elif mu["what"] == "array_inplace":
            f.array[...] = f.array[::-1, ::-1] * mu["factor"]

    def kwargs(self, step):
        kw = {k: self.build(d) for k, d in step["kwargs"].items()}
        return kw

    def call(self, step, ax, kw):
        """run the step: returns (raised, exception, axes the plot went to)"""
        f = self.fields[step["field"]]
        plotter = self.plotters[step["field"]] if self.plotters is not None else f.mpl
        target = plotter if step["entry"] == "call" else getattr(plotter, step["entry"])
        full = dict(kw)
        if step.get("expand"):
            full.update(self.pool[step["expand"]])          # mpl.scalar(**kw): the dict itself is copied by python, its values are shared
        if step.get("multiplier") is not None:
            full["multiplier"] = step["multiplier"]
        if ax is not None:
            full["ax"] = ax
        r, e = raises(Exception, target, **full)
        if ax is None and not r:                            # the library made its own figure (figsize given): first axes of the current figure
            axs = plt.gcf().get_axes()
            ax = axs[0] if axs else None
        return r, e, ax


def _eff(step, pool):
    """keyword arguments of the step as plain descriptions (refs resolved)"""
    d = {k: _resolve(v, pool) for k, v in step["kwargs"].items()}
    if step.get("expand"):
        d.update(_resolve(pool[step["expand"]], pool))
    return d


def _deep(o):
    """deep snapshot of an argument object"""
    if isinstance(o, df.Field):
        return ("Field", _snap(o))
    if isinstance(o, dict):
        return ("dict", [(repr(k), _deep(v)) for k, v in o.items()])
    if isinstance(o, (list, tuple)):
        return (type(o).__name__, [_deep(v) for v in o])
    if isinstance(o, np.ndarray):
        return ("ndarray", o.dtype.str, tuple(o.shape), o.tobytes())
    if isinstance(o, matplotlib.colors.Colormap):
        return ("Colormap", o.name, int(o.N), tuple(float(v) for v in o.get_bad()), tuple(float(v) for v in o.get_under()), tuple(float(v) for v in o.get_over()))
    return (type(o).__name__, repr(o))


def _deep_diff(a, b, path="", out=None):
    out = [] if out is None else out
    if a == b:
        return out
    if a[0] != b[0]:
        out.append("%s: type %s -> %s" % (path or ".", a[0], b[0]))
    elif a[0] == "dict":
        ka, kb = [k for k, _ in a[1]], [k for k, _ in b[1]]
        da, db = dict(a[1]), dict(b[1])
        for k in kb:
            if k not in da:
                out.append("%s: key %s added" % (path or ".", k))
        for k in ka:
            if k not in db:
                out.append("%s: key %s removed" % (path or ".", k))
            else:
                _deep_diff(da[k], db[k], "%s[%s]" % (path, k), out)
        if [k for k in ka if k in db] != [k for k in kb if k in da]:
            out.append("%s: key order changed" % (path or "."))
    elif a[0] in ("list", "tuple"):
        if len(a[1]) != len(b[1]):
            out.append("%s: length %d -> %d" % (path or ".", len(a[1]), len(b[1])))
        for i, (x, y) in enumerate(zip(a[1], b[1])):
            _deep_diff(x, y, "%s[%d]" % (path, i), out)
    elif a[0] == "Field":
        out.append("%s: Field changed (%s)" % (path or ".", ", ".join(_diff_snap(a[1], b[1]))))
    else:
        out.append("%s: %s changed" % (path or ".", a[0]))
    return out


def _nanarr(a, to_ij=None):
    """float array with NaN for masked / invalid entries (None stays None)"""
    if a is None:
        return None
    m = np.ma.masked_invalid(np.ma.asarray(a).astype(float))
    return np.ma.filled(m, np.nan)


def _clim_of(art):
    lo, hi = art.get_clim()
    return np.array([np.nan if lo is None else float(lo), np.nan if hi is None else float(hi)])


def _observe(ax, rec):
    """what matplotlib was handed on this axes: a flat dict name -> array / string / number"""
    o = {"labels": [ax.get_xlabel(), ax.get_ylabel()], "aspect": str(ax.get_aspect()), "n_images": len(ax.images)}
    for k, im in enumerate(ax.images):
        p = "image%d." % k
        o[p + "data"] = _nanarr(im.get_array())
        o[p + "extent"] = np.array([float(v) for v in im.get_extent()])
        o[p + "origin"] = str(getattr(im, "origin", None))
        o[p + "clim"] = _clim_of(im)
        o[p + "cmap"] = str(im.get_cmap().name)
    qs = [c for c in ax.collections if isinstance(c, Quiver)]
    o["n_quivers"] = len(qs)
    for k, q in enumerate(qs):
        p = "quiver%d." % k
        for nm in ("X", "Y", "U", "V"):
            o[p + nm] = _nanarr(getattr(q, nm))
        o[p + "hidden"] = np.broadcast_to(np.asarray(getattr(q, "Umask", False)), np.asarray(q.U).shape).copy()
        o[p + "C"] = _nanarr(q.get_array())
        o[p + "pivot"] = str(q.pivot)
        o[p + "clim"] = _clim_of(q)
        o[p + "cmap"] = str(q.get_cmap().name)
    css = [c for c in ax.collections if isinstance(c, ContourSet)]
    o["n_contoursets"] = len(css)
    for k, cs in enumerate(css):
        o["contourset%d.levels" % k] = np.asarray(cs.levels, dtype=float)
        o["contourset%d.cmap" % k] = str(cs.get_cmap().name)
    o["n_contour_calls"] = len(rec) if rec is not None else -1
    for k, (a, kw) in enumerate(rec or []):
        for j, v in enumerate(a):
            o["contour%d.arg%d" % (k, j)] = _nanarr(v)
        o["contour%d.kwargs" % k] = repr(_deep(kw))
    fig = ax.figure
    o["colorbar_labels"] = [a.get_ylabel() for a in fig.get_axes() if ("cb_%d" % id(ax)) in str(a.get_label())]
    return o


def _obs_diff(a, b):
    """names of the observations that differ (arrays: exact equality, NaN == NaN), with the first differing positions"""
    out = []
    for k in sorted(set(a) | set(b)):
        if k not in a or k not in b:
            out.append("%s: only in the %s call" % (k, "fresh" if k in b else "history"))
            continue
        x, y = a[k], b[k]
        if isinstance(x, np.ndarray) or isinstance(y, np.ndarray):
            if x is None or y is None or np.shape(x) != np.shape(y):
                out.append("%s: shape %s vs %s" % (k, None if x is None else np.shape(x), None if y is None else np.shape(y)))
            elif not np.array_equal(x, y, equal_nan=(np.asarray(x).dtype.kind == "f")):
                xx, yy = np.asarray(x), np.asarray(y)
                ne = ~((xx == yy) | ((xx != xx) & (yy != yy))) if xx.dtype.kind == "f" else xx != yy
                out.append("%s: differs at %s" % (k, np.argwhere(ne)[:4].tolist()))
        elif x != y:
            out.append("%s: %r vs %r" % (k, x, y))
    return out


def _run_fresh(pr, k):
    """step k alone in a fresh world: freshly built fields (with the caller's changes up to step k applied), fresh argument objects,
    fresh figure.  Returns ("raised", exception type) or ("ok", observation)."""
    env = _Env(dict(pr, keep_plotter=False))
    for st in pr["steps"][:k + 1]:
        env.mutate(st)
    st = pr["steps"][k]
    ax = None if st.get("own_axes") else _new_ax()
    rec = None if ax is None else _record_contour(ax)
    r, e, ax = env.call(st, ax, env.kwargs(st))
    res = ("raised", type(e).__name__) if r else ("ok", _observe(ax, rec))
    plt.close("all")
    return res


def _check_history(pr, ctx):
    steps = pr["steps"]
    # fresh references first, in reverse order (state left in the library by the history cannot reach them in the history's order)
    fresh = [None] * len(steps)
    for k in reversed(range(len(steps))):
        fresh[k] = _run_fresh(pr, k)
    env = _Env(pr)
    pool_d = pr.get("pool") or {}
    fig = plt.figure(figsize=(4 * len(steps), 3)) if pr.get("same_fig") else None
    for k, st in enumerate(steps):
        env.mutate(st)
        f = env.fields[st["field"]]
        spec = pr["fields"][st["field"]]
        n = [int(v) for v in f.mesh.n]
        what = "step %d (%s)" % (k, "mpl()" if st["entry"] == "call" else "mpl." + st["entry"])
        arr0 = f.array.copy()
        valid = np.asarray(f.valid).astype(bool).copy()
        kw = env.kwargs(st)
        snaps_f = [_snap(g) for g in env.fields]
        snaps_a = {nm: _snap(a) for nm, a in env.aux.items()}
        snap_args = _deep({"call": kw, "pool": env.pool})
        if st.get("own_axes"):
            ax, rec = None, None
        else:
            ax = fig.add_subplot(1, len(steps), k + 1) if fig is not None else _new_ax()
            rec = _record_contour(ax)
        r, e, ax = env.call(st, ax, kw)
        # (a) frame: fields, auxiliary fields, every argument object
        for i, g in enumerate(env.fields):
            d = _diff_snap(snaps_f[i], _snap(g))
            ctx.require(not d, "C20.frame_field", "%s modified %s" % (what, "the plotted field" if i == st["field"] else "another field of the history"), changed=d)
        for nm, a in env.aux.items():
            d = _diff_snap(snaps_a[nm], _snap(a))
            ctx.require(not d, "C20.frame_aux", "%s modified the user-supplied %s field" % (what, nm), changed=d)
        d = _deep_diff(snap_args, _deep({"call": kw, "pool": env.pool}))
        ctx.require(not d, "C20.frame_args", "%s modified an argument object of the caller" % what, sig="history:args-modified:" + st["entry"], changed=d[:8])
        # (b) the same as a fresh call with fresh equal arguments
        if st.get("refused"):
            drawn = 0 if ax is None else len(ax.images) + len(ax.collections)
            ctx.require(r and drawn == 0, "C20.refuse", "%s: not refused / something drawn: %s" % (what, st["refused"]), drawn=drawn)
            ctx.require(fresh[k][0] == "raised", "C20.history_independent", "%s refused in the history but not as a fresh call" % what, sig="history:" + st["entry"])
            continue
        if r and not (st["entry"] == "contour" and rec):
            ctx.require(fresh[k][0] == "raised", "C20.history_independent", "%s raised in the history but not as a fresh call with fresh equal arguments" % what,
                        sig="history:" + st["entry"], error=repr(e))
        elif not r:
            okf = fresh[k][0] == "ok"
            d = _obs_diff(_observe(ax, rec), fresh[k][1]) if okf else ["the fresh call raised " + str(fresh[k][1])]
            ctx.require(not d, "C20.history_independent", "%s drew something else than a fresh call with fresh equal arguments on an equal field" % what,
                        sig="history:" + st["entry"], differs=d[:8], shared=sorted(pool_d))
        # ... and the field's own numbers (independent oracle, arguments as the caller described them)
        eff = _plain(_eff(st, pool_d))
        mult = st.get("multiplier")
        entry = st["entry"]
        if entry == "call":
            skw, vkw = eff.get("scalar_kw") or {}, eff.get("vector_kw") or {}
            fa, ca = _auxname(skw.get("filter_field")), _auxname(vkw.get("color_field"))
            if r:
                ctx.require(False, "C20.call", "%s: field.mpl() raised" % what, sig="raised:" + type(e).__name__, error=repr(e))
                continue
            fnz = np.ones(n, dtype=bool) if fa is None else _sample(env.aux0[fa], n) != 0
            _verify_call(ctx, ax, f, arr0, valid, mult, fnz, fa is not None, vkw.get("vdims"), bool(vkw.get("use_color", False)), None if ca is None else env.aux0[ca], what=what)
        elif entry == "scalar":
            fa = _auxname(eff.get("filter_field"))
            if r:
                ctx.require(False, "C20.scalar_values", "%s: mpl.scalar raised" % what, sig="raised:" + type(e).__name__, error=repr(e))
                continue
            fnz = np.ones(n, dtype=bool) if fa is None else _sample(env.aux0[fa], n) != 0
            m = _mult_and_labels(ax, f, {"multiplier": mult}, ctx)
            _verify_image(ctx, ax, f, arr0[..., 0], valid, fnz, fa is not None, m, "C20.scalar_values", what)
        elif entry == "vector":
            ca = _auxname(eff.get("color_field"))
            if r:
                ctx.require(False, "C20.vector_components", "%s: mpl.vector raised" % what, sig="raised:" + type(e).__name__, error=repr(e))
                continue
            m = _mult_and_labels(ax, f, {"multiplier": mult}, ctx)
            _verify_quiver(ctx, ax, f, arr0, valid, m, eff.get("vdims"), bool(eff.get("use_color", True)), None if ca is None else env.aux0[ca],
                           "C20.vector_components", what)
        elif entry == "contour":
            fa = _auxname(eff.get("filter_field"))
            fnz = np.ones(n, dtype=bool) if fa is None else _sample(env.aux0[fa], n) != 0
            _verify_contour(ctx, ax, rec, r, e, f, arr0, valid, fnz, fa is not None, mult, spec.get("linear"), what=what)
        elif entry == "lightness":
            fa, la = _auxname(eff.get("filter_field")), _auxname(eff.get("lightness_field"))
            fnz = np.ones(n, dtype=bool) if fa is None else _sample(env.aux0[fa], n) != 0
            _verify_lightness(ctx, ax, r, e, f, arr0, valid, fnz, fa is not None, mult, eff.get("clim"), None if la is None else env.aux0[la], what=what)


def _check_refuse_ndim(pr, ctx):
    ndim, nv = pr["ndim"], pr["nvdim"]
    mesh = df.Mesh(p1=tuple([0.0] * ndim), p2=tuple([1e-9 * (k + 2) for k in range(ndim)]), n=tuple([2] * ndim))
    f = df.Field(mesh, nvdim=nv, value=tuple([1.0] * nv) if nv > 1 else 1.0)
    r, e = raises(Exception, lambda: f.mpl)
    ctx.require(r, "C20.refuse", "a field that is not 2-d has matplotlib plotting", ndim=ndim)
    if not r:
        r2, e2 = raises(Exception, lambda: e())
        ctx.require(r2, "C20.refuse", "a field that is not 2-d was plotted", ndim=ndim)


def _check_refuse(pr, ctx):
    what = pr["what"]
    rng = np.random.default_rng(pr["seed"])
    base = {k: pr[k] for k in ("p1", "p2", "n", "dims", "units")}
    n = pr["n"]

    def fld(nv, **k):
        return _field(dict(base, nvdim=nv, seed=int(rng.integers(1 << 30)), **k))

    def other(ndim, nv=1):
        mesh = df.Mesh(p1=tuple([0.0] * ndim), p2=tuple([1.0] * ndim), n=tuple([2] * ndim))
        return df.Field(mesh, nvdim=nv, value=1.0 if nv == 1 else tuple([1.0] * nv))

    d0, d1 = pr["dims"]
    map3 = [["x", d0], ["y", d1], ["z", None]]
    ax = _new_ax()
    calls = {
        "scalar_nvdim2": lambda: fld(2).mpl.scalar(ax=ax),
        "scalar_nvdim3": lambda: fld(3, mapping=map3).mpl.scalar(ax=ax),
        "contour_nvdim2": lambda: fld(2).mpl.contour(ax=ax),
        "contour_nvdim3": lambda: fld(3, mapping=map3).mpl.contour(ax=ax),
        "vector_nvdim1": lambda: fld(1).mpl.vector(ax=ax),
        "vector_nvdim1_vdims": lambda: fld(1).mpl.vector(ax=ax, vdims=["x", "y"]),
        "vector_nvdim4_vdims": lambda: fld(4).mpl.vector(ax=ax, vdims=["v0", "v2"]),
        "vector_nvdim3_nomapping": lambda: fld(3).mpl.vector(ax=ax),
        "vector_vdims_len3": lambda: fld(3).mpl.vector(ax=ax, vdims=["x", "y", "z"]),
        "vector_vdims_none_none": lambda: fld(3).mpl.vector(ax=ax, vdims=[None, None]),
        "lightness_nvdim4": lambda: fld(4).mpl.lightness(ax=ax),
        "call_nvdim4": lambda: fld(4).mpl(ax=ax),
        "filter_nvdim2": lambda: fld(1).mpl.scalar(ax=ax, filter_field=fld(2)),
        "filter_ndim3": lambda: fld(1).mpl.scalar(ax=ax, filter_field=other(3)),
        "filter_ndim1": lambda: fld(1).mpl.scalar(ax=ax, filter_field=other(1)),
        "color_nvdim3": lambda: fld(3, mapping=map3).mpl.vector(ax=ax, color_field=fld(3)),
        "color_ndim3": lambda: fld(3, mapping=map3).mpl.vector(ax=ax, color_field=other(3)),
        "lightness_field_nvdim2": lambda: fld(1, hue=True).mpl.lightness(ax=ax, lightness_field=fld(2)),
        "lightness_field_ndim3": lambda: fld(1, hue=True).mpl.lightness(ax=ax, lightness_field=other(3)),
        "contour_filter_nvdim2": lambda: fld(1).mpl.contour(ax=ax, filter_field=fld(2)),
        "lightness_filter_nvdim3": lambda: fld(3, mapping=map3).mpl.lightness(ax=ax, filter_field=fld(3)),
    }
    r, e = raises(Exception, calls[what])
    drawn = len(ax.images) + len(ax.collections)
    sig = None
    if not r and what == "vector_nvdim4_vdims":
        sig = "vector-accepts-nvdim-4-with-explicit-vdims"
    ctx.require(r, "C20.refuse", "not refused: " + what, sig=sig, drawn=drawn)
    if r:
        ctx.require(drawn == 0, "C20.refuse", "something was drawn before the refusal: " + what, error=repr(e), drawn=drawn)
