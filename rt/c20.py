"""C20 bounded run-time tier: what the matplotlib plotting methods of a 2-d field hand to matplotlib
(AxesImage array/extent, Quiver X/Y/U/V/colour, the arguments of Axes.contour and the resulting level lines,
axis labels) compared with the field's own numbers; frame condition on the field and on user-supplied
filter / colour / lightness fields; refusals.  Agg backend, figures closed after every case."""
import colorsys
import itertools
import math
import warnings
from fractions import Fraction

import numpy as np
import matplotlib

matplotlib.use("Agg", force=False)
import matplotlib.pyplot as plt
from matplotlib.quiver import Quiver
from matplotlib.contour import ContourSet

import discretisedfield as df

from .common import raises

PROPERTY = "C20"
EPS = float(np.finfo(float).eps)

CLAUSES = {
    "C20.scalar_values": "mpl.scalar: the AxesImage holds exactly field.array[i, j] at row j, column i (origin lower) for every drawn cell",
    "C20.extent": "image extent == [pmin0, pmax0, pmin1, pmax1] / multiplier (4 ulp of the coordinate scale)",
    "C20.positions": "arrows / contour grid sit at the cell centres / multiplier (8 ulp of the coordinate scale), first dimension horizontal, arrows pivot in the middle",
    "C20.vector_components": "mpl.vector: U, V are exactly the components mapped to the horizontal / vertical dimension through vdim_mapping (or the given vdims; zeros for None) of cell (i, j)",
    "C20.vector_colour": "mpl.vector: the colour array is the remaining (third) component, or the given colour field sampled at the cell centres (same or different resolution); no colour array when use_color=False",
    "C20.contour_values": "mpl.contour hands matplotlib Z[j, i] == field.array[i, j] (NaN for hidden cells); level lines of a linear field a*x+b*y+c lie on a*x+b*y+c == level (1e-9 of the value range)",
    "C20.lightness_colours": "mpl.lightness: RGB of cell (i, j) == hls_to_rgb(hue = in-plane angle (or the scalar value)/2pi, lightness = lightness field (third component / norm / given field) normalised to clim (default 0..1), saturation 1) within 1e-12; alpha 1 for drawn cells",
    "C20.hidden_filter": "cells where the filter field (sampled at the cell centre; same or different resolution) is zero are not drawn (masked / NaN / alpha 0); all other valid cells are drawn",
    "C20.hidden_invalid": "invalid cells are not drawn (image masked / NaN / alpha 0, arrows masked, contour NaN)",
    "C20.labels": "x/y axis labels are '<dim> (<SI prefix of the multiplier><unit>)' for the two dimensions",
    "C20.default_multiplier": "without an explicit multiplier the largest edge length divided by the multiplier lies in [1, 1000) (power of 1000); an explicit multiplier is used as given",
    "C20.call": "field.mpl(): scalar image of the out-of-plane component (scalar field: the field itself) with invalid cells hidden, plus arrows of the in-plane components for vector fields, labels set",
    "C20.frame_field": "plotting leaves the field unchanged: bytes of array and valid, dtype, region corners, n, dims, units, vdims, vdim_mapping, unit",
    "C20.frame_aux": "plotting leaves user-supplied filter / colour / lightness fields unchanged (bytes of array and valid, region, n)",
    "C20.refuse": "fields with ndim != 2 have no mpl; scalar/contour of a vector field, vector of a scalar or 4-component field, lightness/mpl() of a 4-component field, and filter/colour/lightness fields that are not scalar or not 2-d are refused (an exception, nothing drawn)",
}
RULE = ("seeded 2-d fields: scale 10^U(-9.5,3.5) (nm..km) with edge magnitudes differing by up to 100x between the axes, either corner order, n in 1..6 per axis "
        "(anisotropic cells), dims/units names varied, 1-3 components with default / custom vdims and default / permuted / partial / absent vdim_mapping, "
        "masks (none, random) x plot kind (scalar, vector, contour, lightness, mpl()) x multiplier (default, 1e-9..1e3) x filter / colour / lightness field "
        "(none, same resolution, coarser, finer; cell centres never on a face of the other mesh); non-trivial = at least 2 cells; distinct by (kind, params)")
ASSUMPTIONS = [
    "bounded: 2-d meshes of at most 6 cells per axis, seeded sample of geometry / labels / mappings / options",
    "matplotlib (Agg) artists are trusted to report the data they were given: AxesImage.get_array/get_extent, Quiver.X/Y/U/V/Umask/get_array, ContourSet.levels/get_paths; the arguments of Axes.contour are recorded by wrapping the bound method of the Axes instance",
    "colorsys.hls_to_rgb is trusted as the HLS->RGB oracle",
    "auxiliary fields of a different resolution live on the same region; resolutions are chosen so that no cell centre of the plotted field lies on a cell face of the auxiliary mesh",
]

PREFIX = {1e-12: "p", 1e-9: "n", 1e-6: "u", 1e-3: "m", 1: "", 1e3: "k", 1e6: "M", 1e9: "G"}
MULTS = [1e-9, 1e-6, 1e-3, 1, 1e3]


# --------------------------------------------------------------------------------------------- builders
def _region(spec):
    return df.Region(p1=tuple(spec["p1"]), p2=tuple(spec["p2"]), dims=list(spec["dims"]), units=list(spec["units"]))


def _field(spec):
    n = [int(k) for k in spec["n"]]
    mesh = df.Mesh(region=_region(spec), n=tuple(n))
    rng = np.random.default_rng(spec["seed"])
    nv = spec["nvdim"]
    if spec.get("linear") is not None:
        a, b, c = spec["linear"]
        X, Y = np.meshgrid(np.asarray(mesh.cells[0]), np.asarray(mesh.cells[1]), indexing="ij")
        arr = (a * X + b * Y + c)[..., None]
    elif spec.get("hue"):
        arr = rng.uniform(0.05, 2 * np.pi - 0.05, size=(*n, nv))
    else:
        arr = rng.normal(size=(*n, nv)) * spec.get("vscale", 1.0) + spec.get("voffset", 0.0)
    valid = True
    if spec.get("mask") is not None:
        mr = np.random.default_rng(spec["mask"]["seed"])
        valid = mr.random(n) >= spec["mask"]["p"]
    kw = {}
    if spec.get("vdims") is not None:
        kw["vdims"] = list(spec["vdims"])
    if spec.get("mapping") is not None:
        kw["vdim_mapping"] = {k: v for k, v in spec["mapping"]}
    return df.Field(mesh, nvdim=nv, value=arr, valid=valid, unit=spec.get("unit"), **kw)


def _aux(spec, aux):
    """scalar helper field (filter / colour / lightness) on the same region with its own resolution"""
    n = [int(k) for k in aux["n"]]
    mesh = df.Mesh(region=_region(spec), n=tuple(n))
    rng = np.random.default_rng(aux["seed"])
    arr = rng.normal(size=(*n, 1)) * aux.get("vscale", 1.0)
    if aux.get("zeros"):
        z = rng.random(n) < aux["zeros"]
        arr[z] = 0.0
    return df.Field(mesh, nvdim=1, value=arr)


def _sample(aux_arr, n):
    """value of the auxiliary field in the aux cell that contains the centre of cell (i, j) of an n-mesh (exact integer arithmetic)"""
    na = aux_arr.shape[:2]
    i0 = [((2 * i + 1) * na[0]) // (2 * n[0]) for i in range(n[0])]
    i1 = [((2 * j + 1) * na[1]) // (2 * n[1]) for j in range(n[1])]
    return aux_arr[np.ix_(i0, i1)][..., 0]


def _snap(f):
    r = f.mesh.region
    return (f.array.tobytes(), f.array.dtype.str, f.array.shape, np.asarray(f.valid).tobytes(), np.asarray(f.valid).dtype.str,
            np.asarray(r.pmin).tobytes(), np.asarray(r.pmax).tobytes(), tuple(int(k) for k in f.mesh.n), tuple(r.dims), tuple(r.units),
            None if f.vdims is None else tuple(f.vdims), tuple(sorted((str(k), str(v)) for k, v in f.vdim_mapping.items())), f.unit, f.nvdim)


_SNAP_NAMES = ("array bytes", "array dtype", "array shape", "valid bytes", "valid dtype", "pmin", "pmax", "n", "dims", "units", "vdims", "vdim_mapping", "unit", "nvdim")


def _diff_snap(a, b):
    return [nm for nm, x, y in zip(_SNAP_NAMES, a, b) if x != y]


def _default_multiplier(edges):
    best = None
    for e in edges:
        for m in sorted(PREFIX):
            if 1 <= abs(e) / m < 1e3:
                best = m if best is None else max(best, m)
    return best


def _rmap(f):
    """dims -> vdim through the mapping (None when unmapped), computed from the public vdim_mapping"""
    rev = {}
    for k, v in f.vdim_mapping.items():
        rev[v] = k
    return [rev.get(d) for d in f.mesh.region.dims]


# --------------------------------------------------------------------------------------------- cases
_LABELS = [
    {"dims": ["x", "y"], "units": ["m", "m"]},
    {"dims": ["x", "z"], "units": ["m", "m"]},
    {"dims": ["a", "b"], "units": ["m", "s"]},
    {"dims": ["y", "x"], "units": ["rad", "m"]},
]


def _geom(rng, nmin=1, nmax=6):
    while True:
        s = 10.0 ** rng.uniform(-9.5, 3.5)
        e = s * rng.uniform(1.0, 3.0, size=2) * np.array([1.0, 10.0 ** rng.choice([0, 0, 0, -1, 1, 2, -2])])
        big = float(np.max(e))
        m = _default_multiplier([big])
        if m is None or not (1.001 <= big / m <= 999.0):
            continue
        off = rng.uniform(-3, 3, size=2) * e
        pa, pb = off, off + e
        flip = rng.integers(0, 2, size=2).astype(bool)
        p1 = np.where(flip, pb, pa)
        p2 = np.where(flip, pa, pb)
        n = rng.integers(nmin, nmax + 1, size=2).tolist()
        g = {"p1": p1.tolist(), "p2": p2.tolist(), "n": n}
        g.update(_LABELS[int(rng.integers(len(_LABELS)))])
        return g


def _aux_n(rng, n, mode):
    """resolution of an auxiliary field such that no centre of the n-mesh lies on a face of the aux mesh"""
    if mode == "same":
        return list(n)
    for _ in range(50):
        if mode == "finer":
            na = [int(k * rng.choice([3, 5])) if rng.random() < 0.7 else int(k + rng.integers(1, 4)) for k in n]
        else:
            na = [max(1, int(k // rng.choice([2, 3]))) if rng.random() < 0.7 else max(1, int(k - 1)) for k in n]
        ok = True
        for k, ka in zip(n, na):
            for i in range(k):
                if (Fraction(2 * i + 1, 2 * k) * ka).denominator == 1:
                    ok = False
        if ok and list(na) != list(n):
            return na
    return [3 * k for k in n]


def _maybe_mask(rng, p=0.5):
    return {"seed": int(rng.integers(1 << 30)), "p": 0.25} if rng.random() < p else None


def _mult(rng):
    return None if rng.random() < 0.5 else MULTS[int(rng.integers(len(MULTS)))]


def _aux_spec(rng, n, mode, zeros=None):
    if mode is None:
        return None
    a = {"n": _aux_n(rng, n, mode), "seed": int(rng.integers(1 << 30)), "vscale": float(10.0 ** rng.uniform(-3, 3)), "mode": mode}
    if zeros:
        a["zeros"] = zeros
    return a


_MODES = [None, "same", "coarser", "finer"]


def _vector_variants(rng, dims):
    """(nvdim, vdims, mapping, vdims_arg) combinations: default, permuted, explicit, partial"""
    d0, d1 = dims
    out = [
        (3, None, [["x", d0], ["y", d1], ["z", None]], None),
        (3, ["p", "q", "r"], [["p", d1], ["q", None], ["r", d0]], None),            # permuted mapping
        (3, ["p", "q", "r"], [["r", d1], ["p", d0], ["q", "other"]], None),        # third component mapped to a foreign dim
        (3, None, None, ["z", "x"]),                                               # no mapping, explicit labels
        (3, ["a1", "a2", "a3"], [["a1", d0], ["a2", d1], ["a3", None]], ["a3", "a2"]),  # explicit labels override the mapping
        (2, None, None, None),                                                     # default mapping of a 2-component field
        (2, ["u", "v"], [["u", d1], ["v", d0]], None),                             # swapped mapping
        (2, ["u", "v"], [["u", d0], ["v", "other"]], None),                        # only one in-plane component
        (2, None, [], ["y", None]),
        (2, None, [], [None, "x"]),
    ]
    return out


def cases(ctx):
    rng = ctx.rng
    quick = ctx.tier == "quick"
    R = 3 if quick else 20
    # ---- scalar
    for rep in range(R):
        for fm in _MODES:
            for masked in (False, True):
                g = _geom(rng)
                spec = dict(g, nvdim=1, seed=int(rng.integers(1 << 30)), vscale=float(10.0 ** rng.uniform(-3, 6)), voffset=float(rng.normal()),
                            mask=_maybe_mask(rng, 1.0) if masked else None)
                if rng.random() < 0.3:
                    spec["vdims"] = ["s"]
                yield "scalar", {"f": spec, "multiplier": _mult(rng), "filter": _aux_spec(rng, g["n"], fm, zeros=0.3), "colorbar": bool(rng.random() < 0.5),
                                 "symmetric_clim": bool(rng.random() < 0.3)}
    # ---- vector
    for rep in range(R):
        for vi in range(10):
            g = _geom(rng)
            nv, vd, mp, va = _vector_variants(rng, g["dims"])[vi]
            spec = dict(g, nvdim=nv, seed=int(rng.integers(1 << 30)), vscale=float(10.0 ** rng.uniform(-3, 6)), mask=_maybe_mask(rng))
            if vd is not None:
                spec["vdims"] = vd
            if mp is not None:
                spec["mapping"] = mp
            cm = _MODES[(vi + rep) % 4]
            none_in_arg = va is not None and None in va
            use_color = True
            if nv == 2 and cm is None:
                use_color = bool(rng.random() < 0.5)          # warns and ignores when True
            if none_in_arg and nv == 3 and cm is None:
                use_color = False
            yield "vector", {"f": spec, "multiplier": _mult(rng), "vdims_arg": va, "use_color": use_color, "color": _aux_spec(rng, g["n"], cm),
                             "colorbar": bool(rng.random() < 0.5)}
    # ---- contour
    for rep in range(R):
        for fm in _MODES:
            for lin in (False, True):
                g = _geom(rng, nmin=2)
                spec = dict(g, nvdim=1, seed=int(rng.integers(1 << 30)), vscale=float(10.0 ** rng.uniform(-3, 6)), mask=_maybe_mask(rng, 0.4))
                if lin:
                    e = np.abs(np.asarray(g["p2"]) - np.asarray(g["p1"]))
                    spec["linear"] = [float(rng.normal() / e[0]), float(rng.normal() / e[1]), float(rng.normal())]
                    spec["mask"] = None
                    fm_ = None
                else:
                    fm_ = fm
                yield "contour", {"f": spec, "multiplier": _mult(rng), "filter": _aux_spec(rng, g["n"], fm_, zeros=0.25), "colorbar": bool(rng.random() < 0.5)}
    # ---- lightness
    for rep in range(R):
        lv = [(1, None, None), (2, None, None), (2, ["u", "v"], [["u", "D1"], ["v", "D0"]]), (3, None, [["x", "D0"], ["y", "D1"], ["z", None]]),
              (3, ["p", "q", "r"], [["p", "D1"], ["q", None], ["r", "D0"]]), (2, ["u", "v"], [["u", "D0"], ["v", "other"]]), (2, ["u", "v"], [["v", "D1"], ["u", "other"]]),
              (3, None, None)]
        for li, (nv, vd, mp) in enumerate(lv):
            for lm in _MODES if not quick else [_MODES[(li + k) % 4] for k in (0, 1)]:
                g = _geom(rng)
                spec = dict(g, nvdim=nv, seed=int(rng.integers(1 << 30)), vscale=float(10.0 ** rng.uniform(-3, 6)), mask=_maybe_mask(rng))
                if nv == 1:
                    spec["hue"] = True
                if vd is not None:
                    spec["vdims"] = vd
                if mp is not None:
                    spec["mapping"] = [[a, {"D0": g["dims"][0], "D1": g["dims"][1]}.get(b, b)] for a, b in mp]
                fmode = _MODES[int(rng.integers(4))]
                yield "lightness", {"f": spec, "multiplier": _mult(rng), "lightness": _aux_spec(rng, g["n"], lm), "filter": _aux_spec(rng, g["n"], fmode, zeros=0.3),
                                    "clim": None if rng.random() < 0.6 else [0.2, 0.85], "colorwheel": bool(rng.random() < 0.3)}
    # ---- mpl()
    for rep in range(R):
        for nv, vd, mp in [(1, None, None), (2, None, None), (2, ["u", "v"], [["u", "D1"], ["v", "D0"]]), (3, None, [["x", "D0"], ["y", "D1"], ["z", None]]),
                           (3, ["p", "q", "r"], [["p", "D1"], ["q", None], ["r", "D0"]])]:
            g = _geom(rng)
            spec = dict(g, nvdim=nv, seed=int(rng.integers(1 << 30)), vscale=float(10.0 ** rng.uniform(-3, 6)), mask=_maybe_mask(rng, 0.7))
            if vd is not None:
                spec["vdims"] = vd
            if mp is not None:
                spec["mapping"] = [[a, {"D0": g["dims"][0], "D1": g["dims"][1]}.get(b, b)] for a, b in mp]
            yield "call", {"f": spec, "multiplier": _mult(rng)}
    # ---- refusals
    for ndim in (1, 3):
        for nv in (1, 3):
            yield "refuse_ndim", {"ndim": ndim, "nvdim": nv}
    g = _geom(rng, nmin=2)
    for what in ("scalar_nvdim2", "scalar_nvdim3", "contour_nvdim2", "contour_nvdim3", "vector_nvdim1", "vector_nvdim1_vdims",
                 "vector_nvdim3_nomapping", "vector_vdims_len3", "vector_vdims_none_none", "lightness_nvdim4", "call_nvdim4",
                 "filter_nvdim2", "filter_ndim3", "filter_ndim1", "color_nvdim3", "color_ndim3", "lightness_field_nvdim2", "lightness_field_ndim3",
                 "contour_filter_nvdim2", "lightness_filter_nvdim3"):
        yield "refuse", dict(g, what=what, seed=int(rng.integers(1 << 30)))


# --------------------------------------------------------------------------------------------- checks
def check(kind, pr, ctx):
    try:
        with warnings.catch_warnings():
            warnings.simplefilter("ignore")
            with np.errstate(all="ignore"):
                return globals()["_check_" + kind](pr, ctx)
    finally:
        plt.close("all")


def _mult_and_labels(ax, f, pr, ctx, clause_extra=None):
    """returns the multiplier the plot must have used; checks labels"""
    r = f.mesh.region
    edges = np.abs(np.asarray(r.pmax) - np.asarray(r.pmin))
    if pr.get("multiplier") is None:
        m = _default_multiplier(edges)
        big = float(np.max(edges))
        ctx.require(m is not None and 1 <= big / m < 1e3, "C20.default_multiplier", "no SI multiplier puts the largest edge into [1, 1000)", edges=edges, m=m)
    else:
        m = pr["multiplier"]
    want = ["%s (%s%s)" % (r.dims[k], PREFIX[m], r.units[k]) for k in (0, 1)]
    got = [ax.get_xlabel(), ax.get_ylabel()]
    ctx.require(got == want, "C20.labels", "axis labels differ from '<dim> (<prefix><unit>)'", got=got, want=want)
    if pr.get("multiplier") is not None:
        ctx.require(got == want, "C20.default_multiplier", "explicit multiplier not used in the labels", got=got, want=want)
    return m


def _check_extent(im, f, m, ctx):
    r = f.mesh.region
    pmin, pmax = np.asarray(r.pmin, dtype=float), np.asarray(r.pmax, dtype=float)
    want = np.array([pmin[0], pmax[0], pmin[1], pmax[1]]) / m
    got = np.array([float(v) for v in im.get_extent()])
    sc = np.array([max(abs(pmin[0]), abs(pmax[0]))] * 2 + [max(abs(pmin[1]), abs(pmax[1]))] * 2) / m
    ctx.require(np.all(np.abs(got - want) <= 4 * EPS * sc), "C20.extent", "image extent differs from the region corners / multiplier", got=got, want=want)
    ctx.require(getattr(im, "origin", None) == "lower", "C20.extent", "image origin is not 'lower'", got=getattr(im, "origin", None))


def _centres(f, m):
    r = f.mesh.region
    pmin, pmax = np.asarray(r.pmin, dtype=float), np.asarray(r.pmax, dtype=float)
    n = [int(k) for k in f.mesh.n]
    out, sc = [], []
    for a in (0, 1):
        cell = (pmax[a] - pmin[a]) / n[a]
        out.append((pmin[a] + (np.arange(n[a]) + 0.5) * cell) / m)
        sc.append(max(abs(pmin[a]), abs(pmax[a])) / m)
    return out, sc


def _hidden_sets(f, spec, faux, n):
    """(valid, filter_nonzero) boolean (n0, n1) arrays; filter_nonzero is all True without a filter field"""
    valid = np.asarray(f.valid).astype(bool).copy()
    if faux is None:
        return valid, np.ones(n, dtype=bool)
    return valid, _sample(faux.array.copy(), n) != 0


def _require_hidden(shown, valid, fnz, has_filter, ctx, what):
    """shown: bool (n0, n1) of cells that reached matplotlib as drawable"""
    ctx.require(not np.any(shown & ~fnz), "C20.hidden_filter", "%s: a cell with zero filter value is drawn" % what, cells=np.argwhere(shown & ~fnz)[:5])
    ctx.require(np.all(shown[valid & fnz]), "C20.hidden_filter", "%s: a valid cell with non-zero filter value is hidden" % what, cells=np.argwhere(~shown & valid & fnz)[:5])
    bad = shown & ~valid & fnz
    ctx.require(not np.any(bad), "C20.hidden_invalid", "%s: an invalid cell is drawn" % what,
                sig="invalid-cells-drawn-when-filter_field-given" if has_filter else None, cells=np.argwhere(bad)[:5])


def _frame(ctx, f, before, aux=()):
    d = _diff_snap(before, _snap(f))
    ctx.require(not d, "C20.frame_field", "plotting modified the field", changed=d)
    for name, fld, snap in aux:
        if fld is None:
            continue
        d = _diff_snap(snap, _snap(fld))
        sig = None
        if d == ["array bytes"] and name == "lightness_field":
            sig = "lightness_field-normalised-in-place(normalise_to_range)"
        ctx.require(not d, "C20.frame_aux", "plotting modified the user-supplied %s" % name, sig=sig, changed=d)


def _new_ax():
    fig = plt.figure(figsize=(4, 3))
    return fig.add_subplot(111)


def _check_scalar(pr, ctx):
    spec = pr["f"]
    f = _field(spec)
    n = [int(k) for k in f.mesh.n]
    if n[0] * n[1] < 2:
        ctx.trivial()
    faux = _aux(spec, pr["filter"]) if pr.get("filter") else None
    arr0 = f.array.copy()
    valid, fnz = _hidden_sets(f, spec, faux, n)
    before, fb = _snap(f), (None if faux is None else _snap(faux))
    ax = _new_ax()
    kw = {"colorbar": pr["colorbar"], "symmetric_clim": pr["symmetric_clim"]}
    if pr.get("multiplier") is not None:
        kw["multiplier"] = pr["multiplier"]
    if faux is not None:
        kw["filter_field"] = faux
    r, e = raises(Exception, f.mpl.scalar, ax=ax, **kw)
    if r:
        ctx.require(False, "C20.scalar_values", "mpl.scalar raised", sig="raised:" + type(e).__name__, error=repr(e))
        return
    _frame(ctx, f, before, [("filter_field", faux, fb)])
    m = _mult_and_labels(ax, f, pr, ctx)
    ctx.require(len(ax.images) == 1, "C20.scalar_values", "expected exactly one image on the axes", got=len(ax.images))
    if len(ax.images) != 1:
        return
    im = ax.images[0]
    _check_extent(im, f, m, ctx)
    A = np.ma.masked_invalid(im.get_array())
    ok_shape = A.shape == (n[1], n[0])
    ctx.require(ok_shape, "C20.scalar_values", "image array is not (n1, n0)", got=A.shape, n=n)
    if not ok_shape:
        return
    shown = ~np.ma.getmaskarray(A).T
    data = np.ma.getdata(A).T
    want = arr0[..., 0]
    ctx.require(np.array_equal(data[shown], want[shown]), "C20.scalar_values", "a drawn pixel differs from the field value of its cell (transposition / origin / copy)",
                where=np.argwhere(shown & (data != want))[:5])
    _require_hidden(shown, valid, fnz, faux is not None, ctx, "scalar")


def _check_vector(pr, ctx):
    spec = pr["f"]
    f = _field(spec)
    n = [int(k) for k in f.mesh.n]
    if n[0] * n[1] < 2:
        ctx.trivial()
    caux = _aux(spec, pr["color"]) if pr.get("color") else None
    arr0 = f.array.copy()
    caux0 = None if caux is None else caux.array.copy()
    valid = np.asarray(f.valid).astype(bool).copy()
    before, cb = _snap(f), (None if caux is None else _snap(caux))
    ax = _new_ax()
    kw = {"colorbar": pr["colorbar"], "use_color": pr["use_color"]}
    if pr.get("multiplier") is not None:
        kw["multiplier"] = pr["multiplier"]
    if pr.get("vdims_arg") is not None:
        kw["vdims"] = list(pr["vdims_arg"])
    if caux is not None:
        kw["color_field"] = caux
    r, e = raises(Exception, f.mpl.vector, ax=ax, **kw)
    if r:
        ctx.require(False, "C20.vector_components", "mpl.vector raised", sig="raised:" + type(e).__name__, error=repr(e))
        return
    _frame(ctx, f, before, [("color_field", caux, cb)])
    m = _mult_and_labels(ax, f, pr, ctx)
    qs = [c for c in ax.collections if isinstance(c, Quiver)]
    ctx.require(len(qs) == 1, "C20.vector_components", "expected exactly one Quiver on the axes", got=len(qs))
    if len(qs) != 1:
        return
    q = qs[0]
    N = n[0] * n[1]
    (c0, c1), (s0, s1) = _centres(f, m)
    X = np.asarray(q.X, dtype=float).ravel()
    Y = np.asarray(q.Y, dtype=float).ravel()
    okshape = X.size == N and Y.size == N and np.asarray(q.U).size == N and np.asarray(q.V).size == N
    ctx.require(okshape, "C20.positions", "quiver has not one arrow per cell", got=X.size, want=N)
    if not okshape:
        return
    X, Y = X.reshape(n[1], n[0]).T, Y.reshape(n[1], n[0]).T           # -> [i, j]
    ctx.require(np.all(np.abs(X - c0[:, None]) <= 8 * EPS * s0) and np.all(np.abs(Y - c1[None, :]) <= 8 * EPS * s1), "C20.positions",
                "arrow positions differ from the cell centres / multiplier", gotx=X[:, 0], wantx=c0, goty=Y[0, :], wanty=c1)
    ctx.require(str(q.pivot) in ("mid", "middle"), "C20.positions", "arrows do not pivot about their middle", got=q.pivot)
    # components
    vd = list(f.vdims)
    names = list(pr["vdims_arg"]) if pr.get("vdims_arg") is not None else _rmap(f)
    U = np.asarray(np.ma.getdata(q.U), dtype=float).reshape(n[1], n[0]).T
    V = np.asarray(np.ma.getdata(q.V), dtype=float).reshape(n[1], n[0]).T
    mask = np.broadcast_to(np.asarray(getattr(q, "Umask", False)), (N,)).reshape(n[1], n[0]).T | np.isnan(U) | np.isnan(V)
    shown = ~mask
    wantU = arr0[..., vd.index(names[0])] if names[0] is not None else np.zeros(n)
    wantV = arr0[..., vd.index(names[1])] if names[1] is not None else np.zeros(n)
    ctx.require(np.array_equal(U[shown], wantU[shown]) and np.array_equal(V[shown], wantV[shown]), "C20.vector_components",
                "arrow components differ from the mapped field components of the cell", names=names, vdims=vd)
    ctx.require(not np.any(shown & ~valid), "C20.hidden_invalid", "vector: an invalid cell has an arrow", cells=np.argwhere(shown & ~valid)[:5])
    ctx.require(np.all(shown[valid]), "C20.hidden_invalid", "vector: a valid cell has no arrow", cells=np.argwhere(~shown & valid)[:5])
    # colour
    C = q.get_array()
    if caux is not None and pr["use_color"]:
        wantC = _sample(caux0, n)
    elif pr["use_color"] and f.nvdim == 3:
        rest = [v for v in vd if v not in names]
        wantC = arr0[..., vd.index(rest[0])] if len(rest) == 1 else None
    else:
        wantC = None
    if wantC is None:
        ctx.require(C is None, "C20.vector_colour", "a colour array was handed over although colouring is off / impossible", got=None if C is None else np.asarray(C)[:6])
    else:
        okc = C is not None and np.asarray(C).size == N
        if okc:
            Cd = np.asarray(np.ma.getdata(C), dtype=float).reshape(n[1], n[0]).T
            okc = np.array_equal(Cd[shown], wantC[shown])
        ctx.require(okc, "C20.vector_colour", "colour array differs from the third component / the colour field at the cell centres",
                    mode=None if caux is None else pr["color"]["mode"])


def _check_contour(pr, ctx):
    spec = pr["f"]
    f = _field(spec)
    n = [int(k) for k in f.mesh.n]
    faux = _aux(spec, pr["filter"]) if pr.get("filter") else None
    arr0 = f.array.copy()
    valid, fnz = _hidden_sets(f, spec, faux, n)
    before, fb = _snap(f), (None if faux is None else _snap(faux))
    ax = _new_ax()
    rec = []
    real = ax.contour

    def recorder(*a, **k):
        rec.append((a, k))
        return real(*a, **k)

    ax.contour = recorder
    kw = {"colorbar": pr["colorbar"]}
    if pr.get("multiplier") is not None:
        kw["multiplier"] = pr["multiplier"]
    if faux is not None:
        kw["filter_field"] = faux
    r, e = raises(Exception, f.mpl.contour, ax=ax, **kw)
    if r:
        nshown = int(np.sum(valid & fnz))
        if rec and nshown < 4:          # matplotlib cannot contour (almost) empty data; the data handed over is still checked below
            pass
        else:
            ctx.require(False, "C20.contour_values", "mpl.contour raised", sig="raised:" + type(e).__name__, error=repr(e))
            if not rec:
                return
    _frame(ctx, f, before, [("filter_field", faux, fb)])
    ctx.require(len(rec) == 1 and len(rec[0][0]) >= 3, "C20.contour_values", "Axes.contour was not called once with (X, Y, Z)", got=len(rec))
    if not (len(rec) == 1 and len(rec[0][0]) >= 3):
        return
    m = pr["multiplier"] if pr.get("multiplier") is not None else _default_multiplier(np.abs(np.asarray(f.mesh.region.pmax) - np.asarray(f.mesh.region.pmin)))
    if not r:
        m = _mult_and_labels(ax, f, pr, ctx)
    Xa, Ya, Z = (np.asarray(v, dtype=float) for v in rec[0][0][:3])
    (c0, c1), (s0, s1) = _centres(f, m)
    okpos = Xa.shape == (n[0],) and Ya.shape == (n[1],) and np.all(np.abs(Xa - c0) <= 8 * EPS * s0) and np.all(np.abs(Ya - c1) <= 8 * EPS * s1)
    ctx.require(okpos, "C20.positions", "contour grid differs from the cell centres / multiplier", gotx=Xa, wantx=c0, goty=Ya, wanty=c1)
    okz = Z.shape == (n[1], n[0])
    ctx.require(okz, "C20.contour_values", "Z is not (n1, n0)", got=Z.shape)
    if not okz:
        return
    shown = ~np.isnan(Z).T
    ctx.require(np.array_equal(Z.T[shown], arr0[..., 0][shown]), "C20.contour_values", "a contour value differs from the field value of its cell")
    _require_hidden(shown, valid, fnz, faux is not None, ctx, "contour")
    if r:
        return
    css = [c for c in ax.collections if isinstance(c, ContourSet)]
    ctx.require(len(css) == 1, "C20.contour_values", "expected one ContourSet on the axes", got=len(css))
    if spec.get("linear") is not None and len(css) == 1:
        a, b, c = spec["linear"]
        cs = css[0]
        vals = arr0[..., 0]
        rngv = float(vals.max() - vals.min())
        worst, cnt = 0.0, 0
        for lev, path in zip(cs.levels, cs.get_paths()):
            v = np.asarray(path.vertices, dtype=float)
            if v.size == 0:
                continue
            cnt += len(v)
            worst = max(worst, float(np.max(np.abs(a * v[:, 0] * m + b * v[:, 1] * m + c - lev))))
        if cnt == 0:
            ctx.trivial()
        ctx.require(worst <= 1e-9 * max(rngv, abs(c)), "C20.contour_values", "level lines of a linear field are not where a*x+b*y+c == level", worst=worst, value_range=rngv)


def _lightness_oracle(f, arr0, spec, pr, laux0, n):
    """(rgb (n0, n1, 3), note) from the statement: hue = in-plane angle / 2 pi, lightness = normalised lightness field"""
    nv = f.nvdim
    if nv == 1:
        ang = arr0[..., 0]
        light = np.abs(arr0[..., 0])
    else:
        vd = list(f.vdims)
        x, y = _rmap(f)
        vx = arr0[..., vd.index(x)] if x is not None else np.zeros(n)
        vy = arr0[..., vd.index(y)] if y is not None else np.zeros(n)
        ang = np.arctan2(vy, vx)
        ang = np.where(ang < 0, ang + 2 * np.pi, ang)
        if nv == 2:
            light = np.sqrt(np.sum(arr0 ** 2, axis=-1))
        else:
            rest = [v for v in vd if v not in (x, y)]
            light = arr0[..., vd.index(rest[0])] if len(rest) == 1 else None
    if laux0 is not None:
        light = _sample(laux0, n)
    if light is None:
        return None
    lo, hi = (0.0, 1.0) if pr.get("clim") is None else pr["clim"]
    l = light - light.min()
    if l.max() != 0:
        l = l / l.max()
    l = lo + l * (hi - lo)
    h = ang / (2 * np.pi)
    rgb = np.zeros((*n, 3))
    for i in range(n[0]):
        for j in range(n[1]):
            rgb[i, j] = colorsys.hls_to_rgb(float(h[i, j]), float(l[i, j]), 1.0)
    return rgb


def _check_lightness(pr, ctx):
    spec = pr["f"]
    f = _field(spec)
    n = [int(k) for k in f.mesh.n]
    if n[0] * n[1] < 2:
        ctx.trivial()
    faux = _aux(spec, pr["filter"]) if pr.get("filter") else None
    laux = _aux(spec, pr["lightness"]) if pr.get("lightness") else None
    arr0 = f.array.copy()
    laux0 = None if laux is None else laux.array.copy()
    valid, fnz = _hidden_sets(f, spec, faux, n)
    before = _snap(f)
    fb, lb = (None if faux is None else _snap(faux)), (None if laux is None else _snap(laux))
    ax = _new_ax()
    kw = {"colorwheel": pr["colorwheel"]}
    if pr.get("multiplier") is not None:
        kw["multiplier"] = pr["multiplier"]
    if faux is not None:
        kw["filter_field"] = faux
    if laux is not None:
        kw["lightness_field"] = laux
    if pr.get("clim") is not None:
        kw["clim"] = tuple(pr["clim"])
    x_y = _rmap(f) if f.nvdim > 1 else [None, None]
    no_inplane = f.nvdim > 1 and x_y[0] is None and x_y[1] is None
    r, e = raises(Exception, f.mpl.lightness, ax=ax, **kw)
    _frame(ctx, f, before, [("filter_field", faux, fb), ("lightness_field", laux, lb)])
    if no_inplane:
        # no component is mapped to either plane direction: there is no in-plane angle, the plot must be refused
        ctx.require(r and len(ax.images) == 0, "C20.refuse", "lightness plot of a vector field without in-plane components not refused")
        return
    if r:
        sig = "raised:" + type(e).__name__
        if isinstance(e, TypeError) and f.nvdim > 1 and (x_y[0] is None) != (x_y[1] is None):
            sig = "inplane_angle-swapped-None-conditions(one in-plane component)"
        if isinstance(e, IndexError) and 1 in n:
            sig = "hls2rgb-squeeze-drops-length-1-axis(n==1)"
        ctx.require(False, "C20.lightness_colours", "mpl.lightness raised", sig=sig, error=repr(e), in_plane=x_y)
        return
    m = _mult_and_labels(ax, f, pr, ctx)
    ctx.require(len(ax.images) == 1, "C20.lightness_colours", "expected exactly one image on the main axes", got=len(ax.images))
    if len(ax.images) != 1:
        return
    im = ax.images[0]
    _check_extent(im, f, m, ctx)
    A = np.asarray(im.get_array(), dtype=float)
    oks = A.shape == (n[1], n[0], 4)
    ctx.require(oks, "C20.lightness_colours", "image is not an (n1, n0, 4) RGBA array", got=A.shape)
    if not oks:
        return
    A = np.transpose(A, (1, 0, 2))
    shown = A[..., 3] > 0
    _require_hidden(shown, valid, fnz, faux is not None, ctx, "lightness")
    want = _lightness_oracle(f, arr0, spec, pr, laux0, n)
    if want is None:
        ctx.trivial()
        return
    ok = np.all(np.abs(A[..., :3][shown] - want[shown]) <= 1e-12) and np.all(A[..., 3][shown] == 1.0)
    ctx.require(ok, "C20.lightness_colours", "RGB of a drawn cell differs from hls_to_rgb(angle/2pi, normalised lightness, 1)",
                worst=float(np.max(np.abs(A[..., :3][shown] - want[shown]))) if np.any(shown) else None,
                lightness=None if laux is None else pr["lightness"]["mode"], in_plane=x_y)


def _check_call(pr, ctx):
    spec = pr["f"]
    f = _field(spec)
    n = [int(k) for k in f.mesh.n]
    if n[0] * n[1] < 2:
        ctx.trivial()
    arr0 = f.array.copy()
    valid = np.asarray(f.valid).astype(bool).copy()
    before = _snap(f)
    ax = _new_ax()
    kw = {}
    if pr.get("multiplier") is not None:
        kw["multiplier"] = pr["multiplier"]
    r, e = raises(Exception, f.mpl, ax=ax, **kw)
    if r:
        ctx.require(False, "C20.call", "field.mpl() raised", sig="raised:" + type(e).__name__, error=repr(e))
        return
    _frame(ctx, f, before)
    m = _mult_and_labels(ax, f, pr, ctx)
    nv = f.nvdim
    qs = [c for c in ax.collections if isinstance(c, Quiver)]
    ctx.require(len(ax.images) == (0 if nv == 2 else 1) and len(qs) == (0 if nv == 1 else 1), "C20.call", "wrong artists for the number of components",
                images=len(ax.images), quivers=len(qs), nvdim=nv)
    vd = None if f.vdims is None else list(f.vdims)
    names = _rmap(f) if nv > 1 else None
    if len(ax.images) == 1:
        im = ax.images[0]
        _check_extent(im, f, m, ctx)
        A = np.ma.masked_invalid(im.get_array())
        if nv == 1:
            want = arr0[..., 0]
        else:
            rest = [v for v in vd if v not in names]
            want = arr0[..., vd.index(rest[0])]
        if A.shape == (n[1], n[0]):
            shown = ~np.ma.getmaskarray(A).T
            data = np.ma.getdata(A).T
            ctx.require(np.array_equal(data[shown], want[shown]), "C20.call", "image differs from the out-of-plane component")
            _require_hidden(shown, valid, np.ones(n, dtype=bool), False, ctx, "mpl()")
        else:
            ctx.require(False, "C20.call", "image array is not (n1, n0)", got=A.shape)
    if len(qs) == 1:
        q = qs[0]
        N = n[0] * n[1]
        if np.asarray(q.U).size == N:
            U = np.asarray(np.ma.getdata(q.U), dtype=float).reshape(n[1], n[0]).T
            V = np.asarray(np.ma.getdata(q.V), dtype=float).reshape(n[1], n[0]).T
            mask = np.broadcast_to(np.asarray(getattr(q, "Umask", False)), (N,)).reshape(n[1], n[0]).T | np.isnan(U) | np.isnan(V)
            shown = ~mask
            wantU, wantV = arr0[..., vd.index(names[0])], arr0[..., vd.index(names[1])]
            ctx.require(np.array_equal(U[shown], wantU[shown]) and np.array_equal(V[shown], wantV[shown]), "C20.call", "arrows differ from the in-plane components", names=names)
            ctx.require(np.array_equal(shown, valid), "C20.hidden_invalid", "mpl(): arrows are not exactly on the valid cells")
            (c0, c1), (s0, s1) = _centres(f, m)
            X = np.asarray(q.X, dtype=float).reshape(n[1], n[0]).T
            Y = np.asarray(q.Y, dtype=float).reshape(n[1], n[0]).T
            ctx.require(np.all(np.abs(X - c0[:, None]) <= 8 * EPS * s0) and np.all(np.abs(Y - c1[None, :]) <= 8 * EPS * s1), "C20.positions",
                        "mpl(): arrow positions differ from the cell centres / multiplier")
            ctx.require(q.get_array() is None, "C20.call", "mpl(): arrows are coloured although the image encodes the third component")
        else:
            ctx.require(False, "C20.call", "quiver has not one arrow per cell")


def _check_refuse_ndim(pr, ctx):
    ndim, nv = pr["ndim"], pr["nvdim"]
    mesh = df.Mesh(p1=tuple([0.0] * ndim), p2=tuple([1e-9 * (k + 2) for k in range(ndim)]), n=tuple([2] * ndim))
    f = df.Field(mesh, nvdim=nv, value=tuple([1.0] * nv) if nv > 1 else 1.0)
    r, e = raises(Exception, lambda: f.mpl)
    ctx.require(r, "C20.refuse", "a field that is not 2-d has matplotlib plotting", ndim=ndim)
    if not r:
        r2, e2 = raises(Exception, lambda: e())
        ctx.require(r2, "C20.refuse", "a field that is not 2-d was plotted", ndim=ndim)


def _check_refuse(pr, ctx):
    what = pr["what"]
    rng = np.random.default_rng(pr["seed"])
    base = {k: pr[k] for k in ("p1", "p2", "n", "dims", "units")}
    n = pr["n"]

    def fld(nv, **k):
        return _field(dict(base, nvdim=nv, seed=int(rng.integers(1 << 30)), **k))

    def other(ndim, nv=1):
        mesh = df.Mesh(p1=tuple([0.0] * ndim), p2=tuple([1.0] * ndim), n=tuple([2] * ndim))
        return df.Field(mesh, nvdim=nv, value=1.0 if nv == 1 else tuple([1.0] * nv))

    d0, d1 = pr["dims"]
    map3 = [["x", d0], ["y", d1], ["z", None]]
    ax = _new_ax()
    calls = {
        "scalar_nvdim2": lambda: fld(2).mpl.scalar(ax=ax),
        "scalar_nvdim3": lambda: fld(3, mapping=map3).mpl.scalar(ax=ax),
        "contour_nvdim2": lambda: fld(2).mpl.contour(ax=ax),
        "contour_nvdim3": lambda: fld(3, mapping=map3).mpl.contour(ax=ax),
        "vector_nvdim1": lambda: fld(1).mpl.vector(ax=ax),
        "vector_nvdim1_vdims": lambda: fld(1).mpl.vector(ax=ax, vdims=["x", "y"]),
        "vector_nvdim4_vdims": lambda: fld(4).mpl.vector(ax=ax, vdims=["v0", "v2"]),
        "vector_nvdim3_nomapping": lambda: fld(3).mpl.vector(ax=ax),
        "vector_vdims_len3": lambda: fld(3).mpl.vector(ax=ax, vdims=["x", "y", "z"]),
        "vector_vdims_none_none": lambda: fld(3).mpl.vector(ax=ax, vdims=[None, None]),
        "lightness_nvdim4": lambda: fld(4).mpl.lightness(ax=ax),
        "call_nvdim4": lambda: fld(4).mpl(ax=ax),
        "filter_nvdim2": lambda: fld(1).mpl.scalar(ax=ax, filter_field=fld(2)),
        "filter_ndim3": lambda: fld(1).mpl.scalar(ax=ax, filter_field=other(3)),
        "filter_ndim1": lambda: fld(1).mpl.scalar(ax=ax, filter_field=other(1)),
        "color_nvdim3": lambda: fld(3, mapping=map3).mpl.vector(ax=ax, color_field=fld(3)),
        "color_ndim3": lambda: fld(3, mapping=map3).mpl.vector(ax=ax, color_field=other(3)),
        "lightness_field_nvdim2": lambda: fld(1, hue=True).mpl.lightness(ax=ax, lightness_field=fld(2)),
        "lightness_field_ndim3": lambda: fld(1, hue=True).mpl.lightness(ax=ax, lightness_field=other(3)),
        "contour_filter_nvdim2": lambda: fld(1).mpl.contour(ax=ax, filter_field=fld(2)),
        "lightness_filter_nvdim3": lambda: fld(3, mapping=map3).mpl.lightness(ax=ax, filter_field=fld(3)),
    }
    r, e = raises(Exception, calls[what])
    drawn = len(ax.images) + len(ax.collections)
    sig = None
    if not r and what == "vector_nvdim4_vdims":
        sig = "vector-accepts-nvdim-4-with-explicit-vdims"
    ctx.require(r, "C20.refuse", "not refused: " + what, sig=sig, drawn=drawn)
    if r:
        ctx.require(drawn == 0, "C20.refuse", "something was drawn before the refusal: " + what, error=repr(e), drawn=drawn)
