"""Run-time (bounded) tier: the same contract clauses, evaluated natively on the real
CPython/NumPy execution of /repo over a bounded enumeration of cases.

Protocol of a property module  rt/cXX.py :

    PROPERTY = "C01"
    CLAUSES  = {"C01.roundtrip": "point2index(index2point(i)) == i", ...}   # clause id -> text
    def cases(ctx):              # generator of (kind: str, params: JSON-serialisable dict)
        ...
    def check(kind, params, ctx):  # builds the objects from params, runs the REAL code,
        ...                        # states clauses through ctx.require(...)

`cases` must draw every random choice from ctx.rng (seeded by VERIF_SEED) and honour
ctx.tier ("quick" | "thorough").  `check` must be a pure function of (kind, params): a replay
re-invokes it with the stored params.  Everything labelled here is *bounded*, never proof.
"""
import json, hashlib, math, time, traceback
import numpy as np


class Violation(Exception):
    pass


class Ctx:
    def __init__(self, prop, tier="quick", seed=0, budget_s=None):
        self.prop = prop
        self.tier = tier
        self.seed = seed
        self.rng = np.random.default_rng(seed)
        self.evaluations = 0          # cases run
        self.clause_evals = {}        # clause -> number of times evaluated
        self.distinct = set()         # hashes of non-trivial cases
        self.samples = []
        self.violations = []          # dicts
        self.errors = []              # checker errors (unexpected exceptions in the harness)
        self._cur = None
        self._trivial = False
        self.t0 = time.time()
        self.budget_s = budget_s

    # -- per case
    def begin(self, kind, params):
        self._cur = (kind, params)
        self._trivial = False
        self.evaluations += 1

    def trivial(self):
        """mark the current case as trivial (not counted in distinct_nontrivial)"""
        self._trivial = True

    def end(self):
        kind, params = self._cur
        if not self._trivial:
            h = hashlib.sha1(json.dumps([kind, params], sort_keys=True, default=str).encode()).hexdigest()
            if h not in self.distinct:
                self.distinct.add(h)
                if len(self.samples) < 6 and (len(self.distinct) in (1, 2, 3) or len(self.distinct) % 97 == 0):
                    self.samples.append({"kind": kind, "params": _short(params)})
        self._cur = None

    def require(self, cond, clause, what="", sig=None, **detail):
        """state one contract clause on the current case.  sig: short canonical description of
        *how* it fails (used to match known findings); default = kind."""
        self.clause_evals[clause] = self.clause_evals.get(clause, 0) + 1
        try:
            ok = bool(cond)
        except Exception:
            ok = False
        if not ok:
            kind, params = self._cur
            self.violations.append({
                "property": self.prop, "clause": clause, "what": what,
                "sig": sig if sig is not None else kind,
                "kind": kind, "params": params,
                "detail": {k: _short(v) for k, v in detail.items()},
            })
        return ok

    def out_of_time(self):
        return self.budget_s is not None and time.time() - self.t0 > self.budget_s


def _short(v, depth=0):
    if isinstance(v, np.ndarray):
        v = v.tolist()
    if isinstance(v, (np.floating, np.integer, np.bool_)):
        v = v.item()
    if isinstance(v, complex):
        return [v.real, v.imag]
    if isinstance(v, dict):
        return {str(k): _short(x, depth + 1) for k, x in list(v.items())[:40]}
    if isinstance(v, (list, tuple)):
        if len(v) > 24:
            return [_short(x, depth + 1) for x in v[:24]] + ["...(%d)" % len(v)]
        return [_short(x, depth + 1) for x in v]
    if isinstance(v, (int, float, str, bool)) or v is None:
        return v
    return repr(v)[:200]


def run_module(mod, ctx, only=None):
    """drive all cases of a module (or a single stored case `only=(kind, params)`)."""
    it = [only] if only is not None else mod.cases(ctx)
    for kind, params in it:
        ctx.begin(kind, params)
        try:
            mod.check(kind, params, ctx)
        except Exception as e:  # an exception escaping check() is a harness error, not a violation
            ctx.errors.append({"kind": kind, "params": _short(params), "error": repr(e),
                               "trace": traceback.format_exc()[-1500:]})
        ctx.end()
        if only is None and ctx.out_of_time():
            break
    return ctx


# ---------------------------------------------------------------- helpers for generators
def raises(exc_types, fn, *a, **k):
    """(raised: bool, value_or_exception)"""
    try:
        r = fn(*a, **k)
    except exc_types as e:
        return True, e
    return False, r


def ulp_close(a, b, ulps=64, scale=None):
    """|a-b| <= ulps * eps * max(scale, |a|, |b|)  (elementwise, all)"""
    a = np.asarray(a, dtype=float)
    b = np.asarray(b, dtype=float)
    s = np.maximum(np.abs(a), np.abs(b))
    if scale is not None:
        s = np.maximum(s, scale)
    return bool(np.all(np.abs(a - b) <= ulps * np.finfo(float).eps * s))


def geom_scales(rng, k):
    """k length scales log-uniform in 1e-12..1e6"""
    return (10.0 ** rng.uniform(-12, 6, size=k)).tolist()


def rand_region(rng, ndim, scale=None):
    """corner pair with non-representable offsets; either corner order"""
    s = scale if scale is not None else 10.0 ** rng.uniform(-12, 6)
    off = rng.uniform(-3, 3, size=ndim) * s * (10.0 ** rng.integers(0, 3))
    e = rng.uniform(0.3, 1.7, size=ndim) * s
    p1 = off
    p2 = off + e
    flip = rng.integers(0, 2, size=ndim).astype(bool)
    a = np.where(flip, p2, p1)
    b = np.where(flip, p1, p2)
    return a.tolist(), b.tolist()
