"""parallel driver of the run-time tier"""
import os, time, multiprocessing as mp, json
from . import common

_MOD = None

def _work(args):
    prop, tier, seed, chunk = args
    ctx = common.Ctx(prop, tier, seed)
    for kind, params in chunk:
        common.run_module(_MOD, ctx, only=(kind, params))
    return {"evaluations": ctx.evaluations, "distinct": list(ctx.distinct), "samples": ctx.samples,
            "violations": ctx.violations, "errors": ctx.errors, "clause_evals": ctx.clause_evals}

def run(mod, prop, tier, seed, jobs=16):
    global _MOD
    _MOD = mod
    t0 = time.time()
    gctx = common.Ctx(prop, tier, seed)
    cases = list(mod.cases(gctx))
    budget = getattr(mod, "BUDGET_S", {"quick": 120, "thorough": 1500})[tier]
    nchunks = max(1, min(len(cases), jobs * 4))
    chunks = [cases[i::nchunks] for i in range(nchunks)]
    out = {"evaluations": 0, "distinct": set(), "samples": [], "violations": [], "errors": [], "clause_evals": {}}
    serial = getattr(mod, "SERIAL", False) or jobs <= 1 or len(cases) < 8
    if serial:
        results = [_work((prop, tier, seed, c)) for c in chunks]
    else:
        ctxmp = mp.get_context("fork")
        with ctxmp.Pool(min(jobs, nchunks)) as pool:
            results = pool.map(_work, [(prop, tier, seed, c) for c in chunks], chunksize=1)
    for r in results:
        out["evaluations"] += r["evaluations"]
        out["distinct"].update(r["distinct"])
        if len(out["samples"]) < 6:
            out["samples"] += r["samples"][:2]
        out["violations"] += r["violations"]
        out["errors"] += r["errors"]
        for k, v in r["clause_evals"].items():
            out["clause_evals"][k] = out["clause_evals"].get(k, 0) + v
    missing = [c for c in getattr(mod, "CLAUSES", {}) if c not in out["clause_evals"]]
    if missing:
        out["errors"].append({"error": "vacuity: clauses never evaluated", "clauses": missing})
    return {
        "evaluations": out["evaluations"], "distinct_nontrivial": len(out["distinct"]),
        "samples": out["samples"][:6], "violations": out["violations"], "errors": out["errors"],
        "clause_evals": out["clause_evals"],
        "rule": getattr(mod, "RULE", "cases enumerated by rt module; distinct by (kind, params) hash; trivial cases excluded by the module"),
        "assumptions": getattr(mod, "ASSUMPTIONS", []),
        "seconds": time.time() - t0,
    }
