#!/bin/bash
# Build the overlay interpreter: python 3.12 (same as /venv, which has the repository and its
# dependencies installed) + z3-solver from the offline wheelhouse.  Idempotent, offline.
set -e
cd "$(dirname "$0")"
if [ ! -x .venv/bin/python ] || ! .venv/bin/python -c "import z3, numpy" >/dev/null 2>&1; then
  rm -rf .venv
  /venv/bin/python -m venv .venv >/dev/null
  PIP_NO_INDEX=1 .venv/bin/pip install -q --no-index --no-deps --find-links /opt/veriftools/wheels z3-solver >/dev/null
  echo "import site; site.addsitedir('/venv/lib/python3.12/site-packages')" > .venv/lib/python3.12/site-packages/_repo_overlay.pth
fi
.venv/bin/python -c "import z3, numpy, discretisedfield; print('overlay ok: z3', z3.get_version_string())"
