#!/usr/bin/env python3
"""run the repository's test suite in <dir> (default /repo) and compare with BASELINE.json stable_pass"""
import sys, json, subprocess, os, xml.etree.ElementTree as ET, tempfile
root = sys.argv[1] if len(sys.argv) > 1 else '/repo'
base = json.load(open('/root/.vp/BASELINE.json'))
out = tempfile.mktemp(suffix='.xml')
env = dict(os.environ, PYTHONPATH=root)
r = subprocess.run(['/venv/bin/python', '-m', 'pytest', '-ra', '-q', '-p', 'no:cacheprovider', '--timeout=900',
                    '--continue-on-collection-errors', f'--junitxml={out}'], cwd=root, env=env, capture_output=True, text=True)
tree = ET.parse(out)
res = {}
for tc in tree.iter('testcase'):
    name = f"{tc.get('classname')}::{tc.get('name')}"
    bad = any(ch.tag in ('failure', 'error') for ch in tc)
    skipped = any(ch.tag == 'skipped' for ch in tc)
    res[name] = 'fail' if bad else ('skip' if skipped else 'pass')
stable = base['stable_pass']
missing = [t for t in stable if res.get(t) != 'pass']
print(f"tests run {len(res)}, passed {sum(1 for v in res.values() if v=='pass')}, stable_pass {len(stable)}, stable tests not passing: {len(missing)}")
for t in missing[:40]:
    print('  NOT PASSING:', t, res.get(t))
os.unlink(out)
sys.exit(1 if missing else 0)
