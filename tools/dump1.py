import sys
sys.path.insert(0,'/verif')
from pyvc import runner
import importlib, ast, z3
mod = importlib.import_module(sys.argv[1]); nm=sys.argv[2]; cfg=ast.literal_eval(sys.argv[3]); want=sys.argv[4] if len(sys.argv)>4 else None
src = runner.get_source(); E = runner.new_engine(mod, src); C = mod.contract(nm)
obs, npaths = runner.gen_obligations(E, C, cfg, 'CXX')
for ob in obs:
    if want and want not in ob['id']: continue
    print('=====', ob['id'])
    for c in ob['pc']: print('  PC:', z3.simplify(c))
    print('  GOAL:', ob['goal'] if isinstance(ob['goal'],bool) else z3.simplify(ob['goal']))
