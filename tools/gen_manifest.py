#!/usr/bin/env python3
"""regenerates MANIFEST.json and vf/levels.json from the table below"""
import json, os
HERE = os.path.dirname(os.path.dirname(os.path.abspath(__file__)))
props = [json.loads(l) for l in open(os.path.join(HERE, 'properties.jsonl'))]
sys_table = json.load(open(os.path.join(HERE, 'tools', 'claims.json')))
checks, na, levels = [], [], {}
for p in props:
    pid = p['id']
    c = sys_table.get(pid)
    if not c or c.get('not_applicable'):
        na.append({'property_id': pid, 'reason': (c or {}).get('not_applicable', 'planned contract check not built yet')})
        continue
    levels[pid] = {'level': c['category']}
    checks.append({
        'property_id': pid,
        'quick_cmd': f'./check {pid} --tier quick',
        'thorough_cmd': f'./check {pid} --tier thorough',
        'evidence_file': f'/verif/evidence/{pid}.json',
        'replay_cmd_template': f'./check {pid} --replay {{path}}',
        'engine': 'pyvc+rt',
        'level_claimed': {'category': c['category'], 'text': c['text'], 'design_ref': c.get('design_ref', 'DESIGN.md §4 ' + pid)},
        'level_note': c['note'],
        'technique': c['technique'],
    })
m = {
    'version': 1,
    'setup_cmd': './setup.sh',
    'hooks': {'guard': 'DISCRETISEDFIELD_VERIF', 'enable': 'unused: contracts are sidecar files under /verif; the repository carries no hooks or instrumentation',
              'baseline_off_cmd': 'cd /repo && /venv/bin/python -m pytest -ra -q -p no:cacheprovider --timeout=900 --continue-on-collection-errors',
              'source_commits': [], 'add_only': True},
    'engines': [
        {'name': 'pyvc', 'path': '/verif/pyvc', 'serves_properties': sorted(levels), 'kind_free_text': 'contract-based deductive verification: VC generation by symbolic execution of the real source (ast) against sidecar contracts, discharged by z3/cvc5'},
        {'name': 'rt', 'path': '/verif/rt', 'serves_properties': sorted(levels), 'kind_free_text': 'bounded run-time evaluation of the same contract clauses on the real code (labelled bounded, never counted as proved)'},
    ],
    'checks': checks,
    'not_applicable': na,
    'notes': 'See DESIGN.md. Exit 0 held / 1 violation / 2 undecided obligations only / 3 checker error.',
}
json.dump(m, open(os.path.join(HERE, 'MANIFEST.json'), 'w'), indent=1)
json.dump(levels, open(os.path.join(HERE, 'vf', 'levels.json'), 'w'), indent=1)
print('checks', len(checks), 'not_applicable', len(na))
