import sys, json
sys.path.insert(0,'/verif')
from pyvc import runner
import importlib, ast
modn, mname = sys.argv[1], sys.argv[2]
mod = importlib.import_module(modn); m = mod.MUTANTS[mname]
C = mod.contract(m['contract'])
cfg = [c for c in C.configs('quick') if all(c.get(k)==v for k,v in m.get('config',{}).items())][0]
r = runner.run_task((modn,'CXX',C.name,cfg,'quick',mname))
print(r['error'])
for o in r['obligations']: print(o['status'], o['id'][:140], o.get('reason','')[:100], json.dumps(o.get('model',{}))[:200])
