#!/usr/bin/env python3
"""print a python source file with docstrings removed, keeping original line numbers"""
import ast, sys
src=open(sys.argv[1]).read(); tree=ast.parse(src); lines=src.split('\n')
drop=set()
for node in ast.walk(tree):
    if isinstance(node,(ast.FunctionDef,ast.ClassDef,ast.Module,ast.AsyncFunctionDef)):
        b=node.body
        if b and isinstance(b[0],ast.Expr) and isinstance(b[0].value,ast.Constant) and isinstance(b[0].value.value,str):
            for l in range(b[0].lineno,b[0].end_lineno+1): drop.add(l)
lo=int(sys.argv[2]) if len(sys.argv)>2 else 1; hi=int(sys.argv[3]) if len(sys.argv)>3 else len(lines)
for i,l in enumerate(lines,1):
    if i in drop or i<lo or i>hi: continue
    if l.strip()=='' : continue
    print(f"{i}\t{l}")
