import sys, time, cProfile, pstats
sys.path.insert(0,'/verif')
from pyvc import runner
import importlib, ast
mod = importlib.import_module(sys.argv[1])
nm = sys.argv[2]; cfg = ast.literal_eval(sys.argv[3])
pr=cProfile.Profile(); pr.enable()
r = runner.run_task((sys.argv[1],'CXX',nm,cfg,'quick',None))
pr.disable()
for o in r['obligations']: print(o['status'], o['seconds'], o['id'][:150], o.get('reason',''))
print(r['error'])
pstats.Stats(pr).sort_stats('cumulative').print_stats(25)
