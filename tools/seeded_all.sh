#!/bin/bash
# run every seeded change against its property's quick check (apply to /repo, check, undo) and update meta.json
cd /verif
for d in seeded/*/; do
  id=$(basename $d); prop=${id%%-*}
  [ -n "$1" ] && [[ "$id" != $1* ]] && continue
  mkdir -p /tmp/seeded_logs
  # confirm the demonstration against the current /repo: fails with the change, passes without it
  git -C /repo apply $PWD/$d/patch.diff || { echo "$id: patch does not apply"; continue; }
  (cd /repo && PYTHONPATH=/repo /venv/bin/python /verif/$d/demo.py > /tmp/seeded_logs/$id.demo_changed 2>&1); dc=$?
  git -C /repo checkout -- .
  (cd /repo && PYTHONPATH=/repo /venv/bin/python /verif/$d/demo.py > /tmp/seeded_logs/$id.demo_orig 2>&1); do_=$?
  r=$(tools/seeded_eval.sh $PWD/$d/patch.diff /tmp/seeded_logs/$id.log $prop quick)
  echo "$id demo(changed)=$dc demo(unchanged)=$do_ :: $r" | cut -c1-260
  python3 - "$d" "$prop" "$dc" "$do_" <<'P'
import sys, json
d, prop, dc, do_ = sys.argv[1:5]
import os
m = json.load(open(d + 'meta.json'))
log = open('/tmp/seeded_logs/' + os.path.basename(d.rstrip('/')) + '.log').read()
viol = [l for l in log.splitlines() if l.startswith('VIOLATION')]
first = [l.strip()[:300] for l in log.splitlines() if l.strip().startswith(('failed obligation:', 'clause '))][:4]
summary = [l for l in log.splitlines() if ' tier=' in l and 'exit' in l]
m['checks_run_against_it'] = {'how': f'git -C /repo apply patch.diff; ./check {prop} --tier quick; git -C /repo checkout -- .   (tools/seeded_all.sh, on the repaired tree)',
                              'demo_exit_with_change': int(dc), 'demo_exit_without_change': int(do_),
                              'summary': summary, 'violation_lines': len(viol), 'first_failing': first,
                              'deductive_tier_noticed': any('failed obligation' in l for l in log.splitlines()),
                              'bounded_tier_noticed': any(l.strip().startswith('clause ') for l in log.splitlines())}
m['detected'] = bool(viol)
json.dump(m, open(d + 'meta.json', 'w'), indent=1)
P
done
