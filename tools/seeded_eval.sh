#!/bin/bash
# seeded_eval.sh <patch.diff> <logfile> <prop> [tier] : apply a seeded change to /repo, run ./check <prop>, undo the change
patch=$1; log=$2; prop=$3; tier=${4:-quick}
cd /verif
git -C /repo diff --quiet || { echo "/repo has uncommitted changes; refusing"; exit 9; }
git -C /repo apply "$patch" || { echo "patch does not apply"; exit 9; }
./check $prop --tier $tier > "$log" 2>&1; rc=$?
git -C /repo checkout -- .
git -C /verif checkout -- evidence 2>/dev/null
echo "$prop $tier exit=$rc violations=$(grep -c '^VIOLATION' $log) :: $(grep '^VIOLATION' $log | head -2 | cut -c1-200)"
