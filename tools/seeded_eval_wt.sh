#!/bin/bash
# seeded_eval_wt.sh <worktree with the change applied> <logfile> <prop> [tier]: run ./check against a scratch worktree (VERIF_REPO), /repo untouched
wt=$1; log=$2; prop=$3; tier=${4:-quick}
cd /verif
VERIF_REPO=$wt ./check $prop --tier $tier > "$log" 2>&1; rc=$?
git -C /verif checkout -- evidence/$prop.json 2>/dev/null
echo "$prop $tier exit=$rc violations=$(grep -c '^VIOLATION' $log) :: $(grep '^VIOLATION' $log | head -2 | cut -c1-200)"
