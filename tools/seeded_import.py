#!/usr/bin/env python3
"""seeded_import.py <Cxx> <slug> : copy a confirmed sub-agent change from /tmp/wt/<Cxx> into /verif/seeded/<Cxx>-<slug>/"""
import sys, os, shutil, json, re
prop, slug = sys.argv[1], sys.argv[2]
wt = f'/tmp/wt/{prop}'
dst = f'/verif/seeded/{prop}-{slug}'
os.makedirs(dst, exist_ok=True)
shutil.copy(f'{wt}/patch.diff', f'{dst}/patch.diff')
shutil.copy(f'{wt}/demo.py', f'{dst}/demo.py')
notes = open(f'{wt}/notes.md').read() if os.path.exists(f'{wt}/notes.md') else ''
conf = open(f'{wt}/confirm.log').read().strip().splitlines()
chk = open(f'{wt}/check_quick.log').read() if os.path.exists(f'{wt}/check_quick.log') else ''
viol = [l for l in chk.splitlines() if l.startswith('VIOLATION')]
failed = [l.strip() for l in chk.splitlines() if l.strip().startswith(('failed obligation:', 'clause '))]
summary = [l for l in chk.splitlines() if ' tier=' in l and 'exit' in l]
meta = {
    'property': prop,
    'origin': 'written by a fresh sub-agent that saw only the property text and a scratch worktree of /repo (nothing from /verif)',
    'what_it_needs_to_manifest': notes,
    'confirmed_by_me': {
        'how': 'scratch worktree /tmp/wt/%s: demo.py with the change (must fail), with the change reverse-applied (must pass), repository suite with the change (tools/baseline_check.py, stable tests must all pass)' % prop,
        'results': conf},
    'checks_run_against_it': {
        'how': f'git -C /repo apply patch.diff; ./check {prop} --tier quick; git -C /repo checkout -- .   (tools/seeded_eval.sh)',
        'summary': summary, 'violation_lines': len(viol), 'first_failing': failed[:4]},
    'detected': bool(viol),
}
json.dump(meta, open(f'{dst}/meta.json', 'w'), indent=1)
print(dst, 'detected' if viol else 'MISSED', len(viol))
