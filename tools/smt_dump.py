"""dump the SMT-LIB text of matching obligations:  smt_dump.py <module> <contract> "<cfg dict>" <label substring> <outdir>"""
import sys, os
sys.path.insert(0, '/verif')
from pyvc import runner
import importlib, ast, z3
mod = importlib.import_module(sys.argv[1]); nm = sys.argv[2]; cfg = ast.literal_eval(sys.argv[3]); want = sys.argv[4]; out = sys.argv[5]
os.makedirs(out, exist_ok=True)
src = runner.get_source(); E = runner.new_engine(mod, src); C = mod.contract(nm)
obs, npaths = runner.gen_obligations(E, C, cfg, 'CXX')
k = 0
for ob in obs:
    if want not in ob['id'] or isinstance(ob['goal'], bool):
        continue
    so = z3.Solver(); so.add(*ob['pc']); so.add(z3.Not(ob['goal']))
    p = os.path.join(out, f'ob{k}.smt2'); open(p, 'w').write(so.to_smt2()); print(p, ob['id']); k += 1
