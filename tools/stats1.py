import sys, time, signal
sys.path.insert(0, '/verif')
from pyvc import runner, core
import importlib, ast, z3
mod = importlib.import_module(sys.argv[1]); nm = sys.argv[2]; cfg = ast.literal_eval(sys.argv[3]); lim = int(sys.argv[4]) if len(sys.argv) > 4 else 120
src = runner.get_source(); E = runner.new_engine(mod, src); C = mod.contract(nm)
LOG = []
orig = core.Engine.oneshot
def oneshot(s, extra, timeout):
    t = time.time(); r = orig(s, extra, timeout); dt = time.time() - t
    LOG.append((dt, str(r), timeout, len(s.pc), len(s.decisions)))
    return r
core.Engine.oneshot = oneshot
def done(*a):
    print('queries', len(LOG), 'total', round(sum(x[0] for x in LOG), 1), 'unknown', sum(1 for x in LOG if x[1] == 'unknown'))
    print('by timeout kind', {t: (sum(1 for x in LOG if x[2] == t), round(sum(x[0] for x in LOG if x[2] == t), 1)) for t in {x[2] for x in LOG}})
    print('max decisions depth', max(x[4] for x in LOG) if LOG else 0)
    sys.exit(0)
signal.signal(signal.SIGALRM, done); signal.alarm(lim)
t = time.time()
obs, npaths = runner.gen_obligations(E, C, cfg, 'CXX')
print('paths', npaths, 'obligations', len(obs), 'explore s', round(time.time() - t, 1))
done()
