#!/bin/bash
# run every property's quick (or given tier) check on the unchanged tree, one after the other; summary on stdout
cd /verif; tier=${1:-quick}; mkdir -p /tmp/sweep
for i in 01 02 03 04 05 06 07 08 09 10 11 12 13 14 15 16 17 18 19 20; do
  /usr/bin/time -f "%e" -o /tmp/sweep/C$i.time ./check C$i --tier $tier > /tmp/sweep/C$i.log 2>&1; rc=$?
  echo "C$i exit=$rc wall=$(cat /tmp/sweep/C$i.time) :: $(grep ' tier=' /tmp/sweep/C$i.log | tail -1 | cut -c1-170)"
done
