#!/bin/bash
# run every property's quick (or given tier) check on the unchanged tree, one after the other; summary on stdout
cd "$(dirname "$0")/.."; tier=${1:-quick}; out=${SWEEP_OUT:-/tmp/sweep}; mkdir -p $out
for i in ${SWEEP_PROPS:-01 02 03 04 05 06 07 08 09 10 11 12 13 14 15 16 17 18 19 20}; do
  /usr/bin/time -f "%e" -o $out/C$i.time ./check C$i --tier $tier > $out/C$i.log 2>&1; rc=$?
  echo "C$i exit=$rc wall=$(cat $out/C$i.time) :: $(grep ' tier=' $out/C$i.log | tail -1 | cut -c1-170)"
done
