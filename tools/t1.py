import sys, time, json
sys.path.insert(0,'/verif')
from pyvc import runner
import importlib
mod = importlib.import_module(sys.argv[1]); sys.argv.pop(1)
names = sys.argv[1:] or [c.name for c in mod.CONTRACTS]
for nm in names:
    C = mod.contract(nm)
    for cfg in C.configs('quick'):
        t=time.time()
        r = runner.run_task((mod.__name__,'CXX',nm,cfg,'quick',None))
        st = {}
        for o in r['obligations']: st[o['status']] = st.get(o['status'],0)+1
        print(f"{nm} {runner.cfg_str(cfg)}: paths={r['paths']} {st} {time.time()-t:.1f}s", r['error'] or '')
        for o in r['obligations']:
            if o['status']!='discharged':
                print('   ', o['status'], o['id'], o.get('reason',''), json.dumps(o.get('model',{}))[:300], json.dumps(o.get('replay',{}),default=str)[:500])
