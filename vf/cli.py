"""./check <Cxx> [--tier quick|thorough] [--replay <path>] [--only deductive|rt]

Exit codes: 0 property held on everything explored (KNOWN-FINDING lines for listed findings);
1 violation (line `VIOLATION property=<id> replay=<path>`); 2 undecided obligations only;
3 checker error (engine cross-check / negative control / harness failure) - never a violation.
"""
import sys, os, json, time, importlib, argparse, fnmatch, re, hashlib

HERE = os.path.dirname(os.path.dirname(os.path.abspath(__file__)))
LEVELS = json.load(open(os.path.join(HERE, "vf", "levels.json")))


def load_known():
    p = os.path.join(HERE, "known_findings.json")
    if not os.path.exists(p):
        return {"findings": [], "fixed": []}
    return json.load(open(p))


def match_known(known, prop, tier_kind, clause, sig):
    for f in known["findings"]:
        if f["property"] != prop or f.get("tier", tier_kind) != tier_kind:
            continue
        if f["clause"] != clause:
            continue
        if fnmatch.fnmatchcase(sig or "", f.get("sig", "*")):
            return f
    return None


def write_replay(prop, name, payload):
    d = os.path.join(HERE, "replays", prop)
    os.makedirs(d, exist_ok=True)
    safe = re.sub(r"[^A-Za-z0-9_.-]+", "_", name)[:120]
    h = hashlib.sha1(json.dumps(payload, sort_keys=True, default=str).encode()).hexdigest()[:8]
    p = os.path.join(d, f"{safe}-{h}.json")
    with open(p, "w") as fh:
        json.dump(payload, fh, indent=1, default=str)
    return p


def main(argv=None):
    ap = argparse.ArgumentParser()
    ap.add_argument("prop")
    ap.add_argument("--tier", default=os.environ.get("VERIF_TIER", "quick"), choices=["quick", "thorough"])
    ap.add_argument("--replay")
    ap.add_argument("--only", choices=["deductive", "rt"])
    ap.add_argument("--jobs", type=int, default=int(os.environ.get("VERIF_JOBS", "16")))
    a = ap.parse_args(argv)
    prop = a.prop.upper()
    seed = int(os.environ.get("VERIF_SEED", "0") or 0)
    t0 = time.time()
    if a.replay:
        return do_replay(prop, a.replay)

    known = load_known()
    lines = []
    ded = None
    rt = None
    exit_code = 0
    checker_errors = []

    # ---------------- deductive tier
    if a.only in (None, "deductive"):
        try:
            mod = importlib.import_module(f"contracts.{prop.lower()}")
        except ModuleNotFoundError as e:
            if f"contracts.{prop.lower()}" not in str(e):
                raise
            mod = None
        if mod is not None:
            from pyvc import runner
            ded = runner.run_property(mod, prop, a.tier, seed, a.jobs)
            checker_errors += ded["checker_errors"]

    # ---------------- run-time (bounded) tier
    if a.only in (None, "rt"):
        try:
            rmod = importlib.import_module(f"rt.{prop.lower()}")
        except ModuleNotFoundError as e:
            if f"rt.{prop.lower()}" not in str(e):
                raise
            rmod = None
        if rmod is not None:
            from rt import driver
            rt = driver.run(rmod, prop, a.tier, seed, a.jobs)
            checker_errors += rt["errors"]

    if ded is None and rt is None:
        print(f"CHECKER-ERROR: no machinery for {prop}")
        return 3

    # ---------------- verdicts
    violations = 0
    known_hit = {}
    undecided = 0
    if ded is not None:
        for ob in ded["obligations"]:
            if ob["status"] == "failed":
                k = match_known(known, prop, "deductive", ob["key"], ob.get("config", ""))
                if k:
                    known_hit.setdefault(k["what"], 0)
                    known_hit[k["what"]] += 1
                    ob["status"] = "known-finding"
                    continue
                violations += 1
                rp = write_replay(prop, ob["key"], {"property": prop, "tier": "deductive", "obligation": ob})
                tail = "" if ob.get("replay", {}).get("reproduced") else " no-failing-input-found"
                lines.append(f"VIOLATION property={prop} replay={rp}{tail}")
                lines.append(f"  failed obligation: {ob['id']} :: {ob.get('text','')}")
                if ob.get("replay"):
                    lines.append(f"  replay on real code: {json.dumps(ob['replay'], default=str)[:600]}")
            elif ob["status"] == "undecided":
                undecided += 1
                lines.append(f"UNDECIDED obligation {ob['id']}: {ob.get('reason','')[:300]}")
    if rt is not None:
        seen = set()
        for v in rt["violations"]:
            k = match_known(known, prop, "rt", v["clause"], v["sig"])
            if k:
                known_hit.setdefault(k["what"], 0)
                known_hit[k["what"]] += 1
                continue
            violations += 1
            key = (v["clause"], v["sig"])
            if key in seen and len(seen) > 0:
                continue  # one line per (clause, signature); all are counted
            seen.add(key)
            rp = write_replay(prop, v["clause"] + "-" + str(v["sig"]), dict(v, tier="rt"))
            lines.append(f"VIOLATION property={prop} replay={rp}")
            lines.append(f"  clause {v['clause']} [{v['sig']}]: {v['what']} :: {json.dumps(v['detail'], default=str)[:500]}")
    for what, cnt in known_hit.items():
        lines.append(f"KNOWN-FINDING: property={prop} {what} ({cnt} occurrence(s) this run)")

    if checker_errors:
        for e in checker_errors[:10]:
            lines.append(f"CHECKER-ERROR: {json.dumps(e, default=str)[:1500]}")
        exit_code = 3
    if violations:
        exit_code = 1
    elif undecided and exit_code == 0:
        exit_code = 2

    # ---------------- evidence
    write_evidence(prop, a.tier, seed, ded, rt, violations, known_hit, time.time() - t0, undecided)
    for l in lines:
        print(l)
    nob = sum(1 for o in ded["obligations"] if o["status"] != "known-finding") if ded else 0
    ndis = sum(1 for o in ded["obligations"] if o["status"] == "discharged") if ded else 0
    print(f"{prop} tier={a.tier} seed={seed}: deductive {ndis}/{nob} obligations discharged"
          f"{' (' + str(undecided) + ' undecided)' if undecided else ''}; "
          f"bounded run-time cases {rt['evaluations'] if rt else 0} "
          f"({rt['distinct_nontrivial'] if rt else 0} distinct non-trivial); "
          f"violations {violations}; wall {time.time() - t0:.1f}s; exit {exit_code}")
    return exit_code


def write_evidence(prop, tier, seed, ded, rt, violations, known_hit, wall, undecided):
    lvl = LEVELS.get(prop, {"level": "exploration"})["level"]
    cov = {}
    assumptions = []
    if ded is not None:
        kf_obs = [o for o in ded["obligations"] if o["status"] == "known-finding"]
        obs = [o for o in ded["obligations"] if o["status"] != "known-finding"]
        cov.update({
            "known_finding_obligations": [{"id": o["id"], "replay": o.get("replay")} for o in kf_obs],
            "obligations": len(obs),
            "discharged": sum(1 for o in obs if o["status"] == "discharged"),
            "undecided": undecided,
            "failed": sum(1 for o in obs if o["status"] == "failed"),
            "checker_cmd": f"./check {prop} --tier {tier}  (pyvc: VCs generated from /repo source by symbolic execution; z3 {ded['z3_version']} one-shot per obligation"
                           + ("; cross-checked with /usr/bin/cvc5 and /usr/bin/z3" if ded.get("cross") else "") + ")",
            "trusted_base": ded["trusted_base"],
            "functions_under_contract": ded["functions"],
            "inlined_accessors": ded.get("inlined", []),
            "configurations": ded.get("configurations", []),
            "by_backend": ded.get("by_backend", {}),
            "solver_seconds": round(ded.get("solver_seconds", 0.0), 3),
            "paths_explored": ded.get("paths", 0),
            "dropped_by_extraction": ded.get("dropped", []),
            "negative_controls": ded.get("negative_controls", {}),
            "engine_crosscheck": ded.get("crosscheck", {}),
            "vacuity": ded.get("vacuity", {}),
            "obligation_samples": [{"id": o["id"], "text": o.get("text", ""), "status": o["status"],
                                    "seconds": o.get("seconds")} for o in obs[:: max(1, len(obs) // 8)]][:10],
            "bounded_in": ded.get("bounded_in", []),
            "slowest_tasks": ded.get("slowest_tasks", []),
            "numpy_model_conformance": ded.get("numpy_model_conformance", {}),
            "slowest_obligations": [{"id": o["id"], "seconds": o.get("seconds"), "backend": o.get("backend")}
                                    for o in sorted(obs, key=lambda o: -(o.get("seconds") or 0))[:8]],
        })
        assumptions += ded["assumptions"]
    if rt is not None:
        cov.update({
            "evaluations": rt["evaluations"],
            "distinct_nontrivial": rt["distinct_nontrivial"],
            "rule": rt["rule"],
            "samples": rt["samples"] or [{"note": "no samples"}],
            "clause_evaluations": rt["clause_evals"],
            "bounded_tier_label": "bounded: run-time evaluation of the contract clauses on the real code over the enumerated cases; never counted as proved",
        })
        assumptions += rt.get("assumptions", [])
    else:
        # deductive only: exploration-style keys measured from the obligations
        obs = ded["obligations"]
        cov.update({
            "evaluations": len(obs),
            "distinct_nontrivial": len({o["key"] + "|" + o.get("config", "") for o in obs}),
            "rule": "one evaluation = one proof obligation (function x configuration x path x clause); distinct by obligation key and configuration",
            "samples": [{"id": o["id"], "text": o.get("text", "")} for o in obs[:5]],
        })
    if known_hit:
        cov["known_findings_reported"] = known_hit
    ev = {
        "property_id": prop, "tier": tier, "seed": seed, "level": lvl, "coverage": cov,
        "assumptions": sorted(set(assumptions)), "wall_s": round(wall, 2), "violations": violations,
    }
    os.makedirs(os.path.join(HERE, "evidence"), exist_ok=True)
    with open(os.path.join(HERE, "evidence", f"{prop}.json"), "w") as fh:
        json.dump(ev, fh, indent=1, default=str)


def do_replay(prop, path):
    r = json.load(open(path))
    if r.get("tier") == "rt":
        from rt import common
        mod = importlib.import_module(f"rt.{prop.lower()}")
        ctx = common.Ctx(prop)
        common.run_module(mod, ctx, only=(r["kind"], r["params"]))
        for v in ctx.violations:
            print(f"REPRODUCED clause {v['clause']} [{v['sig']}]: {v['what']} :: {json.dumps(v['detail'], default=str)[:800]}")
        for e in ctx.errors:
            print("CHECKER-ERROR", e)
        if not ctx.violations:
            print("not reproduced on the current tree")
        return 1 if ctx.violations else 0
    else:
        from pyvc import runner
        mod = importlib.import_module(f"contracts.{prop.lower()}")
        return runner.replay_obligation(mod, r["obligation"])


if __name__ == "__main__":
    sys.exit(main())
